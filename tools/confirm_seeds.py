#!/usr/bin/env python3
"""Confirm seeded breaking changes produced by sub-agents: in a scratch worktree of /repo
(HEAD, falling back to the pinned snapshot when the patch does not apply) check that the
demo passes without the patch, fails with it, and that the baseline suite still passes.
Keeps confirmed ones under /verif/seeded/<prop>-<A|B>/.  usage: confirm_seeds.py C01 C02 ..."""
import json, os, shutil, subprocess, sys

SEED = '/tmp/seed'
OUT = '/verif/seeded'
SNAP = '6f61368'


def sh(cmd, **kw):
    return subprocess.run(cmd, shell=True, capture_output=True, text=True, **kw)


def demo(wt, demo_path):
    env = dict(os.environ, PYTHONPATH=wt, OMP_NUM_THREADS='1', MKL_NUM_THREADS='1')
    try:
        p = subprocess.run(['/venv/bin/python', demo_path], cwd=wt, env=env, capture_output=True, text=True, timeout=600)
        return p.returncode, (p.stdout + p.stderr)[-600:]
    except subprocess.TimeoutExpired:
        return 124, 'timeout'


def confirm(pid, x):
    src = '%s/%s/%s' % (SEED, pid, x)
    if not os.path.exists(src + '/patch.diff'):
        return None
    name = '%s-%s' % (pid, x)
    dst = '%s/%s' % (OUT, name)
    if os.path.exists(dst + '/meta.json') and json.load(open(dst + '/meta.json')).get('confirmed') is not None:
        return json.load(open(dst + '/meta.json'))
    wt = '/tmp/confirm_%s' % name
    sh('git -C /repo worktree remove --force %s' % wt)
    res = {'property': pid, 'variant': x}
    for base in ('HEAD', SNAP):
        sh('git -C /repo worktree remove --force %s' % wt)
        r = sh('git -C /repo worktree add -q --detach %s %s' % (wt, base))
        if sh('git -C %s apply --check %s/patch.diff' % (wt, src)).returncode == 0:
            res['base'] = sh('git -C %s rev-parse --short HEAD' % wt).stdout.strip()
            res['applies_to_head'] = (base == 'HEAD')
            break
    else:
        res['confirmed'] = False
        res['note'] = 'patch applies neither to HEAD nor to the snapshot'
        sh('git -C /repo worktree remove --force %s' % wt)
        return res
    rc0, out0 = demo(wt, src + '/demo.py')
    sh('git -C %s apply %s/patch.diff' % (wt, src))
    rc1, out1 = demo(wt, src + '/demo.py')
    t = sh('/tmp/seed/run_tests.sh %s' % wt)
    ok_tests = 'BASELINE-OK' in t.stdout
    sh('git -C /repo worktree remove --force %s' % wt)
    sh('rm -f /tmp/seed/junit.*')
    res.update({'demo_clean_rc': rc0, 'demo_patched_rc': rc1, 'demo_patched_tail': out1[-300:],
                'baseline_with_patch': 'BASELINE-OK' if ok_tests else t.stdout[-400:],
                'confirmed': bool(rc0 == 0 and rc1 != 0 and ok_tests)})
    os.makedirs(dst, exist_ok=True)
    shutil.copy(src + '/patch.diff', dst + '/patch.diff')
    shutil.copy(src + '/demo.py', dst + '/demo.py')
    meta = {}
    try:
        meta = json.load(open(src + '/meta.json'))
    except Exception:
        pass
    meta_out = {'breaks_property': pid, 'summary': meta.get('summary'), 'needs_to_manifest': meta.get('needs_to_manifest'),
                'agent_ran': meta.get('ran'), 'confirmed_by_me': res,
                'what_i_ran': ['git worktree add (scratch) at %s' % res.get('base'), 'demo.py on clean tree -> rc %s' % rc0,
                               'git apply patch.diff; demo.py -> rc %s' % rc1, '/tmp/seed/run_tests.sh -> %s' % ('BASELINE-OK' if ok_tests else 'BROKEN'),
                               'git worktree remove --force'],
                'confirmed': res['confirmed']}
    json.dump(meta_out, open(dst + '/meta.json', 'w'), indent=1)
    return meta_out


def confirm_dir(name):
    """re-confirm a (rebased) seed kept under /verif/seeded/<name> against /repo HEAD"""
    d = '%s/%s' % (OUT, name)
    wt = '/tmp/confirm_%s' % name
    sh('git -C /repo worktree remove --force %s' % wt)
    sh('git -C /repo worktree add -q --detach %s HEAD' % wt)
    head = sh('git -C %s rev-parse --short HEAD' % wt).stdout.strip()
    ok_apply = sh('git -C %s apply --check %s/patch.diff' % (wt, d)).returncode == 0
    rc0, out0 = demo(wt, d + '/demo.py')
    sh('git -C %s apply %s/patch.diff' % (wt, d))
    rc1, out1 = demo(wt, d + '/demo.py')
    t = sh('/tmp/seed/run_tests.sh %s' % wt)
    ok_tests = 'BASELINE-OK' in t.stdout
    sh('git -C /repo worktree remove --force %s' % wt)
    sh('rm -f /tmp/seed/junit.*')
    m = json.load(open(d + '/meta.json'))
    m['confirmed'] = bool(ok_apply and rc0 == 0 and rc1 != 0 and ok_tests)
    m['confirmed_on_repaired_tree'] = {'head': head, 'applies': ok_apply, 'demo_clean_rc': rc0, 'demo_patched_rc': rc1,
                                       'demo_patched_tail': out1[-300:], 'baseline_with_patch': 'BASELINE-OK' if ok_tests else t.stdout[-300:]}
    json.dump(m, open(d + '/meta.json', 'w'), indent=1)
    return m['confirmed'], rc0, rc1, ok_tests


if __name__ == '__main__' and sys.argv[1:2] == ['--dirs']:
    for name in sys.argv[2:]:
        print(name, confirm_dir(name), flush=True)
elif __name__ == '__main__':
    for pid in sys.argv[1:]:
        for x in 'ABCDEFGHIJ':
            r = confirm(pid, x)
            if r is not None:
                print(pid, x, 'confirmed=%s' % r.get('confirmed'), flush=True)


