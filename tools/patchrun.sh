#!/bin/bash
# usage: patchrun.sh <patch.diff> <cli args...> : apply patch to a scratch copy of /repo sources, run pyvc.cli on it, remove copy
set -e
D=$(mktemp -d /tmp/pyvc_patch.XXXXXX)
trap 'rm -rf "$D"' EXIT
mkdir -p "$D/lazy_dataset"
cp /repo/lazy_dataset/*.py "$D/lazy_dataset/"
P="$1"; shift
(cd "$D" && patch -p1 -s < "$P")
cd /verif && python3-vt -m pyvc.cli --repo "$D" "$@"
