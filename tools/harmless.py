#!/usr/bin/env python3
"""Apply each harmless edit to a scratch copy of the repository sources and run the listed checks
(PYVC_REPO / PYVC_OUT point into the scratch directory; /repo and /verif/evidence are untouched)."""
import os, shutil, subprocess, sys, tempfile
sys.path.insert(0, '/verif')
from harmless.edits import EDITS

bad = 0
for name, mod, old, new, props in EDITS:
    tmp = tempfile.mkdtemp(prefix='pyvc_harmless_')
    try:
        shutil.copytree('/repo/lazy_dataset', tmp + '/lazy_dataset')
        p = '%s/lazy_dataset/%s.py' % (tmp, mod)
        s = open(p).read()
        if s.count(old) != 1:
            print('%-45s EDIT DOES NOT APPLY (%d matches)' % (name, s.count(old)))
            bad += 1
            continue
        open(p, 'w').write(s.replace(old, new))
        res = []
        for pr in props:
            env = dict(os.environ, PYVC_REPO=tmp, PYVC_OUT=tmp + '/out')
            c = subprocess.run(['./check', pr, '--tier', 'quick', '--repo', tmp], cwd='/verif', env=env, capture_output=True, text=True)
            res.append('%s=%d' % (pr, c.returncode))
            if c.returncode != 0:
                bad += 1
                print('   ', [l for l in c.stdout.splitlines() if l.startswith(('VIOLATION', 'UNDECIDED', 'CHECKER'))][:2])
        print('%-45s %s' % (name, ' '.join(res)), flush=True)
    finally:
        shutil.rmtree(tmp, ignore_errors=True)
print('harmless edits with a non-zero exit: %d' % bad)
sys.exit(1 if bad else 0)
