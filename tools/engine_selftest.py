#!/usr/bin/env python3
"""Encoding conformance of the symbolic executor against CPython (run under python3-vt): small pure expressions and
statement blocks over integers, tuples, ranges and numpy fixed-width scalars are executed symbolically on CONCRETE
arguments; the (unique feasible) outcome must be the value / exception class that CPython produces.  Covers the parts of
the encoding that the obligations silently rely on: floor division and modulo of negative numbers, comparison chains,
boolean short-circuit, if-expressions, int() truncation, true division, slicing bounds of sequences, range lengths,
min/max, numpy scalar wrap-around and OverflowError (NEP 50).
usage: python3-vt tools/engine_selftest.py   -> exit 0 iff every case agrees; prints the number of cases"""
import ast
import itertools
import sys
import warnings

sys.path.insert(0, '/verif')
import z3                                   # noqa: E402
from pyvc import smt, extract              # noqa: E402
from pyvc.engine import Engine, State, Outcome   # noqa: E402
from pyvc.values import *                  # noqa: E402,F401,F403

import numpy as np                         # noqa: E402

SRC = extract.Source('/repo')
HIER = smt.ExcHierarchy()
for name, bases in SRC.exception_classes():
    pass


def run(code, env):
    """-> ('v', python value) | ('e', exception class name) | ('?', reason)"""
    eng = Engine(SRC, HIER, 'core')
    fn = ast.parse('def _f():\n' + '\n'.join('    ' + l for l in code.splitlines())).body[0]
    eng.fn = fn
    eng.ordinals = {}
    st = State()
    st.env = dict(env)
    eng.sinks.append([])
    try:
        outs = eng.exec_block(fn.body, st)
    except Unsupported as e:
        return ('?', str(e))
    raised = eng.sinks.pop()
    outs = [o for o in list(outs) + raised if eng.feasible(o.st)]
    if len(outs) != 1:
        return ('?', '%d feasible outcomes' % len(outs))
    o = outs[0]
    if o.kind == 'raise':
        return ('e', o.exc.clsname or '?')
    if o.kind != 'return':
        return ('v', None)
    return ('v', concrete(o.value, o.st))


def concrete(v, st):
    if isinstance(v, (IntV, RealV, BoolV)):
        s = z3.Solver()
        s.add(*st.pc)
        assert s.check() == z3.sat
        m = s.model()
        t = m.eval(v.t, model_completion=True)
        if isinstance(v, BoolV):
            return z3.is_true(t)
        if isinstance(v, RealV):
            t = z3.simplify(t)
            return float(t.numerator_as_long()) / float(t.denominator_as_long())
        return t.as_long()
    if isinstance(v, TupleV):
        r = [concrete(x, st) for x in v.items]
        return r if v.is_list else tuple(r)
    if isinstance(v, NoneV):
        return None
    if isinstance(v, SymSeqV):
        s = z3.Solver()
        s.add(*st.pc)
        s.check()
        n = s.model().eval(v.length, model_completion=True).as_long()
        r = [concrete(v.at(z3.IntVal(i)), st) for i in range(n)]
        return r if v.pytype == 'list' else tuple(r)
    raise Unsupported('cannot concretise %r' % (v,))


def py(code, env):
    names = sorted(env)
    src = 'def _f(%s):\n' % ', '.join(names) + '\n'.join('    ' + l for l in code.splitlines())
    g = {'np': np}
    exec(src, g)
    with warnings.catch_warnings():
        warnings.simplefilter('ignore')
        try:
            r = g['_f'](*[env[n] for n in names])
        except Exception as e:      # noqa
            return ('e', type(e).__name__)
    if isinstance(r, (np.integer,)):
        r = int(r)
    if isinstance(r, np.bool_):
        r = bool(r)
    return ('v', r)


def sym(v):
    if isinstance(v, bool):
        return BoolV(v)
    if isinstance(v, np.integer):
        info = np.iinfo(type(v))
        return NpIntV(z3.IntVal(int(v)), int(info.min), int(info.max), 'np.' + type(v).__name__)
    if isinstance(v, int):
        return IntV(v)
    if isinstance(v, tuple):
        return TupleV([sym(x) for x in v])
    if isinstance(v, list):
        return TupleV([sym(x) for x in v], True)
    raise TypeError(v)


INT_EXPRS = ['return a + b', 'return a - b', 'return a * b', 'return a // b', 'return a % b', 'return a / b', 'return -a',
             'return a < b', 'return a <= b <= 3', 'return a == b or a > 2', 'return a != b and b', 'return not a',
             'return a if a > b else b', 'return int(a / b)', 'return min(a, b)', 'return max(a, b, 1)', 'return len(range(a))',
             'return len(range(a, b))', 'x = a\nx += b\nx -= 1\nreturn x', 'if a < 0:\n    a = a + 5\n    if a < 0:\n        raise IndexError(a)\nreturn a',
             'return (a, b)[a > b]', 'return (a + 1) / (b + 10)', 'return int((a + 0.5) / 2)' if False else 'return a * 2 - b // 2',
             'return tuple([a, b, a + b])[1:]', 'return [a, b, 7][:-1]', 'return (a, b, 3, 4)[a % 4]', 'try:\n    return a // b\nexcept ZeroDivisionError:\n    return -99',
             'for i in range(3):\n    a += i\nreturn a' if False else 'return a - (-b)']
NP_EXPRS = ['return x + k', 'return x - k', 'return x * k', 'return k + x', 'return x - 1', 'return -x', 'return x < k', 'return int(x) * k',
            'return x % k', 'return x // k', 'if x < 0:\n    x = x + k\nreturn int(x)']


def main():
    bad = 0
    cases = 0
    skipped = {}
    vals = (-7, -3, -1, 0, 1, 2, 5)
    for code in INT_EXPRS:
        for a, b in itertools.product(vals, vals):
            env = {'a': a, 'b': b}
            exp = py(code, env)
            got = run(code, {k: sym(v) for k, v in env.items()})
            cases += 1
            if got[0] == '?':
                skipped[got[1][:60]] = skipped.get(got[1][:60], 0) + 1
                continue
            ok = got == exp or (got[0] == exp[0] == 'v' and isinstance(exp[1], float) and abs(got[1] - exp[1]) < 1e-9) \
                or (got[0] == exp[0] == 'v' and got[1] == exp[1])
            if not ok:
                bad += 1
                print('MISMATCH', repr(code), env, 'engine', got, 'python', exp)
    for code in NP_EXPRS:
        for dt in (np.int8, np.uint8):
            for x in (-128, -100, -1, 0, 1, 63, 64, 100, 127, 128, 200, 255):
                try:
                    xv = dt(x)
                except OverflowError:
                    continue
                for k in (-300, -129, -2, 0, 1, 2, 4, 127, 128, 256, 300):
                    env = {'x': xv, 'k': k}
                    exp = py(code, env)
                    got = run(code, {n: sym(v) for n, v in env.items()})
                    cases += 1
                    if got[0] == '?':
                        skipped[got[1][:60]] = skipped.get(got[1][:60], 0) + 1
                        continue
                    if got != exp and not (code.endswith('// k') or code.endswith('% k')) or \
                            ((code.endswith('// k') or code.endswith('% k')) and k != 0 and got != exp):
                        bad += 1
                        print('MISMATCH', repr(code), dt.__name__, x, k, 'engine', got, 'python', exp)
    print('engine self-test: %d cases, %d mismatches, %d not executable by the engine %r' % (cases, bad, sum(skipped.values()), skipped))
    sys.exit(1 if bad else 0)


if __name__ == '__main__':
    main()
