#!/bin/bash
# usage: mutrun.sh '<python expr transforming source text s of core.py>' <cli args...>
# copies /repo/lazy_dataset to a scratch dir, applies the edit, runs pyvc.cli against it, removes the copy
set -e
D=$(mktemp -d /tmp/pyvc_mut.XXXXXX)
trap 'rm -rf "$D"' EXIT
mkdir -p "$D/lazy_dataset"
cp /repo/lazy_dataset/*.py "$D/lazy_dataset/"
EDIT="$1"; shift
python3 - "$D" "$EDIT" <<'PY'
import sys
d,edit=sys.argv[1],sys.argv[2]
for f in ['core','parallel_utils','database']:
    p=f'{d}/lazy_dataset/{f}.py'
    s=open(p).read()
    s2=eval(edit,{'s':s,'f':f})
    if s2!=s: print('edited',f)
    open(p,'w').write(s2)
PY
cd /verif && python3-vt -m pyvc.cli --repo "$D" "$@"
