#!/usr/bin/env python3
"""Seed x property matrix on scratch copies (never touches /repo or /verif/evidence): for every
seeded change, every registered quick check.  Output: /verif/seeded/MATRIX.json"""
import json, os, shutil, subprocess, sys, tempfile, time

SEEDED = '/verif/seeded'


def main():
    props = [c['property_id'] for c in json.load(open('/verif/MANIFEST.json'))['checks']]
    names = sys.argv[1:] or sorted(n for n in os.listdir(SEEDED) if os.path.isdir(os.path.join(SEEDED, n)))
    out_path = SEEDED + '/MATRIX.json'
    matrix = json.load(open(out_path)) if os.path.exists(out_path) else {}
    for name in names:
        d = os.path.join(SEEDED, name)
        tmp = tempfile.mkdtemp(prefix='pyvc_matrix_')
        try:
            shutil.copytree('/repo/lazy_dataset', tmp + '/lazy_dataset')
            r = subprocess.run('cd %s && patch -p1 -s < %s/patch.diff' % (tmp, d), shell=True, capture_output=True, text=True)
            if r.returncode != 0:
                matrix[name] = {'error': 'patch does not apply'}
                continue
            row = {}
            for p in props:
                env = dict(os.environ, PYVC_REPO=tmp, PYVC_OUT=tmp + '/out')
                t0 = time.time()
                try:
                    c = subprocess.run(['./check', p, '--tier', 'quick', '--repo', tmp], cwd='/verif', env=env,
                                       capture_output=True, text=True, timeout=1800)
                    row[p] = c.returncode
                except subprocess.TimeoutExpired:
                    row[p] = 'timeout'
            matrix[name] = row
            print(name, ' '.join('%s=%s' % (k, v) for k, v in row.items() if v != 0), flush=True)
            json.dump(matrix, open(out_path, 'w'), indent=1)
        finally:
            shutil.rmtree(tmp, ignore_errors=True)


if __name__ == '__main__':
    main()
