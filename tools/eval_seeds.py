#!/usr/bin/env python3
"""Run the registered quick check of a seed's property against each seeded change: apply the patch to
/repo (git apply), run ./check <prop>, undo (git checkout -- .).  Writes detection results into
seeded/<name>/meta.json and prints a table.  usage: eval_seeds.py [names...]"""
import json, os, subprocess, sys, time

SEEDED = '/verif/seeded'


def sh(cmd, **kw):
    return subprocess.run(cmd, shell=True, capture_output=True, text=True, **kw)


def main():
    names = sys.argv[1:] or sorted(n for n in os.listdir(SEEDED) if os.path.isdir(os.path.join(SEEDED, n)))
    assert sh('git -C /repo status --porcelain').stdout.strip() == '', 'repo not clean'
    for name in names:
        d = os.path.join(SEEDED, name)
        meta = json.load(open(d + '/meta.json'))
        prop = meta.get('breaks_property') or name.split('-')[0]
        if sh('git -C /repo apply --check %s/patch.diff' % d).returncode != 0:
            print('%-7s patch does not apply' % name, flush=True)
            continue
        sh('git -C /repo apply %s/patch.diff' % d)
        t0 = time.time()
        try:
            r = sh('cd /verif && ./check %s --tier quick' % prop, timeout=1800)
            out, rc = r.stdout, r.returncode
        except subprocess.TimeoutExpired:
            out, rc = 'TIMEOUT', -1
        finally:
            sh('git -C /repo checkout -- . && git -C /repo clean -fdq lazy_dataset')
        lines = [l for l in out.splitlines() if l.startswith(('VIOLATION', 'UNDECIDED', 'CHECKER-FAULT'))]
        meta['detection'] = {'check': './check %s --tier quick' % prop, 'exit': rc, 'seconds': round(time.time() - t0, 1),
                             'lines': lines[:6], 'detected': rc == 1}
        json.dump(meta, open(d + '/meta.json', 'w'), indent=1)
        print('%-7s exit=%s %5.1fs %s' % (name, rc, time.time() - t0, (lines[0][:150] if lines else '')), flush=True)
    assert sh('git -C /repo status --porcelain').stdout.strip() == ''


if __name__ == '__main__':
    main()
