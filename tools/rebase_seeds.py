#!/usr/bin/env python3
"""Re-express seeded patches that no longer apply to the repaired tree (same semantic change)."""
import subprocess, shutil, os, json
WT = '/tmp/rebase'


def reset():
    subprocess.run(['git', '-C', WT, 'checkout', '-q', '--', '.'], check=True)


def edit(path, old, new):
    p = os.path.join(WT, path)
    s = open(p).read()
    assert s.count(old) == 1, (path, old[:60], s.count(old))
    open(p, 'w').write(s.replace(old, new))


def save(name, note):
    d = '/verif/seeded/' + name
    if not os.path.exists(d + '/patch_orig.diff'):
        shutil.copy(d + '/patch.diff', d + '/patch_orig.diff')
    diff = subprocess.run(['git', '-C', WT, 'diff'], capture_output=True, text=True).stdout
    open(d + '/patch.diff', 'w').write(diff)
    m = json.load(open(d + '/meta.json'))
    m['rebased'] = note
    m['confirmed'] = None
    json.dump(m, open(d + '/meta.json', 'w'), indent=1)
    reset()


NEG = '''            if item < 0:
                # ds[-1] and ds[len(ds) - 1] are the same example and have to
                # share one cache entry.
                if item < -len(self):
                    raise IndexError(item)
                item = item + len(self)
'''
for n in ('C01-A', 'C16-A'):
    edit('lazy_dataset/core.py', NEG, '''            # Normalize the index so that e.g. ds[-1] and ds[len(ds) - 1]
            # share one cache entry instead of caching the example twice.
            item = item % len(self)
''')
    save(n, 'rebased onto the repaired tree (fix commits moved the surrounding lines): same change, the index normalisation uses item % len(self)')
edit('lazy_dataset/core.py', NEG + '''            try:
                return self._cache[item]
            except KeyError:
                value = self.input_dataset[item]
                if self.check():
                    self._cache[item] = value
                return value''', '''            # Normalize the index, so that e.g. `ds[-1]` and `ds[len(ds) - 1]`
            # share one cache entry instead of storing the example twice.
            key = item % (len(self) or 1)
            try:
                return self._cache[key]
            except KeyError:
                value = self.input_dataset[item]
                if self.check():
                    self._cache[key] = value
                return value''')
save('C02-B', 'rebased onto the repaired tree: same change (cache key item % len, raw index to the input)')
edit('lazy_dataset/core.py', '''            try:
                index = self.keys().index(item)
            except ValueError:
                raise KeyErrorCloseMatches(item, self.keys()) from None
            return item, self.input_dataset[index]''', '''            # Every dataset that has keys supports the lookup by key, no need
            # to search for the index of the key first.
            return item, self.input_dataset[item]''')
save('C03-B', 'rebased onto the repaired tree: same change (ItemsDataset[str] forwards the key to the input)')
edit('lazy_dataset/core.py', '''        if isinstance(item, str):
            try:
                item = self.keys().index(item)
            except ValueError:
                raise KeyErrorCloseMatches(item, self.keys()) from None

        if isinstance(item, numbers.Integral):
''' + NEG, '''        if isinstance(item, (str, numbers.Integral)):
            # The input dataset resolves str keys itself, so there is no need
            # for the O(n) `keys().index(item)` lookup on every access.
            if not isinstance(item, str) and item < 0:
                if item < -len(self):
                    raise IndexError(item)
                item = item + len(self)
''')
save('C10-A', 'rebased onto the repaired tree: same change (str keys are no longer mapped to their index before the cache lookup)')
edit('lazy_dataset/core.py', '''            sort_order = [
                index
                for _, index in sort_fn(
                    zip(sort_values, itertools.count()),
                    reverse=reverse,
                )
            ]''', '''            # Hand the plain sort values to `sort_fn` (as documented) and map
            # the sorted values back to their position in the dataset.
            index_of = {value: i for i, value in enumerate(sort_values)}
            sort_order = [
                index_of[value]
                for value in sort_fn(sort_values, reverse=reverse)
            ]''')
save('C18-A', 'rebased onto the repaired tree (context line changed by the sort fix): same change')
edit('lazy_dataset/database.py', '''    result = dict(database_dicts[0])
    result['datasets'] = dict(result['datasets'])
    result['alias'] = dict(result.get('alias', {}))''', '''    result = dict(database_dicts[0])
    result['datasets'] = dict(result['datasets'])
    # The first database may come without an alias entry.
    result.setdefault('alias', {})''')
save('C19-B', 'rebased onto the repaired tree: same defect (setdefault keeps the alias dict of the caller, later aliases are written into it)')
edit('lazy_dataset/core.py', '''            start = self.timestamp()
            self.hit_count[0] += 1
            try:
                x = next(it)
            except StopIteration:
                self.hit_count[0] -= 1
                return
            except Exception:
                self.hit_count[1] += 1
                raise
            finally:''', '''            start = self.timestamp()
            try:
                x = next(it)
            except StopIteration:
                return
            except Exception:
                self.hit_count[1] += 1
                raise
            else:
                # Count the hit only when there was one, instead of undoing
                # the increment when the input is exhausted.
                self.hit_count[0] += 1
            finally:''')
save('C20-A', 'rebased onto the repaired tree (context line changed by the with_key fix): same change')
