#!/bin/bash
# run every registered quick check on the current /repo tree, print one line each
cd /verif
for p in $(python3 -c "import json;print(' '.join(c['property_id'] for c in json.load(open('MANIFEST.json'))['checks']))"); do
  out=$(./check $p --tier quick 2>&1); rc=$?
  echo "$p exit=$rc $(echo "$out" | tail -1)"
  echo "$out" | grep -E "^(VIOLATION|UNDECIDED|CHECKER-FAULT)" | head -3
done
