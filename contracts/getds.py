"""C19, the request half: Database._get_dataset / get_dataset.
  * name is None, a dict, or not iterable          -> TypeError (nothing is built, the memo is untouched)
  * a str that is memoised and alive               -> that very dataset; get_examples / from_dict are NOT called
  * a str that is not memoised                     -> from_dict(get_examples(name), name=name), a new dataset, which is
                                                      stored in the memo under that name (and nothing else changes)
  * a list / tuple of names                        -> concatenate(*[_get_dataset(n) for n in names]) in the given order;
                                                      the first failing member's exception propagates
Modular: get_examples (contracts/database.py), from_dict (contracts/cache.py) and concatenate (contracts/factories.py)
are used through their results only; the recursive call for a member is the abstract function GD(n).
Assumed: weakref.WeakValueDictionary behaves as a dict over the entries that are still alive (an entry can vanish
between two requests -- modelled by an arbitrary memo at entry -- but not inside one request while `ds` is referenced)."""
import z3

from pyvc import smt
from pyvc.smt import I
from pyvc.values import *          # noqa
from pyvc.engine import SymDictV
from pyvc.contract import *        # noqa

GD = z3.Function('GET_DATASET', smt.Key, smt.DS)             # what the recursive request for one name returns
GD_R = z3.Function('GET_DATASET_RAISES', smt.Key, smt.Bool)
GD_E = z3.Function('GET_DATASET_EXC', smt.Key, smt.Exc)
GE_R = z3.Function('GET_EXAMPLES_RAISES', smt.Key, smt.Bool)
GE_E = z3.Function('GET_EXAMPLES_EXC', smt.Key, smt.Exc)


class WeakDictV(Val):
    kind = 'weakvaluedict'

    def __init__(self, oid):
        self.oid = oid


class ExamplesV(Val):
    """the dict get_examples(name) returned"""
    kind = 'examples-of'

    def __init__(self, name):
        self.name = name


def _fields(self, eng, st):
    oid = eng.new_oid()
    DOM = z3.Function('MEMO_DOM!%d' % oid, smt.Key, smt.Bool)
    STO = z3.Function('MEMO_STO!%d' % oid, smt.Key, smt.DS)
    st.heap[oid] = {'dom': (lambda k: DOM(k)), 'sto': (lambda k: STO(k))}
    return {'_dataset_weak_ref_dict': WeakDictV(oid)}


def _log(st, ev):
    st.ghost['db_calls'] = st.ghost.get('db_calls', ()) + (ev,)


def _hooks():
    def subscript_hook(eng, st, recv, idx, node):
        if isinstance(recv, WeakDictV) and isinstance(idx, KeyV):
            cell = st.heap[recv.oid]
            res = []
            for s2, side in eng.branch(st, cell['dom'](idx.t)):
                if side:
                    res.append((s2, DSRefV(cell['sto'](idx.t))))
                else:
                    eng.raise_(s2, eng.new_exc(s2, 'KeyError'))
            return res
        return None

    def store_subscript(eng, st, recv, idx, v, node):
        if isinstance(recv, WeakDictV) and isinstance(idx, KeyV) and isinstance(v, DSRefV):
            cell = st.heap[recv.oid]
            d0, s0, kt, vt = cell['dom'], cell['sto'], idx.t, v.t
            st.heap[recv.oid] = {'dom': lambda k: z3.If(k == kt, smt.T, d0(k)), 'sto': lambda k: z3.If(k == kt, vt, s0(k))}
            _log(st, ('memo-store', kt, vt))
            return [st]
        return None

    def resolve_call(eng, st, f, args, kwargs, node):
        if isinstance(f, BoundV) and isinstance(f.recv, InstV) and f.recv.oid == eng.self_oid:
            if f.name == 'get_examples' and len(args) == 1 and isinstance(args[0], KeyV):
                k = args[0].t
                _log(st, ('get_examples', k))
                res = []
                for s2, side in eng.branch(st, GE_R(k)):
                    if side:
                        eng.raise_(s2, ExcV(GE_E(k), None))
                    else:
                        res.append((s2, ExamplesV(k)))
                return res
            if f.name == '_get_dataset' and len(args) == 1 and isinstance(args[0], KeyV) and getattr(eng, '_gd_depth', 0) > 0:
                k = args[0].t
                _log(st, ('member', k))
                res = []
                for s2, side in eng.branch(st, GD_R(k)):
                    if side:
                        eng.raise_(s2, ExcV(GD_E(k), None))
                    else:
                        res.append((s2, DSRefV(GD(k))))
                return res
        return None

    def builtin_hook(eng, st, name, args, kwargs, node):
        if name == 'lazy_dataset.from_dict' and len(args) == 1 and isinstance(args[0], ExamplesV):
            nm = kwargs.get('name')
            d = smt.fresh('from_dict_result', smt.DS)
            _log(st, ('from_dict', args[0].name, nm.t if isinstance(nm, KeyV) else None, d, set(kwargs)))
            return [(st, DSRefV(d))]
        if name == 'lazy_dataset.concatenate' and len(args) == 1 and isinstance(args[0], tuple) and args[0][0] == '*':
            return [(st, StageV('concatenate', [args[0][1]], {}))]
        return None
    return dict(subscript_hook=subscript_hook, store_subscript=store_subscript, resolve_call=resolve_call, builtin_hook=builtin_hook)


def _memo(S, which):
    eng = S.eng
    heap = S.st.heap if which == 'now' else eng.entry_heap
    return heap[heap[eng.self_oid]['_dataset_weak_ref_dict'].oid]


def _memo_unchanged(S):
    g = z3.Const('g_any_name', smt.Key)
    a, b = _memo(S, 'old'), _memo(S, 'now')
    return z3.And(a['dom'](g) == b['dom'](g), a['sto'](g) == b['sto'](g))


def _calls(S, kind):
    return [e for e in S.st.ghost.get('db_calls', ()) if e[0] == kind]


def _rejects(S, o):
    return [('C19:an-unusable-request-is-rejected-with-TypeError',
             exc_is(o.exc, S.eng.hier, 'TypeError') if o.kind == 'raise' else smt.F),
            ('C19:a-rejected-request-builds-nothing-and-leaves-the-memo-alone',
             z3.And(z3.BoolVal(not S.st.ghost.get('db_calls')), _memo_unchanged(S)))]


def _str_post(S, o):
    k = S.old.name
    m0, m1 = _memo(S, 'old'), _memo(S, 'now')
    ge, fd, stores = _calls(S, 'get_examples'), _calls(S, 'from_dict'), _calls(S, 'memo-store')
    g = z3.Const('g_any_name', smt.Key)
    if o.kind == 'raise':
        # only get_examples can fail (unknown name, overlapping ids ...): its exception, nothing memoised
        return [('C19:a-failing-request-fails-with-the-exception-of-get_examples',
                 z3.And(z3.Not(m0['dom'](k)), GE_R(k), o.exc.t == GE_E(k))),
                ('C19:a-failing-request-memoises-nothing', z3.And(z3.BoolVal(not stores), _memo_unchanged(S)))]
    v = o.value
    if not isinstance(v, DSRefV):
        return [('C19:get_dataset-returns-a-dataset', smt.F)]
    hit = m0['dom'](k)
    out = [('C19:a-repeated-request-is-served-from-the-shared-dataset-while-it-is-alive',
            z3.Implies(hit, z3.And(v.t == m0['sto'](k), z3.BoolVal(not ge and not fd and not stores)))),
           ('C19:frame:no-other-memo-entry-changes',
            z3.Implies(g != k, z3.And(m1['dom'](g) == m0['dom'](g), m1['sto'](g) == m0['sto'](g))))]
    if fd:
        e = fd[0]
        out += [('C19:a-new-dataset-is-from_dict(get_examples(name),name=name)',
                 z3.And(z3.BoolVal(len(fd) == 1 and len(ge) == 1 and e[4] == {'name'}), e[1] == k, ge[0][1] == k,
                        e[2] == k if e[2] is not None else smt.F, v.t == e[3])),
                ('C19:a-new-dataset-is-memoised-under-its-name', z3.And(m1['dom'](k), m1['sto'](k) == v.t)),
                ('C19:a-new-dataset-is-built-only-on-a-miss', z3.Not(hit))]
    else:
        out += [('C19:without-building-the-request-must-be-a-hit', hit)]
    return out


def _list_post(S, o):
    names = S.eng.entry_env['name']
    n = names.length
    j = smt.fresh('j', smt.Int)
    inr = z3.And(j >= 0, j < n)
    if o.kind == 'raise':
        return [('C19:a-list-request-fails-only-with-a-member-exception',
                 z3.Exists([j], z3.And(inr, GD_R(names.at(j).t), o.exc.t == GD_E(names.at(j).t))))]
    v = o.value
    if not (isinstance(v, StageV) and v.cls == 'concatenate' and isinstance(v.args[0], SymSeqV)):
        return [('C19:a-list-of-names-yields-the-concatenation-of-its-members', smt.F)]
    seq = v.args[0]
    el = seq.at(j)
    return [('C19:a-list-of-names-yields-the-concatenation-of-its-members',
             z3.And(seq.length == n, z3.Implies(inr, z3.And(z3.BoolVal(isinstance(el, DSRefV)),
                                                            el.t == GD(names.at(j).t) if isinstance(el, DSRefV) else smt.F,
                                                            z3.Not(GD_R(names.at(j).t))))))]


def _names(pytype):
    def mk(eng, st):
        n = smt.fresh('n_names', smt.Int)
        st.pc.append(n >= 0)
        NM = z3.Function('NAME!%d' % next(smt._counter), smt.Int, smt.Key)
        eng._gd_depth = 1
        return SymSeqV(n, lambda e: KeyV(NM(e)), pytype)
    return mk


class GetDatasetC(ClassContract):
    cls = 'Database'
    mod = 'database'
    fields = _fields

    def view(self, eng, st):
        return None
    methods = {
        '_get_dataset': [
            Variant('None', params={'name': 'none'}, post=_rejects, hooks=_hooks(), props=('C19',)),
            Variant('dict', params={'name': (lambda e, s: SymDictV('names'))}, post=_rejects, hooks=_hooks(), props=('C19',)),
            Variant('int', params={'name': 'int'}, post=_rejects, hooks=_hooks(), props=('C19',)),
            Variant('str', params={'name': 'key'}, post=_str_post, hooks=_hooks(), props=('C19',)),
            Variant('list-of-names', params={'name': _names('list')}, post=_list_post, hooks=_hooks(), props=('C19',)),
            Variant('tuple-of-names', params={'name': _names('tuple')}, post=_list_post, hooks=_hooks(), props=('C19',)),
        ],
    }


CONTRACTS = [GetDatasetC()]
