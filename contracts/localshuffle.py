"""C12 for the buffer-local shuffle: LocalShuffleDataset.__iter__ emits every input example exactly once and never
more than buffer_size - 1 positions before its source position -- for every dataset length, buffer size and every
outcome of the random draws.

Model.  `buffer` is a python list of examples; it is carried as (L, AT) where AT(t) is the SOURCE POSITION of the
example in slot t (the example itself is then input[AT(t)], resp. (key, example) with_key):
    buffer.append(e)      e = the example at source position k            -> AT(L) = k, L + 1
    buffer.pop(r)         0 <= r < L (IndexError otherwise)               -> slots above r move down
    rng.choice(b)         some 0 <= r < b                    (assumed)
    rng.shuffle(buffer)   some bijection SIGMA of the slots  (assumed)    -> AT o SIGMA
Ghost: OUTSRC[o] = source position of the o-th emitted example, LOC[s] = output position of source position s (-1 while
it is buffered or not yet consumed).  Invariant of the consuming loop at index k:
    out_n + L = k, L < b;   emitted: 0 <= OUTSRC[o] < k, LOC[OUTSRC[o]] = o (so OUTSRC is injective),
    OUTSRC[o] - o <= b - 1;   buffered: slots hold increasing source positions < k that are not emitted (LOC = -1).
After the flush every one of the n outputs has a distinct source in [0, n) and out_n = n: an injective map of
[0, n) into itself is a bijection (finite pigeonhole -- the one meta-step), i.e. every example exactly once."""
import z3

from pyvc import smt
from pyvc.smt import I
from pyvc.values import *          # noqa
from pyvc.engine import RngV
from pyvc.contract import *        # noqa
from pyvc.views import AbsView, Out
from contracts.stages2 import F
from contracts.shuffle import _ls_fields, rng_hooks

IntArr = z3.ArraySort(smt.Int, smt.Int)


class BufV(Val):
    kind = 'position-buffer'

    def __init__(self, oid):
        self.oid = oid


def _src_of(value):
    """source position of an example value VAL(d, p) / (KEY(d, p), VAL(d, p))"""
    v = value.items[1] if isinstance(value, TupleV) and len(value.items) == 2 else value
    if isinstance(v, ObjV):
        t = v.t
        if z3.is_app(t) and t.decl().eq(smt.VAL):
            return t.arg(0), t.arg(1)
    return None, None


def _hooks(with_key):
    h = rng_hooks()
    rng0 = h['rng_method']
    b0 = h['builtin_hook']

    def mk_val(d, p):
        v = AbsView(d)
        return TupleV([KeyV(v.key(p)), v.val(p)]) if with_key else v.val(p)

    def list_hook(eng, st, x):
        if x is None:
            oid = eng.new_oid()
            st.heap[oid] = {'L': I(0), 'at': (lambda t: I(-1))}
            return [(st, BufV(oid))]
        return None

    def any_getattr(eng, st, recv, attr):
        if isinstance(recv, BufV) and attr in ('append', 'pop'):
            return [(st, BoundV(recv, attr))]
        return None

    def any_method(eng, st, recv, name, args, kwargs):
        if not isinstance(recv, BufV):
            return None
        cell = st.heap[recv.oid]
        L, at = cell['L'], cell['at']
        d = st.heap[eng.self_oid]['input_dataset'].t
        if name == 'append' and len(args) == 1:
            dd, p = _src_of(args[0])
            if p is None or not dd.eq(d):
                raise Unsupported('buffer.append of a value that is not an input example')
            st.heap[recv.oid] = {'L': L + 1, 'at': (lambda t, at=at, L=L, p=p: z3.If(t == L, p, at(t)))}
            return [(st, NONE)]
        if name == 'pop' and len(args) == 1 and isinstance(args[0], IntV):
            r = args[0].t
            res = []
            for s2, ok in eng.branch(st, z3.And(r >= -L, r < L)):
                if not ok:
                    eng.raise_(s2, eng.new_exc(s2, 'IndexError'))
                    continue
                rr = z3.If(r < 0, r + L, r)
                s2.heap[recv.oid] = {'L': L - 1, 'at': (lambda t, at=at, rr=rr: z3.If(t < rr, at(t), at(t + 1)))}
                res.append((s2, mk_val(d, at(rr))))
            return res
        return None

    def len_hook(eng, st, x):
        if isinstance(x, BufV):
            return [(st, IntV(st.heap[x.oid]['L']))]
        return None

    def rng_method(eng, st, recv, name, args, kwargs):
        if name == 'shuffle' and len(args) == 1 and isinstance(args[0], BufV):
            cell = st.heap[args[0].oid]
            L, at = cell['L'], cell['at']
            c = next(smt._counter)
            SIG = z3.Function('SIGMA!%d' % c, smt.Int, smt.Int)
            ISIG = z3.Function('ISIGMA!%d' % c, smt.Int, smt.Int)
            i = z3.Int('_si')
            st.pc.append(z3.ForAll([i], z3.Implies(z3.And(i >= 0, i < L), z3.And(SIG(i) >= 0, SIG(i) < L, ISIG(SIG(i)) == i)),
                                   patterns=[SIG(i)]))
            st.pc.append(z3.ForAll([i], z3.Implies(z3.And(i >= 0, i < L), z3.And(ISIG(i) >= 0, ISIG(i) < L, SIG(ISIG(i)) == i)),
                                   patterns=[ISIG(i)]))
            st.heap[args[0].oid] = {'L': L, 'at': (lambda t, at=at, SIG=SIG: at(SIG(t)))}
            st.ghost['draws'] = st.ghost.get('draws', ()) + (('shuffle-list', recv, None),)
            return [(st, NONE)]
        return rng0(eng, st, recv, name, args, kwargs)

    def iter_obj_descr(eng, st, it):
        if isinstance(it, BufV):
            cell = st.heap[it.oid]
            d = st.heap[eng.self_oid]['input_dataset'].t
            return cell['L'], (lambda t, cell=cell, d=d: [Out(smt.T, value=mk_val(d, cell['at'](t)))])
        return None

    def havoc_value(eng, st, name, v):
        if isinstance(v, BufV):
            c = next(smt._counter)
            AT = z3.Function('BUF_AT!%d' % c, smt.Int, smt.Int)
            st.heap[v.oid] = {'L': smt.fresh('buf_len', smt.Int), 'at': (lambda t, AT=AT: AT(t))}
            return v
        return None

    def havoc_heap(eng, st, ordinal, names, mutated):
        # the buffer is mutated through method calls only (append / pop): havoc it in every loop that mentions it
        for nme, v in st.env.items():
            if isinstance(v, BufV) and ordinal == '0':
                havoc_value(eng, st, nme, v)
    h.update(list_hook=list_hook, any_getattr=any_getattr, any_method=any_method, len_hook=len_hook,
             rng_method=rng_method, iter_obj_descr=iter_obj_descr, havoc_value=havoc_value, havoc_heap=havoc_heap)
    return h


def _setup(eng, st):
    st.ghost['OUTSRC'] = z3.K(smt.Int, I(-1))
    st.ghost['LOC'] = z3.K(smt.Int, I(-1))


def _buf(S):
    for v in S.st.env.values():
        if isinstance(v, BufV):
            return S.st.heap[v.oid]
    return None


def _variant(with_key):
    def on_yield(S, value):
        fl = F(S)
        d = fl['input_dataset'].t
        dd, p = _src_of(value)
        if p is None:
            return [('C12:local-shuffle-emits-input-examples', smt.F)]
        S.st.ghost['last_src'] = IntV(p)
        v = AbsView(d)
        exp = TupleV([KeyV(v.key(p)), v.val(p)]) if with_key else v.val(p)
        b = fl['buffer_size'].t
        return [('C12:local-shuffle-emits-an-input-example-with-its-own-key' if with_key else 'C12:local-shuffle-emits-an-input-example',
                 z3.And(z3.BoolVal(dd.eq(d)), eqv(value, exp))),
                ('C12:the-emitted-example-has-not-been-emitted-before', z3.Select(S.st.ghost['LOC'], p) == -1),
                ('C12:never-more-than-buffer_size-1-positions-early', p - S.out_n <= b - 1)]

    def after_yield(eng, st):
        p = st.ghost['last_src'].t
        o = st.out_n - 1
        st.ghost['OUTSRC'] = z3.Store(st.ghost['OUTSRC'], o, p)
        st.ghost['LOC'] = z3.Store(st.ghost['LOC'], p, o)
        return st

    def emitted(S, bound, proving):
        OS, LOC = S.st.ghost['OUTSRC'], S.st.ghost['LOC']
        b = F(S)['buffer_size'].t
        o = smt.fresh('o_any', smt.Int) if proving else z3.Int('_lo')
        body = z3.Implies(z3.And(o >= 0, o < S.out_n),
                          z3.And(OS[o] >= 0, OS[o] < bound, LOC[OS[o]] == o, OS[o] - o <= b - 1))
        return body if proving else z3.ForAll([o], body, patterns=[OS[o]])

    def inv_main(S):
        buf = _buf(S)
        b = F(S)['buffer_size'].t
        L, at = buf['L'], buf['at']
        LOC = S.st.ghost['LOC']
        t = smt.fresh('t_any', smt.Int) if S.proving else z3.Int('_lt')
        t2 = smt.fresh('t2_any', smt.Int) if S.proving else z3.Int('_lt2')
        slots = z3.Implies(z3.And(t >= 0, t < L), z3.And(at(t) >= 0, at(t) < S.k, LOC[at(t)] == -1))
        # the buffer holds its examples in source order (appended in order, pop keeps the order): pairwise, so that
        # no transitivity argument is needed
        order = z3.Implies(z3.And(t >= 0, t < t2, t2 < L), at(t) < at(t2))
        s_ = smt.fresh('s_any', smt.Int) if S.proving else z3.Int('_ls')
        unconsumed = z3.Implies(s_ >= S.k, LOC[s_] == -1)        # a position not yet consumed has not been emitted
        if not S.proving:
            slots = z3.ForAll([t], slots, patterns=[at(t)])
            order = z3.ForAll([t, t2], order, patterns=[z3.MultiPattern(at(t), at(t2))])
            unconsumed = z3.ForAll([s_], unconsumed, patterns=[LOC[s_]])
        return [('count', z3.And(S.out_n + L == S.k, L >= 0, L < b)), ('emitted', emitted(S, S.k, S.proving)),
                ('slots', slots), ('source-order', order), ('unconsumed', unconsumed)]

    def inv_flush(S):
        # j-th element of the shuffled rest: the not yet emitted slots are distinct, unemitted sources
        buf = _buf(S)
        L, at = buf['L'], buf['at']
        d = AbsView(F(S)['input_dataset'].t)
        n = d.n()
        LOC = S.st.ghost['LOC']
        b = F(S)['buffer_size'].t
        e = S.entry
        t = smt.fresh('t_any', smt.Int) if S.proving else z3.Int('_lt')
        t2 = smt.fresh('t2_any', smt.Int) if S.proving else z3.Int('_lt2')
        rest = z3.Implies(z3.And(t >= S.k, t < L), z3.And(at(t) >= 0, at(t) < n, LOC[at(t)] == -1))
        dist = z3.Implies(z3.And(t >= 0, t < t2, t2 < L), at(t) != at(t2))
        if not S.proving:
            rest = z3.ForAll([t], rest, patterns=[at(t)])
            dist = z3.ForAll([t, t2], dist, patterns=[z3.MultiPattern(at(t), at(t2))])
        return [('count', z3.And(S.out_n == e.out_n + S.k, e.out_n + L == n, L < b, L >= 0)), ('emitted', emitted(S, n, S.proving)),
                ('rest', rest), ('distinct', dist)]

    def post(S, o):
        fl = F(S)
        d = AbsView(fl['input_dataset'].t)
        n = d.n()
        draws = S.st.ghost.get('draws', ())
        out = [('C13:every-draw-uses-the-stage-own-generator', z3.BoolVal(all(x[1] is fl['rng'] for x in draws)))]
        if o.kind in ('normal', 'return'):
            OS, LOC = S.st.ghost['OUTSRC'], S.st.ghost['LOC']
            oo = smt.fresh('o_any', smt.Int)
            out += [('C12:local-shuffle-yields-exactly-len(input)-examples', S.out_n == n),
                    ('C12:every-output-is-a-distinct-input-position(injective-into-[0,n)=>permutation)',
                     z3.Implies(z3.And(oo >= 0, oo < n), z3.And(OS[oo] >= 0, OS[oo] < n, LOC[OS[oo]] == oo)))]
        elif o.kind == 'raise':
            # an exception of the input propagates at once (the buffered examples are lost with the iteration)
            i = smt.fresh('i_fail', smt.Int)
            out += [('C12:local-shuffle-fails-only-with-an-exception-of-the-input',
                     z3.Exists([i], z3.And(i >= 0, i < n, d.raises(i), o.exc.t == d.exc(i))))]
        return out
    return Variant('permutation,items' if with_key else 'permutation,values',
                   params={'with_key': 'true' if with_key else 'false'}, generator=True, on_yield=on_yield,
                   after_yield=after_yield, post=post, loops={'0': inv_main, '1': inv_flush}, hooks=_hooks(with_key),
                   setup=_setup, props=('C12', 'C13', 'C02'),
                   requires=(lambda S: smt.ITEMS(F(S)['input_dataset'].t)) if with_key else None)


class LocalShufflePermC(ClassContract):
    cls = 'LocalShuffleDataset'
    fields = _ls_fields

    def view(self, eng, st):
        return None
    methods = {'__iter__': [_variant(False), _variant(True)]}


CONTRACTS = [LocalShufflePermC()]
