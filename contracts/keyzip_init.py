"""KeyZipDataset.__init__ establishes the class invariant the method contracts assume (contracts/stages.py):
at least two inputs, every input has keys, and all inputs have the SAME key set -- or the construction is rejected.
Python sets of keys are modelled by their membership predicate over the Key sort:
    set(d.keys())  = { k | KPOS(d, k) >= 0 }           (interface contract I-keys)
    set.union(*S)  = { k | exists j. k in S[j] }
    A - B          = { k | k in A and not k in B }
    len(A) == 0   <=>  A has no member                  (cardinality is otherwise uninterpreted, >= 0)
    set(ints) != {0}  <=>  some element differs from 0  (for a non-empty list of ints)"""
import z3

from pyvc import smt
from pyvc.smt import I
from pyvc.values import *          # noqa
from pyvc.engine import SetV
from pyvc.contract import *        # noqa
from pyvc.views import AX
from contracts import spec
from contracts.effects import evals
from contracts.inits import _inputs

KeySet = z3.DeclareSort('KeySet')
MEM = z3.Function('MEM', KeySet, smt.Key, smt.Bool)
KS_OF = z3.Function('KS_OF', smt.DS, KeySet)
KS_DIFF = z3.Function('KS_DIFF', KeySet, KeySet, KeySet)
CARD = z3.Function('CARD', KeySet, smt.Int)


def set_axioms():
    d = z3.Const('_ksd', smt.DS)
    a, b = z3.Consts('_ksa _ksb', KeySet)
    k = z3.Const('_ksk', smt.Key)
    return [z3.ForAll([d, k], MEM(KS_OF(d), k) == (smt.KPOS(d, k) >= 0), patterns=[MEM(KS_OF(d), k)]),
            z3.ForAll([a, b, k], MEM(KS_DIFF(a, b), k) == z3.And(MEM(a, k), z3.Not(MEM(b, k))), patterns=[MEM(KS_DIFF(a, b), k)]),
            z3.ForAll([a], z3.And(CARD(a) >= 0, (CARD(a) == 0) == z3.ForAll([k], z3.Not(MEM(a, k)))), patterns=[CARD(a)])]


class KeySetV(Val):
    kind = 'keyset'

    def __init__(self, t):
        self.t = t

    def subst(self, var, e):
        return KeySetV(z3.substitute(self.t, (var, e)))


class IntBagV(Val):
    """set(<list of ints>) kept as the list it was built from"""
    kind = 'intset'

    def __init__(self, seq):
        self.seq = seq


class IntLitSetV(Val):
    kind = 'intsetliteral'

    def __init__(self, vals):
        self.vals = vals


def _hooks():
    def builtin_hook(eng, st, name, args, kwargs, node):
        import ast
        if name == 'set' and node is not None and isinstance(node, ast.Set):
            if all(isinstance(e, ast.Constant) and isinstance(e.value, int) for e in node.elts):
                return [(st, IntLitSetV([e.value for e in node.elts]))]
            return None
        if name == 'set' and len(args) == 1:
            x = args[0]
            if isinstance(x, SymSeqV) and hasattr(x, 'keyview') and hasattr(x.keyview, 'd'):
                return [(st, KeySetV(KS_OF(x.keyview.d)))]
            if isinstance(x, SymSeqV) and isinstance(x.at(z3.Int('_q')), IntV):
                return [(st, IntBagV(x))]
        if name == 'set.union' and len(args) == 1 and isinstance(args[0], tuple) and args[0][0] == '*' \
                and isinstance(args[0][1], SymSeqV):
            seq = args[0][1]
            U = smt.fresh('union', KeySet)
            k = z3.Const('_uk', smt.Key)
            j = z3.Int('_uj')
            el = seq.at(j)
            if not isinstance(el, KeySetV):
                return None
            # set.union() of no sets is a TypeError; the caller has asserted len >= 2 before
            st.pc.append(z3.ForAll([k], MEM(U, k) == z3.Exists([j], z3.And(j >= 0, j < seq.length, MEM(el.t, k))),
                                   patterns=[MEM(U, k)]))
            res = []
            for s2, side in eng.branch(st, seq.length >= 1):
                if side:
                    res.append((s2, KeySetV(U)))
                else:
                    eng.raise_(s2, eng.new_exc(s2, 'TypeError'))
            return res
        return None

    def binop_hook(eng, st, op, a, b, node):
        import ast
        if isinstance(op, ast.Sub) and isinstance(a, KeySetV) and isinstance(b, KeySetV):
            return [(st, KeySetV(KS_DIFF(a.t, b.t)))]
        return None

    def len_hook(eng, st, x):
        if isinstance(x, KeySetV):
            return [(st, IntV(CARD(x.t)))]
        return None

    def eq_hook(eng, st, a, b):
        if isinstance(a, IntBagV) and isinstance(b, IntLitSetV) and len(b.vals) == 1:
            seq = a.seq
            j = z3.Int('_ej')
            alleq = z3.ForAll([j], z3.Implies(z3.And(j >= 0, j < seq.length), seq.at(j).t == b.vals[0]))
            return z3.And(seq.length >= 1, alleq)
        return None
    return dict(builtin_hook=builtin_hook, binop_hook=binop_hook, len_hook=len_hook, eq_hook=eq_hook, feas_timeout_ms=250)


def _post(S, o):
    eng = S.eng
    t = eng.entry_env['input_datasets']
    m, ow = t.m, t.owner
    me = S.st.heap[eng.self_oid]
    noeval = ('C08:construction-evaluates-no-example', z3.BoolVal(not [e for e in evals(S) if e[0] in ('get', 'app', 'pull', 'getkey')]))
    if o.kind == 'raise':
        return [noeval]
    k = z3.Const('k_generic', smt.Key)
    j = smt.fresh('j', smt.Int)
    inr = z3.And(j >= 0, j < m)
    return [('C03:KeyZipDataset-invariant:at-least-two-inputs', m >= 2),
            ('C03:KeyZipDataset-invariant:every-input-has-keys', z3.Implies(inr, smt.KEYS(spec.IN(ow, j)))),
            ('C03:KeyZipDataset-invariant:all-inputs-have-the-same-key-set',
             z3.Implies(inr, (smt.KPOS(spec.IN(ow, j), k) >= 0) == (smt.KPOS(spec.IN(ow, I(0)), k) >= 0))),
            ('init:field-input_datasets', z3.BoolVal(me.get('input_datasets') is t)), noeval]


class KeyZipInitC(ClassContract):
    cls = 'KeyZipDataset'

    def view(self, eng, st):
        return None
    methods = {'__init__': [Variant('construct', params={'input_datasets': _inputs}, post=_post, hooks=_hooks(),
                                    props=('C03', 'C01', 'C08'), setup=lambda eng, st: st.pc.extend(set_axioms()))]}


CONTRACTS = [KeyZipInitC()]
