"""Contracts for parallel_utils.lazy_parallel_map (executor path of C04-C07), verified as
the *sequential* generator it is: all concurrency lives inside the executor, which enters
through an assumed contract (DESIGN 2.9):

  submit/apply_async/apipe(f, x)  -> a handle h with TASKF(h) = f, TASKX(h) = x
  result/get(h)                   -> returns v if app(f,x) = Val(v), raises e if Exc(e),
                                     independent of when or in which order tasks ran
  cancel(h)                       -> a not-yet-started task never starts
  leaving `with executor`         -> returns after every started task has finished
                                     (multiprocessing.Pool.__exit__ / pathos terminate: stops the workers)

The completion order does not occur in any obligation, so every schedule is covered.
"""
import z3

from pyvc import smt, views
from pyvc.smt import I
from pyvc.values import *          # noqa
from pyvc.values import eqv, veq   # noqa
from pyvc.engine import QueueV, GenStreamV, EmptyDictV, Outcome
from pyvc.contract import *        # noqa
from pyvc.views import AX, Out, StreamView

# ghost vocabulary of the executor contract
HND = z3.Function('HND', smt.Int, smt.Obj)          # handle of the t-th submission
TASKF = z3.Function('TASKF', smt.Obj, smt.Fn)
TASKX = z3.Function('TASKX', smt.Obj, smt.Obj)
ISH = z3.Function('IS_HANDLE', smt.Obj, smt.Bool)
# source stream
SRCN = z3.Int('SRC_N')
SRC_R = z3.Function('SRC_R', smt.Int, smt.Bool)
SRC_V = z3.Function('SRC_V', smt.Int, smt.Obj)
SRC_E = z3.Function('SRC_E', smt.Int, smt.Exc)

POOL_BACKENDS = ['t', 'thread', 'concurrent_mp', 'mp', 'multiprocessing', 'dill_mp']
EXECUTOR_CTORS = {
    'concurrent.futures.ThreadPoolExecutor': 'futures', 'concurrent.futures.ProcessPoolExecutor': 'futures',
    'pathos.multiprocessing.ProcessPool': 'pathos', 'multiprocessing.Pool': 'mp.Pool',
}


def mk_source(eng, st):
    st.pc.append(SRCN >= 0)
    sv = StreamView(SRCN, SRC_R, lambda k: ObjV(SRC_V(k)), SRC_E, desc='source')
    return StreamV(sv, False, 'source')


def _hooks(backend):
    def builtin_hook(eng, st, name, args, kwargs, node):
        if name in EXECUTOR_CTORS:
            return [(st, OpaqueV('executor:' + EXECUTOR_CTORS[name]))]
        if name == 'dill.dumps':
            v = OpaqueV('payload')
            v.payload = args[0]
            return [(st, v)]
        if name == 'dill.loads':
            if isinstance(args[0], OpaqueV) and hasattr(args[0], 'payload'):
                return [(st, args[0].payload)]     # assumed: dill.loads(dill.dumps(x)) == x
        return None

    def resolve_call(eng, st, f, args, kwargs, node):
        if isinstance(f, BuiltinV) and f.name == 'repo.ensure_single_thread_numeric':
            # contract of the environment guard: returns, or raises EnvironmentError
            s2 = st.fork()
            eng.raise_(s2, eng.new_exc(s2, 'OSError'))
            return [(st, NONE)]
        return None

    def with_enter(eng, st, cm):
        if isinstance(cm, OpaqueV) and cm.what.startswith('executor:'):
            st.ghost['in_with'] = True
            return [(st, cm)]
        return None

    def with_exit(eng, st, cm, outcome):
        st.ghost['exited_with'] = outcome.kind

    def submit_task(eng, st, f, x):
        if not isinstance(f, FnV) or not isinstance(x, ObjV):
            raise Unsupported('executor task %r(%r)' % (f, x))
        c = st.ghost['submitted'].t
        h = HND(c)
        s2 = st.fork(TASKF(h) == f.t, TASKX(h) == x.t, ISH(h))
        s2.ghost['submitted'] = IntV(c + 1)
        return [(s2, ObjV(h))]

    def opaque_method(eng, st, recv, name, args, kwargs):
        if recv.what.startswith('executor:'):
            if name in ('submit', 'apipe'):
                args, kwargs = eng.flatten_args(args, kwargs)
                f = args[0]
                if isinstance(f, BuiltinV) and f.name == 'repo._dill_mp_helper':
                    # by the contract of _dill_mp_helper (verified separately): helper(dumps((fun, args,
                    # kwargs))) has the outcome of fun(*args, **kwargs)
                    pl = args[1].payload
                    fun, a, kw = pl.items
                    if not (isinstance(a, TupleV) and len(a.items) == 1 and isinstance(kw, EmptyDictV)):
                        raise Unsupported('dill payload shape')
                    return submit_task(eng, st, fun, a.items[0])
                if len(args) != 2 or kwargs:
                    raise Unsupported('submit with extra arguments')
                return submit_task(eng, st, f, args[1])
            if name == 'apply_async':
                f, a, kw = args
                if not (isinstance(a, TupleV) and len(a.items) == 1 and isinstance(kw, EmptyDictV)):
                    raise Unsupported('apply_async argument shape')
                return submit_task(eng, st, f, a.items[0])
            if name == 'terminate':
                st.ghost['pool_terminated'] = True
                return [(st, NONE)]
        return None

    def obj_method(eng, st, recv, name, args, kwargs):
        h = recv.t
        if name in ('result', 'get') and not args:
            f, x = TASKF(h), TASKX(h)
            eng.oblige('result:argument-is-a-submitted-handle', st, ISH(h), 'assert')
            return eng.apply_outs(st, [Out(z3.Not(smt.APP_R(f, x)), value=ObjV(smt.APP_V(f, x))),
                                       Out(smt.APP_R(f, x), exc=ExcV(smt.APP_E(f, x)))])
        if name == 'cancel' and not args:
            st.ghost['cancelled'] = z3.Store(st.ghost['cancelled'], h, smt.T)
            return [(st, BoolV(smt.fresh('cancel_ok', smt.Bool)))]
        return None

    def getattr_hook(eng, st, recv, attr, node):
        # annotations such as pathos.helpers.pp_helper.ApplyResult are never evaluated
        return None
    return dict(builtin_hook=builtin_hook, resolve_call=resolve_call, with_enter=with_enter, with_exit=with_exit,
                opaque_method=opaque_method, obj_method=obj_method)


def _setup(eng, st):
    st.ghost['submitted'] = IntV(0)
    st.ghost['cancelled'] = z3.K(smt.Obj, smt.F)


def _q(S):
    q = S.val.q
    c = S.st.heap[q.oid]
    return c['arr'], c['head'].t, c['tail'].t


def _handles_ok(S, lo, hi):
    """handles lo..hi-1 are the submissions lo..hi-1 of function(src[t])"""
    arr, head, tail = _q(S)
    t = z3.Int('_ht')
    f = S.old.function
    return z3.ForAll([t], z3.Implies(z3.And(t >= lo, t < hi),
                                     z3.And(z3.Select(arr, t) == HND(t), TASKF(HND(t)) == f,
                                            TASKX(HND(t)) == SRC_V(t), ISH(HND(t)))),
                     patterns=[z3.Select(arr, t)])


def _src_ok(upto):
    t = z3.Int('_st')
    return z3.ForAll([t], z3.Implies(z3.And(t >= 0, t < upto), z3.Not(SRC_R(t))), patterns=[SRC_R(t)])


def _inv_fill(bound):
    """for ele in generator (k elements pulled so far):  the queue holds exactly the handles of
    submissions out_n .. k-1 in submission order (C04) [and at most buffer_size of them: C07]."""
    def inv(S):
        arr, head, tail = _q(S)
        b = S.old.buffer_size
        return z3.And(head == S.out_n, tail == S.k, S.g.submitted.t == S.k, tail - head >= 0,
                      (tail - head <= b) if bound else smt.T,
                      _handles_ok(S, head, tail), _src_ok(S.k))
    return inv


def _inv_drain(bound):
    def inv(S):
        arr, head, tail = _q(S)
        b = S.old.buffer_size
        return z3.And(head == S.out_n, tail == SRCN, S.g.submitted.t == SRCN, tail - head >= 0,
                      (tail - head <= b) if bound else smt.T,
                      _handles_ok(S, head, tail), _src_ok(SRCN))
    return inv


def _inv_terminate(S):
    """terminate(): while True: q.get(block=False).cancel()  -- every handle removed so far
    is cancelled; queue contents and bounds unchanged."""
    arr, head, tail = _q(S)
    e = S.entry
    arr0, head0, tail0 = _q(e)
    t = z3.Int('_tt')
    canc = S.g.cancelled
    return z3.And(arr == arr0, tail == tail0, head >= head0, head <= tail,
                  z3.ForAll([t], z3.Implies(z3.And(t >= head0, t < head), z3.Select(canc, z3.Select(arr0, t))),
                            patterns=[z3.Select(arr0, t)]))


def _on_yield_for(prop):
    def oy(S, value):
        cl = _on_yield(S, value)
        if prop == 'C07':
            return [c for c in cl if c[0].startswith('C07')]
        if prop == 'C04':
            return [c for c in cl if c[0].startswith('C04')]
        return []
    return oy


def _on_yield(S, value):
    """C04: the k-th value handed out is function(src[k]) -- same examples, each once, same
    order, for every completion order.  C07: read-ahead bounds at the moment of the yield."""
    f = S.old.function
    o = S.out_n
    b = S.old.buffer_size
    sub = S.g.submitted.t
    x = SRC_V(o)
    pulled = sub + (1 if 'ele_pending' in S.st.ghost else 0)
    return [('C04:yield-value-is-f(src[out_n])', z3.And(o < SRCN, z3.Not(SRC_R(o)), z3.Not(smt.APP_R(f, x)),
                                                        eqv(value, ObjV(smt.APP_V(f, x))))),
            ('C07:started-beyond-delivered<=buffer_size', sub - (o + 1) <= b),
            ('C07:pulled-beyond-delivered<=buffer_size+2', z3.And(sub + 1 - (o + 1) <= b + 2))]


def _post(backend, prop):
    def post(S, o):
        f = S.old.function
        n = S.out_n
        hier = S.eng.hier
        if o.kind in ('normal', 'return'):
            if prop == 'C06':
                # never silently truncated: a normal end before the source is exhausted is only the answer to the consumer's own
                # close() (ghost flag set where the engine injects that GeneratorExit) -- not to an exception of user code
                return [('C06:a-normal-end-delivers-every-source-element-unless-the-consumer-closed',
                         z3.Or(z3.BoolVal('consumer_closed' in S.st.ghost), n == SRCN))]
            return [('C04:end-after-all-source-elements', n == SRCN if prop == 'C04' else smt.T)]
        if o.kind == 'raise':
            e = o.exc.t
            if 'q' not in S.st.env or 'submitted' not in S.st.ghost:
                return [('early-failure-is-the-environment-guard',
                         z3.And(smt.SUB(smt.CLS(e), hier.const('OSError')), n == 0))]
            arr, head, tail = _q(S)
            t = z3.Int('_pt')
            canc = S.g.cancelled
            if backend in ('mp',):
                stopped = z3.BoolVal(bool(S.st.ghost.get('pool_terminated')))
            elif backend == 'multiprocessing':
                stopped = smt.T      # assumed: Pool.__exit__ terminates the workers
            else:
                stopped = z3.ForAll([t], z3.Implies(z3.And(t >= head, t < tail), z3.Select(canc, z3.Select(arr, t))),
                                    patterns=[z3.Select(arr, t)])
            is_exit = smt.SUB(smt.CLS(e), hier.const('GeneratorExit'))
            if prop == 'C06':
                cc = S.st.ghost.get('consumer_closed')
                is_exit = (e == cc.t) if cc is not None else smt.F       # the consumer's own close, re-raised
            env_guard = z3.And(smt.SUB(smt.CLS(e), hier.const('OSError')), n == 0)
            pre = z3.And(smt.SUB(smt.CLS(e), hier.const('AssertionError')), n == 0)
            fail_f = z3.And(n < SRCN, z3.Not(SRC_R(n)), smt.APP_R(f, SRC_V(n)), e == smt.APP_E(f, SRC_V(n)))
            fail_src = z3.And(n < SRCN, SRC_R(n), e == SRC_E(n))
            if prop == 'C05':
                return [('C05:stop-cancels-queued-work', z3.Implies(is_exit, stopped))]
            if prop == 'C06':
                return [('C06:error-surfaces-at-the-failing-position',
                         z3.Or(is_exit, env_guard, pre, fail_f, fail_src))]
            return [('%s:no-claim-on-exceptional-end' % prop, smt.T)]
        return [('outcome', smt.F)]
    return post


def _source_total(S):
    t = z3.Int('_st2')
    return z3.ForAll([t], z3.Not(SRC_R(t)), patterns=[SRC_R(t)])


def _variants():
    vs = []
    for b in POOL_BACKENDS:
        for prop in ('C04', 'C05', 'C06', 'C07'):
            cases = [('backend=%s/%s' % (b, prop), _source_total)]
            if prop == 'C06':
                cases.append(('backend=%s/%s,raising-source' % (b, prop), lambda S: z3.Not(_source_total(S))))
            for nm, rq in cases:
                bound = prop == 'C07'
                vs.append(Variant(
                    nm, requires=rq,
                    params={'function': 'fn', 'generator': mk_source, 'backend': (lambda eng, st, b=b: StrV(b)),
                            'buffer_size': 'int', 'max_workers': 'int', 'args': 'none', 'kwargs': 'none'},
                    generator=True, model_close=True, setup=_setup, hooks=_hooks(b),
                    loops={'0': _inv_fill(bound), '1': _inv_drain(bound), 'terminate.0': _inv_terminate},
                    on_yield=_on_yield_for(prop), post=_post(b, prop), props=(prop,)))
    return vs


class LazyParallelMapC(FuncContract):
    mod = 'parallel_utils'
    cls = None
    methods = {'lazy_parallel_map': _variants()}


CONTRACTS = [LazyParallelMapC()]
