"""Remaining small functions: DynamicBucketDataset.__init__ / copy (every option is kept / passed on), DiskCacheDataset
.__init__ (indexable input, one wrapper built from the three options), Database.get_dataset (= _get_dataset), the base
class fall-backs of Dataset (an unimplemented operation is refused loudly with the documented exception type, never
answered), _CacheWrapper.__len__."""
import z3

from pyvc import smt
from pyvc.smt import I
from pyvc.values import *          # noqa
from pyvc.engine import KwArgsV, IntDictV
from pyvc.contract import *        # noqa
from contracts.effects import evals
from contracts.cache import _mk_cache, cache_hooks


class _NoView(ClassContract):
    def view(self, eng, st):
        return None


# ---- DynamicBucketDataset.__init__
def _op(name):
    return lambda e, s: OpaqueV(name)


_BUCKET_PARAMS = {'input_dataset': 'ds', 'bucket_cls': _op('bucket_cls'), 'expiration': 'int', 'max_buffered_examples': 'int',
                  'drop_incomplete': 'bool', 'reverse_sort': 'bool'}


def _bucket_init_post(kind):
    def post(S, o):
        env = S.eng.entry_env
        if o.kind == 'raise':
            return [('C17:the-constructor-accepts-every-option-combination', smt.F)]
        me = S.st.heap[S.eng.self_oid]
        out = [('init:field-%s' % f, z3.BoolVal(me.get(f) is env[f])) for f in _BUCKET_PARAMS]
        out.append(('init:bucket-keyword-arguments-are-kept', z3.BoolVal(me.get('bucket_kwargs') is env['bucket_kwargs'])))
        sk = me.get('sort_key')
        if kind == 'fn':
            out.append(('C17:a-callable-sort_key-is-used-as-is', z3.BoolVal(sk is env['sort_key'])))
        elif kind == 'none':
            out.append(('C17:no-sort_key-means-no-sorting', z3.BoolVal(isinstance(sk, NoneV))))
        else:
            import ast
            ok = isinstance(sk, ClosureV) and isinstance(sk.node, ast.Lambda) and ast.unparse(sk.node.body) == 'x[sort_key]'
            out.append(('C17:a-non-callable-sort_key-selects-that-field-of-the-example', z3.BoolVal(bool(ok))))
        out.append(('C08:construction-evaluates-nothing', z3.BoolVal(not evals(S))))
        return out
    return post


def _callable_hook(callable_kinds):
    def builtin_hook(eng, st, name, args, kwargs, node):
        if name == 'callable' and len(args) == 1:
            return [(st, BoolV(isinstance(args[0], callable_kinds)))]
        return None
    return {'builtin_hook': builtin_hook}


class BucketDatasetInitC(_NoView):
    cls = 'DynamicBucketDataset'
    methods = {'__init__': [
        Variant('sort_key=' + k, params=dict(_BUCKET_PARAMS, sort_key={'fn': 'fn', 'none': 'none', 'field': (lambda e, s: StrV('len'))}[k]),
                post=_bucket_init_post(k), hooks=_callable_hook((FnV, ClosureV)), props=('C17', 'C08')) for k in ('fn', 'none', 'field')]}


def _bucket_copy_post(S, o):
    me = S.eng.entry_heap[S.eng.self_oid]
    v = o.value if o.kind == 'return' else None
    if not (isinstance(v, StageV) and v.cls == 'DynamicBucketDataset'):
        return [('C13:copy-returns-the-same-class', smt.F)]
    names = ['bucket_cls', 'expiration', 'max_buffered_examples', 'drop_incomplete', 'sort_key', 'reverse_sort']
    ok = all(v.kwargs.get(k) is me[k] for k in names)
    inp = v.kwargs.get('input_dataset')
    t = z3.simplify(inp.t) if isinstance(inp, DSRefV) else None
    copied = t is not None and z3.is_app(t) and t.decl().name() == 'CP' and t.arg(0).eq(me['input_dataset'].t)
    rest = v.kwargs.get('**')
    return [('C13:copy-keeps-every-option', z3.BoolVal(bool(ok))),
            ('C13:copy-copies-the-input-with-the-same-freeze', z3.BoolVal(bool(copied))),
            ('C13:copy-keeps-the-bucket-keyword-arguments',
             z3.BoolVal(rest is me['bucket_kwargs'].rest and all(v.kwargs.get(k) is x for k, x in me['bucket_kwargs'].items.items())))]


class BucketDatasetCopyC(_NoView):
    cls = 'DynamicBucketDataset'

    def fields(self, eng, st):
        return {'input_dataset': DSRefV(smt.fresh('d_in', smt.DS)), 'bucket_cls': OpaqueV('bucket_cls'),
                'expiration': IntV(smt.fresh('expiration', smt.Int)), 'max_buffered_examples': NONE,
                'drop_incomplete': BoolV(smt.fresh('drop', smt.Bool)), 'sort_key': FnV(smt.fresh('sort_key', smt.Fn)),
                'reverse_sort': BoolV(smt.fresh('rev', smt.Bool)),
                'bucket_kwargs': KwArgsV({'batch_size': IntV(smt.fresh('batch_size', smt.Int))}, OpaqueV('more'))}
    methods = {'copy': [Variant('freeze=any', params={'freeze': 'bool'}, post=_bucket_copy_post, props=('C13', 'C17'))]}


# ---- DiskCacheDataset.__init__
def _disk_init_post(S, o):
    env = S.eng.entry_env
    d = env['input_dataset'].t
    if o.kind == 'raise':
        return [('C11:the-disk-cache-rejects-only-a-non-indexable-input', z3.And(z3.Not(smt.IDX(d)), exc_is(o.exc, S.eng.hier, 'AssertionError')))]
    me = S.st.heap[S.eng.self_oid]
    w = me.get('_cache')
    ok = isinstance(w, StageV) and w.cls == '_DiskCacheWrapper' and len(w.args) == 3 and w.args[0] is env['cache_dir'] \
        and w.args[1] is env['reuse'] and w.args[2] is env['clear']
    return [('C11:indexable-input', smt.IDX(d)),
            ('C11:one-wrapper-built-from-directory-reuse-clear-in-this-order', z3.BoolVal(bool(ok))),
            ('init:field-input_dataset', z3.BoolVal(me.get('input_dataset') is env['input_dataset'])),
            ('C08:construction-evaluates-no-example', z3.BoolVal(not [e for e in evals(S) if e[0] in ('get', 'app', 'pull', 'getkey')]))]


class DiskCacheInitC(_NoView):
    cls = 'DiskCacheDataset'
    methods = {'__init__': [Variant('construct', params={'input_dataset': 'ds', 'cache_dir': _op('dir'), 'reuse': 'bool', 'clear': 'bool'},
                                    post=_disk_init_post, props=('C11', 'C08'))]}


# ---- Database.get_dataset
def _gd_hooks():
    def resolve_call(eng, st, f, args, kwargs, node):
        if isinstance(f, BoundV) and isinstance(f.recv, InstV) and f.name == '_get_dataset':
            st.ghost['gd_calls'] = st.ghost.get('gd_calls', ()) + ((args, kwargs),)
            return [(st, OpaqueV('result-of-_get_dataset'))]
        return None
    return {'resolve_call': resolve_call}


def _get_dataset_post(S, o):
    calls = S.st.ghost.get('gd_calls', ())
    nm = S.eng.entry_env['name']
    ok = o.kind == 'return' and isinstance(o.value, OpaqueV) and len(calls) == 1 and len(calls[0][0]) == 1 \
        and calls[0][0][0] is nm and not calls[0][1]
    return [('C19:get_dataset(name)-is-_get_dataset(name)', z3.BoolVal(bool(ok)))]


class GetDatasetThinC(_NoView):
    mod = 'database'
    cls = 'Database'

    def fields(self, eng, st):
        return {'_dataset_weak_ref_dict': OpaqueV('weakdict')}
    methods = {'get_dataset': [Variant('any', params={'name': 'key'}, post=_get_dataset_post, hooks=_gd_hooks(), props=('C19',))]}


# ---- base class fall-backs: refused loudly
def _refused(exc):
    def post(S, o):
        return [('I:an-unimplemented-operation-is-refused-with-%s' % exc,
                 exc_is(o.exc, S.eng.hier, exc) if o.kind == 'raise' else smt.F)]
    return post


def _iter_refused(S, o):
    wk = S.eng.entry_env['with_key']
    if o.kind != 'raise':
        return [('I:the-base-class-cannot-iterate', smt.F)]
    return [('I:the-base-class-refuses-iteration-loudly',
             z3.If(wk.t, exc_is(o.exc, S.eng.hier, '_ItemsNotDefined'), exc_is(o.exc, S.eng.hier, 'NotImplementedError')))]


class BaseFallbacksC(ClassContract):
    cls = 'Dataset'

    def fields(self, eng, st):
        return {}

    def view(self, eng, st):
        return None
    methods = {
        'copy': [Variant('base', params={'freeze': 'bool'}, post=_refused('NotImplementedError'), props=('C13',))],
        '__iter__': [Variant('base', params={'with_key': 'bool'}, generator=False, post=_iter_refused, props=('C01', 'C03'))],
        '__len__': [Variant('base', post=_refused('TypeError'), props=('C02',))],
        'indexable': [Variant('base', post=_refused('NotImplementedError'), props=('C02',))],
        'ordered': [Variant('base', post=_refused('NotImplementedError'), props=('C13',))],
        'keys': [Variant('base', post=_refused('NotImplementedError'), props=('C03',), inline=('keys',))],
        '__contains__': [Variant('base', params={'item': 'key'}, post=_refused('Exception'), props=('C03',))],
        '__getitem__': [Variant('int', params={'item': 'int'}, post=_refused('NotImplementedError'), props=('C02',), inline=('__getitem__',)),
                        Variant('str', params={'item': 'key'}, post=_refused('NotImplementedError'), props=('C03',), inline=('__getitem__',))],
    }


# ---- _CacheWrapper.__len__
def _cw_len_post(S, o):
    me = S.eng.entry_heap[S.eng.self_oid]
    return [('C10:len-of-the-cache-wrapper-is-the-number-of-stored-entries',
             z3.BoolVal(o.kind == 'return' and isinstance(o.value, IntV) and S.st.ghost.get('dict_len_of') is me['cache']))]


def _cw_len_hooks():
    h = cache_hooks()

    def len_hook(eng, st, x):
        if isinstance(x, IntDictV):
            st.ghost['dict_len_of'] = x
            c = smt.fresh('n_entries', smt.Int)
            st.pc.append(c >= 0)
            return [(st, IntV(c))]
        return None
    h['len_hook'] = len_hook
    return h


class CacheWrapperLenC(_NoView):
    cls = '_CacheWrapper'

    def fields(self, eng, st):
        w, doid = _mk_cache(eng, st)
        return dict(st.heap[w.oid])
    methods = {'__len__': [Variant('len', post=_cw_len_post, hooks=_cw_len_hooks(), props=('C10',), inline=('__len__',))]}


CONTRACTS = [BucketDatasetInitC(), BucketDatasetCopyC(), DiskCacheInitC(), GetDatasetThinC(), BaseFallbacksC(), CacheWrapperLenC()]
