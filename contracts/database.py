"""C19 (database layer), the isolation half and definedness, by a *write-frame* analysis over
dictionary identities: every dictionary reachable from the source description is `unowned`;
dictionaries created inside the call are `owned`; each mutating operation (d[k] = v, update,
setdefault that inserts, pop, del) is recorded with its target, and the frame clause demands
that every target is owned -- on every path, for every description (dictionary contents are
opaque; key presence is a free boolean per (dictionary, key)).  Bounded only in the number of
merged descriptions (1..3 parts).  The order/content clauses of C19 (each example once, in
stored order, with example_id and dataset added) are stated structurally for get_examples."""
import z3

from pyvc import smt
from pyvc.smt import I
from pyvc.values import *          # noqa
from pyvc.contract import *        # noqa
from pyvc.views import Out


class PyDictV(Val):
    kind = 'pydict'

    def __init__(self, oid, owned, children_owned=False, tag=''):
        self.oid, self.owned, self.children_owned, self.tag = oid, owned, children_owned, tag

    def __repr__(self):
        return 'PyDictV(#%d,%s,%s)' % (self.oid, 'owned' if self.owned else 'SOURCE', self.tag)


class AnyV(Val):
    """a value of unknown python type stored in a source dictionary"""
    kind = 'any'

    def __init__(self, parent, key, is_dict):
        self.parent, self.key, self.is_dict = parent, key, is_dict


class EmptyDictLike(Val):
    kind = 'emptydictlike'


class SetOV(Val):
    kind = 'oset'

    def __init__(self):
        self.empty = smt.fresh('set_is_empty', smt.Bool)


def world(eng):
    if not hasattr(eng, '_dw'):
        eng._dw = {'has': {}, 'child': {}}
    return eng._dw


def new_dict(eng, st, owned, children_owned=False, tag=''):
    d = PyDictV(eng.new_oid(), owned, children_owned, tag)
    return d


def has(eng, d, key):
    w = world(eng)
    k = (d.oid, repr(key))
    if k not in w['has'] and getattr(d, 'shallow_of', None) is not None:
        w['has'][k] = has(eng, d.shallow_of, key)
    if k not in w['has']:
        w['has'][k] = smt.fresh('has_%s' % (key.s if isinstance(key, StrV) else 'key'), smt.Bool)
    return w['has'][k]


def child(eng, st, d, key):
    w = world(eng)
    k = (d.oid, repr(key))
    if k not in w['child'] and getattr(d, 'shallow_of', None) is not None:
        w['child'][k] = child(eng, st, d.shallow_of, key)      # a shallow copy shares its values
    if k not in w['child']:
        w['child'][k] = new_dict(eng, st, owned=d.children_owned, tag='%s[%s]' % (d.tag, key.s if isinstance(key, StrV) else '?'))
    return w['child'][k]


def write(st, d, what):
    st.ghost['dict_writes'] = st.ghost.get('dict_writes', ()) + ((d.oid, d.owned, d.tag, what),)


def db_hooks():
    def keyrepr(k):
        return k

    def dict_display(eng, st, node):
        # {**a, **b, 'k': v}: a NEW dict (shallow: values are shared)
        cur = [st]
        for k, v in zip(node.keys, node.values):
            nxt = []
            for s in cur:
                for s2, _ in eng.eval(v, s):
                    nxt.append(s2)
            cur = nxt
        return [(s, new_dict(eng, s, True, tag='display')) for s in cur]

    def dict_comp(eng, st, node):
        import ast
        src = ast.unparse(node)
        g = node.generators[0]
        res = []
        for s2, it in eng.eval(g.iter, st):
            if not (isinstance(it, OpaqueV) and it.what == 'items-of'):
                raise Unsupported('dict comprehension over %r' % (it,))
            # generic entry: the value may be a dict or anything else
            isd = smt.fresh('value_is_a_dict', smt.Bool)
            for s3, side in eng.branch(s2, isd):
                v1 = new_dict(eng, s3, owned=it.of.children_owned, tag='value-of-' + it.of.tag) if side else AnyV(it.of, None, False)
                s3.env[g.target.elts[0].id] = KeyV(smt.fresh('k1', smt.Key))
                s3.env[g.target.elts[1].id] = v1
                for s4, _ in eng.eval(node.value, s3):
                    # all entries handled alike: the result is a new dict; its values are what the value
                    # expression built (v.copy(): new dicts)
                    res.append((s4, new_dict(eng, s4, True, children_owned=('.copy()' in src), tag='comprehension')))
        return res

    def subscript_hook(eng, st, recv, idx, node):
        if isinstance(recv, PyDictV):
            res = []
            for s2, side in eng.branch(st, has(eng, recv, idx)):
                if side:
                    res.append((s2, child(eng, s2, recv, idx)))
                else:
                    eng.raise_(s2, eng.new_exc(s2, 'KeyError'))
            return res
        if isinstance(recv, AnyV):
            raise Unsupported('subscript of a non-dict value')
        return None

    def store_subscript(eng, st, recv, idx, v, node):
        if isinstance(recv, PyDictV):
            write(st, recv, 'd[k] = v')
            w = world(eng)
            w['has'][(recv.oid, repr(idx))] = smt.T
            if isinstance(v, PyDictV):
                w['child'][(recv.oid, repr(idx))] = v
            return [st]
        return None

    def any_method(eng, st, recv, name, args, kwargs):
        if isinstance(recv, AnyV):
            if name == 'copy':
                eng.raise_(st, eng.new_exc(st, 'AttributeError'))
                return []
            return None
        if isinstance(recv, SetOV):
            if name == 'intersection':
                return [(st, SetOV())]
            return None
        if not isinstance(recv, PyDictV):
            return None
        if name in ('keys', 'values', 'items'):
            o = OpaqueV('%s-of' % name)
            o.of = recv
            return [(st, o)]
        if name == 'copy':
            return [(st, new_dict(eng, st, True, tag='copy-of-' + recv.tag))]
        if name == 'update':
            write(st, recv, 'update')
            return [(st, NONE)]
        if name == 'get':
            res = []
            default = args[1] if len(args) > 1 else NONE
            for s2, side in eng.branch(st, has(eng, recv, args[0])):
                res.append((s2, child(eng, s2, recv, args[0]) if side else default))
            return res
        if name == 'setdefault':
            res = []
            for s2, side in eng.branch(st, has(eng, recv, args[0])):
                if side:
                    res.append((s2, child(eng, s2, recv, args[0])))
                else:
                    write(s2, recv, 'setdefault inserts %s' % (args[0].s if isinstance(args[0], StrV) else 'key'))
                    res.append((s2, args[1]))
            return res
        if name in ('pop', 'clear', 'popitem'):
            write(st, recv, name)
            return [(st, OpaqueV('popped'))]
        return None

    def builtin_hook(eng, st, name, args, kwargs, node):
        if name == 'set':
            return [(st, SetOV())]
        if name == 'dict' and len(args) == 1 and isinstance(args[0], PyDictV):
            # dict(d): a new dict, shallow (values shared with d)
            src = args[0]
            nd = new_dict(eng, st, True, tag='dict(%s)' % src.tag)
            w = world(eng)
            for (oid, k), b in list(w['has'].items()):
                if oid == src.oid:
                    w['has'][(nd.oid, k)] = b
            nd.shallow_of = src
            return [(st, nd)]
        if name == 'dict' and len(args) == 1 and isinstance(args[0], (EmptyDictLike, AnyV)):
            return [(st, new_dict(eng, st, True, tag='dict()'))]
        if name == 'set.intersection' or name == 'set.union':
            return [(st, SetOV())]
        if name.startswith('difflib.'):
            return [(st, OpaqueV('matches'))]
        if name == 'tuple' and args and isinstance(args[0], OpaqueV):
            return [(st, OpaqueV('names'))]
        return None

    def binop_hook(eng, st, op, a, b, node):
        if isinstance(a, SetOV) or isinstance(b, SetOV):
            return [(st, SetOV())]
        if isinstance(a, OpaqueV) and isinstance(b, OpaqueV):
            return [(st, OpaqueV('names'))]
        return None

    def len_hook(eng, st, x):
        if isinstance(x, SetOV):
            n = smt.fresh('set_len', smt.Int)
            st.pc.append(n >= 0)
            st.pc.append((n == 0) == x.empty)
            return [(st, IntV(n))]
        if isinstance(x, PyDictV):
            n = smt.fresh('dict_len', smt.Int)
            st.pc.append(n >= 0)
            return [(st, IntV(n))]
        if isinstance(x, (TupleV,)):
            return None
        return None

    def contains_hook(eng, st, container, x):
        if isinstance(container, PyDictV):
            return has(eng, container, x)
        return None

    def iter_obj_descr(eng, st, v):
        if (isinstance(v, OpaqueV) and v.what in ('keys-of', 'names')) or isinstance(v, (PyDictV, AnyV)):
            n = smt.fresh('n_iter', smt.Int)
            st.pc.append(n >= 0)
            of = getattr(v, 'of', None)

            def el(k):
                key = KeyV(smt.fresh('key', smt.Key))
                return [Out(smt.T, value=key)]
            return n, el
        return None

    def havoc_value(eng, st, name, cur):
        if isinstance(cur, PyDictV):
            # the loop re-binds the name in every iteration; ownership is an invariant (checked)
            return new_dict(eng, st, cur.owned, cur.children_owned, tag=cur.tag + "'")
        if isinstance(cur, SetOV):
            return SetOV()
        return None

    def truth_hook(eng, st, v):
        if isinstance(v, SetOV):
            return z3.Not(v.empty)
        return None

    def any_getattr(eng, st, recv, attr):
        if isinstance(recv, (PyDictV, AnyV, SetOV)):
            return [(st, BoundV(recv, attr))]
        return None
    return dict(dict_display=dict_display, dict_comp=dict_comp, subscript_hook=subscript_hook, store_subscript=store_subscript,
                any_method=any_method, builtin_hook=builtin_hook, binop_hook=binop_hook, len_hook=len_hook,
                contains_hook=contains_hook, iter_obj_descr=iter_obj_descr, havoc_value=havoc_value, truth_hook=truth_hook,
                any_getattr=any_getattr)


def frame_clause(S):
    ws = S.st.ghost.get('dict_writes', ())
    bad = [w for w in ws if not w[1]]
    return ('C19:no-dictionary-of-the-source-description-is-written' + (' [%s]' % '; '.join('%s: %s' % (b[2], b[3]) for b in bad) if bad else ''),
            z3.BoolVal(not bad))


# ------------------------------------------------------------ _merge_database_dicts
def _parts(n):
    def mk(eng, st):
        return TupleV([new_dict(eng, st, False, tag='part%d' % i) for i in range(n)])
    return mk


def _merge_post(n):
    def post(S, o):
        parts = S.eng.entry_env['database_dicts'].items
        out = [frame_clause(S)]
        if o.kind == 'raise':
            # duplicates and foreign top-level keys in later parts are rejected by assertions; nothing
            # else may go wrong for any description (first part with or without alias, extra keys of any type)
            ok = z3.Or(exc_is(o.exc, S.eng.hier, 'AssertionError'),
                       z3.And(exc_is(o.exc, S.eng.hier, 'KeyError'), z3.Not(has(S.eng, parts[0], StrV('datasets'))))
                       if n > 1 else smt.F)
            for p in parts[1:]:
                ok = z3.Or(ok, z3.And(exc_is(o.exc, S.eng.hier, 'KeyError'), z3.Not(has(S.eng, p, StrV('datasets')))))
            out.append(('C19:merge-is-defined-for-every-description(only duplicate/foreign-key rejections)', ok))
            return out
        v = o.value
        if n == 1:
            out.append(('C19:a-single-description-is-used-as-is', z3.BoolVal(v is parts[0])))
        else:
            out.append(('C19:several-descriptions-merge-into-a-new-dictionary',
                        z3.BoolVal(isinstance(v, PyDictV) and v.owned and all(v is not p for p in parts))))
        return out
    return post


class MergeC(FuncContract):
    mod = 'database'
    cls = None
    methods = {'_merge_database_dicts': [
        Variant('%d-part%s' % (n, '' if n == 1 else 's'), params={'database_dicts': _parts(n)}, post=_merge_post(n),
                hooks=db_hooks(), props=('C19',)) for n in (1, 2, 3)]}


# ------------------------------------------------------------ Database methods (on a DictDatabase)
def _db_fields(self, eng, st):
    return {'_data': new_dict(eng, st, False, tag='source'), '_dataset_weak_ref_dict': OpaqueV('weakdict')}


def _alias_post(S, o):
    out = [frame_clause(S)]
    if o.kind == 'raise':
        out.append(('alias:no-exception', smt.F))
    return out


def _get_examples_post(S, o):
    out = [frame_clause(S)]
    hier = S.eng.hier
    if o.kind == 'raise':
        out.append(('C19:get_examples-fails-only-for-unknown-names-overlapping-ids-or-empty-datasets',
                     z3.Or(exc_is(o.exc, hier, 'KeyError'), exc_is(o.exc, hier, 'AssertionError'),
                           exc_is(o.exc, hier, 'RuntimeError'))))
        return out
    v = o.value
    src = S.eng.entry_heap[S.eng.self_oid]['_data']
    out.append(('C19:get_examples-returns-a-new-dictionary', z3.BoolVal(isinstance(v, PyDictV) and v.owned)))
    # every example handed out is a new dict {**stored, example_id, dataset}: the augmentation loop
    # stores display-built dictionaries only
    ws = [w for w in S.st.ghost.get('dict_writes', ()) if w[3] == 'd[k] = v']
    out.append(('C19:examples-are-augmented-on-copies', z3.BoolVal(all(w[1] for w in ws))))
    return out


def _examples_owned(S):
    ex = S.st.env.get('examples')
    return z3.BoolVal(ex is None or (isinstance(ex, PyDictV) and ex.owned))


def _dbinit_hooks():
    h = db_hooks()
    base = h['builtin_hook']

    def builtin_hook(eng, st, name, args, kwargs, node):
        if name == 'weakref.WeakValueDictionary':
            o = OpaqueV('WeakValueDictionary')
            st.ghost['memos_created'] = st.ghost.get('memos_created', ()) + (o,)
            return [(st, o)]
        return base(eng, st, name, args, kwargs, node)
    h['builtin_hook'] = builtin_hook
    return h


def _dbinit_post(S, o):
    """every database object gets its OWN memo of datasets (repeated requests are served from one
    shared dataset *of this database*; two databases never share a memo)"""
    me = S.st.heap[S.eng.self_oid]
    made = S.st.ghost.get('memos_created', ())
    return [('C19:each-database-has-its-own-dataset-memo',
             z3.BoolVal(o.kind in ('normal', 'return') and len(made) == 1 and me.get('_dataset_weak_ref_dict') is made[0]))]


class DatabaseInitC(ClassContract):
    mod = 'database'
    cls = 'Database'

    def view(self, eng, st):
        return None
    methods = {'__init__': [Variant('construct', post=_dbinit_post, hooks=_dbinit_hooks(), props=('C19',))]}


class DatabaseC(ClassContract):
    mod = 'database'
    cls = 'DictDatabase'
    fields = _db_fields

    def view(self, eng, st):
        return None
    methods = {
        'alias': [Variant('read', post=_alias_post, hooks=db_hooks(), props=('C19',), inline=('alias', 'data'))],
        'get_examples': [Variant('name', params={'dataset_name': 'key'}, post=_get_examples_post, hooks=db_hooks(),
                                 loops={'0': _examples_owned, '1': _examples_owned}, props=('C19',),
                                 inline=('alias', 'data', 'dataset_names'))],
        'dataset_names': [Variant('read', post=lambda S, o: [frame_clause(S)], hooks=db_hooks(), props=('C19',),
                                  inline=('alias', 'data', 'dataset_names'))],
    }


CONTRACTS = [MergeC(), DatabaseC(), DatabaseInitC()]
