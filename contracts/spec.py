"""Shared spec functions of the view table (DESIGN section 3): fold symbols, first-raiser
skolem functions, batch sequences.  Everything here is *specification* vocabulary; each
function adds the ground axiom instances it needs to pyvc.views.AX."""
import z3

from pyvc import smt, views
from pyvc.smt import I
from pyvc.values import *      # noqa
from pyvc.views import AX, View, AbsView

_memo = {}


def reset():
    _memo.clear()


views.RESET_HOOKS.append(reset)


def memo(key, mk):
    if key not in _memo:
        _memo[key] = mk()
    return _memo[key]


def IN(owner, j):
    return smt.IN(I(owner), j)


def in_view(owner, j):
    return AbsView(IN(owner, j))


def all_inputs(owner, m, pred):
    """forall j in [0,m): pred(IN(owner,j))   (pattern: the IN term)"""
    j = z3.Int('_aj')
    body = pred(IN(owner, j))
    return z3.ForAll([j], z3.Implies(z3.And(j >= 0, j < m), body), patterns=[IN(owner, j)])


def sum_n(owner):
    """SUMN(k) = sum_{j<k} N(IN(owner,j))"""
    j = z3.Int('_sj')
    AX.add(z3.ForAll([j], smt.N(IN(owner, j)) >= 0, patterns=[smt.N(IN(owner, j))]))
    return smt.FOLDS.sum(j, smt.N(IN(owner, j)))


def part(owner, m, p):
    """PART(p): the input that holds position p of a concatenation:
       0 <= p < SUMN(m)  =>  0 <= PART(p) < m  and  SUMN(PART(p)) <= p < SUMN(PART(p)+1)."""
    S = sum_n(owner)
    P = memo(('PART', owner), lambda: z3.Function('PART!%d' % owner, smt.Int, smt.Int))
    pp = P(p)
    smt.FOLDS.note_index(pp)
    smt.FOLDS.note_index(pp + 1)
    smt.FOLDS.note_index(m)
    AX.add(z3.Implies(z3.And(p >= 0, p < S(m)), z3.And(pp >= 0, pp < m, S(pp) <= p, p < S(pp + 1))))
    return pp


class FirstRaiser:
    """For a tuple of inputs and a position p (possibly per-input positions pos(j)):
       ANY(p)  <=>  some input raises at p;   FR(p) the first such input."""

    def __init__(self, owner, m, tag, pos=None):
        self.owner = owner
        self.m = m
        self.ANY = z3.Function('ANYR_%s!%d' % (tag, owner), smt.Int, smt.Bool)
        self.FR = z3.Function('FR_%s!%d' % (tag, owner), smt.Int, smt.Int)
        self.pos = pos or (lambda j, p: p)

    def _r(self, j, p):
        return smt.RAISES(IN(self.owner, j), self.pos(j, p))

    def any(self, p):
        if not (z3.is_const(p) or z3.is_int_value(p)):
            # patterns may not contain ite/arithmetic: name the position
            pc = memo(('FRpos', self.owner, p.sexpr()), lambda: smt.fresh('pos', smt.Int))
            AX.add(pc == p)
            p = pc
        fr = self.FR(p)
        j = z3.Int('_fj')
        AX.add(self.ANY(p) == z3.And(fr >= 0, fr < self.m, self._r(fr, p)))
        AX.add(z3.Implies(z3.Not(self.ANY(p)),
                          z3.ForAll([j], z3.Implies(z3.And(j >= 0, j < self.m), z3.Not(self._r(j, p))),
                                    patterns=[self._r(j, p)])))
        AX.add(z3.Implies(self.ANY(p),
                          z3.ForAll([j], z3.Implies(z3.And(j >= 0, j < fr), z3.Not(self._r(j, p))),
                                    patterns=[self._r(j, p)])))
        return self.ANY(p)

    def first(self, p):
        self.any(p)
        if not (z3.is_const(p) or z3.is_int_value(p)):
            p = memo(('FRpos', self.owner, p.sexpr()), lambda: None)
        return self.FR(p)


def first_raiser(owner, m, tag='zip', pos=None):
    return memo(('FR', owner, tag), lambda: FirstRaiser(owner, m, tag, pos))


# ---------------------------------------------------------------- batch sequences
_BSEQ = z3.Function('BSEQ', smt.DS, smt.Int, smt.Int, smt.ObjSeq)


def bseq(d, s, c):
    """BSEQ(d, s, c) = [VAL(d,s), ..., VAL(d,s+c-1)]  by snoc recursion; the defining
    equations are instantiated at (s, c):   BSEQ(d,s,0) = [] ;
    c >= 0 => BSEQ(d,s,c+1) = BSEQ(d,s,c) ++ [VAL(d,s+c)] ;  |BSEQ(d,s,c)| = max(c,0)."""
    t = _BSEQ(d, s, c)
    AX.add(_BSEQ(d, s, I(0)) == z3.Empty(smt.ObjSeq))
    AX.add(z3.Implies(c >= 0, _BSEQ(d, s, c + 1) == z3.Concat(_BSEQ(d, s, c), z3.Unit(smt.VAL(d, s + c)))))
    AX.add(z3.Length(t) == z3.If(c >= 0, c, 0))
    AX.add(z3.Length(_BSEQ(d, s, c + 1)) == z3.If(c + 1 >= 0, c + 1, 0))
    return t


class RangeRaiser:
    """First raising position of dataset d inside [s, s+c):  ANY(s,c), FRP(s,c)."""

    def __init__(self, d, tag):
        self.d = d
        self.ANY = z3.Function('ANYRR_%s' % tag, smt.Int, smt.Int, smt.Bool)
        self.FRP = z3.Function('FRP_%s' % tag, smt.Int, smt.Int, smt.Int)

    def any(self, s, c):
        fr = self.FRP(s, c)
        t = z3.Int('_rt')
        d = self.d
        AX.add(self.ANY(s, c) == z3.And(fr >= s, fr < s + c, smt.RAISES(d, fr)))
        AX.add(z3.Implies(z3.Not(self.ANY(s, c)),
                          z3.ForAll([t], z3.Implies(z3.And(t >= s, t < s + c), z3.Not(smt.RAISES(d, t))),
                                    patterns=[smt.RAISES(d, t)])))
        AX.add(z3.Implies(self.ANY(s, c),
                          z3.ForAll([t], z3.Implies(z3.And(t >= s, t < fr), z3.Not(smt.RAISES(d, t))),
                                    patterns=[smt.RAISES(d, t)])))
        return self.ANY(s, c)

    def first(self, s, c):
        self.any(s, c)
        return self.FRP(s, c)


def range_raiser(d, tag):
    return memo(('RR', str(d), tag), lambda: RangeRaiser(d, tag))
