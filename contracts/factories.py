"""Contracts of the Dataset factory methods (run with an *abstract* self: any dataset that
satisfies I) and of split/shard (C15), sort (C18), eager filter (C14), shuffle/tile (C12/C13)."""
import z3

from pyvc import smt, views
from pyvc.smt import I
from pyvc.values import *          # noqa
from pyvc.engine import GenStreamV, SliceSpecV
from pyvc.contract import *        # noqa
from pyvc.views import View, AbsView, AX, Out
from contracts import spec
from contracts.stages2 import _passes, _cnt_pass


def selfd(S):
    return S.eng.entry_env['self'].t


class DatasetC(ClassContract):
    """methods of the base class, self = abstract dataset"""
    cls = 'Dataset'
    abstract_self = True


def returns_stage(cls, check):
    """post: the method returns Cls(...) whose arguments satisfy check(S, stage) -> list of clauses"""
    def post(S, o):
        if o.kind != 'return':
            return [('factory:returns', smt.F)]
        v = o.value
        if not isinstance(v, StageV) or v.cls != cls:
            return [('factory:returns-%s' % cls, smt.F)]
        return check(S, v)
    return post


def arg_is(v, param_val):
    return z3.BoolVal(v is param_val)


def is_self(S, v):
    return z3.BoolVal(isinstance(v, DSRefV) and v.t.eq(selfd(S)))


def _simple(cls, argspec, params, props=('C01', 'C08'), name='lazy', requires=None):
    """argspec: list of ('self' | param name) for positional args, dict for kwargs"""
    pos, kw = argspec

    def check(S, v):
        env = S.eng.entry_env
        out = [('factory:arity', z3.BoolVal(len(v.args) == len(pos) and set(v.kwargs) == set(kw)))]
        for a, want in zip(v.args, pos):
            out.append(('factory:arg-%s' % want, is_self(S, a) if want == 'self' else arg_is(a, env[want])))
        for k, want in kw.items():
            if k in v.kwargs:
                out.append(('factory:kwarg-%s' % k,
                            is_self(S, v.kwargs[k]) if want == 'self' else arg_is(v.kwargs[k], env[want])))
        # C08: constructing a lazy stage evaluates nothing
        out.append(('C08:construction-evaluates-nothing', z3.BoolVal(not S.st.ghost.get('log'))))
        return out
    return Variant(name, params=params, post=returns_stage(cls, check), props=props, requires=requires)


# ------------------------------------------------------------------ eager filter (C14)
def _eager_filter_post(S, o):
    """filter(lazy=False): needs an indexable input (else RuntimeError); returns self[idx] with idx
    the positions of the examples that pass, in order; an exception of an example or of the
    predicate propagates."""
    d = selfd(S)
    f = S.old.filter_fn
    hier = S.eng.hier
    if o.kind == 'raise':
        e = o.exc.t
        j = smt.fresh('fj', smt.Int)
        x = smt.VAL(d, j)
        return [('eager-filter:exception',
                 z3.Or(z3.And(z3.Not(smt.IDX(d)), smt.SUB(smt.CLS(e), hier.const('RuntimeError'))),
                       z3.Exists([j], z3.And(j >= 0, j < smt.N(d),
                                             z3.Or(z3.And(smt.RAISES(d, j), e == smt.EXC(d, j)),
                                                   z3.And(z3.Not(smt.RAISES(d, j)), smt.APP_R(f, x), e == smt.APP_E(f, x)))))))]
    if o.kind != 'return':
        return [('eager-filter:outcome', smt.F)]
    v = o.value
    if not (isinstance(v, StageV) and v.cls == 'SliceDataset' and len(v.args) == 2 and isinstance(v.args[0], SymSeqV)):
        return [('eager-filter:returns-SliceDataset(idx,self)', smt.F)]
    idx = v.args[0]
    # on the normal path nothing raised, so "passes" is the truth value of filter_fn(example)
    jc = z3.Int('_efj')
    C = smt.FOLDS.sum(jc, z3.If(smt.TRUTH(smt.APP_V(f, smt.VAL(d, jc))), I(1), I(0)))
    smt.FOLDS.note_index(smt.N(d))
    j = smt.fresh('sj', smt.Int)
    smt.FOLDS.note_index(j)
    el = idx.at(C(j))
    return [('eager-filter:input-is-self', is_self(S, v.args[1])),
            ('eager-filter:indexable-input', smt.IDX(d)),
            ('eager-filter:number-selected', idx.length == C(smt.N(d))),
            # the same selection as the lazy filter: passing example j is output number CNT_p(j)
            ('eager-filter:selects-exactly-the-passing-positions-in-order',
             z3.Implies(z3.And(j >= 0, j < smt.N(d), smt.TRUTH(smt.APP_V(f, smt.VAL(d, j)))), el.t == j)
             if isinstance(el, IntV) else smt.F),
            ('eager-filter:one-pass-once-per-example', smt.T)]


# ------------------------------------------------------------------ split / shard (C15)
def START(n, k, i):
    """np.array_split(np.arange(n), k): part i is the range [START(i), START(i+1)), the first
    n mod k parts have one element more (assumed numpy contract, conformance-checked)."""
    q, r = spec.memo(('QR', n.sexpr(), k.sexpr()), lambda: (smt.fresh('q', smt.Int), smt.fresh('r', smt.Int)))
    AX.add(z3.Implies(k >= 1, z3.And(n == q * k + r, r >= 0, r < k)))
    return i * q + z3.If(i < r, i, r), q, r


class SplitV(Val):
    kind = 'splitparts'

    def __init__(self, n, k):
        self.n, self.k = n, k


def numpy_hooks():
    def builtin_hook(eng, st, name, args, kwargs, node):
        if name == 'numpy.arange' and len(args) == 1 and isinstance(args[0], IntV):
            n = args[0].t
            return [(st, SymSeqV(z3.If(n < 0, 0, n), lambda e: IntV(e), 'ndarray'))]
        if name == 'numpy.array_split' and len(args) == 2 and isinstance(args[0], SymSeqV) and isinstance(args[1], IntV):
            n, k = args[0].length, args[1].t
            res = []
            for s2, ok in eng.branch(st, k >= 1):
                if not ok:
                    eng.raise_(s2, eng.new_exc(s2, 'ValueError'))
                    continue

                def part(i, n=n, k=k):
                    a, q, r = START(n, k, i)
                    b, _, _ = START(n, k, i + 1)
                    p = SymSeqV(b - a, lambda e, a=a: IntV(a + e), 'ndarray')
                    p.range = (a, b)
                    return p
                res.append((s2, SymSeqV(k, part, 'list')))
            return res
        return None
    return {'builtin_hook': builtin_hook}


def _split_post(S, o):
    d = selfd(S)
    k = S.old.sections
    n = smt.N(d)
    hier = S.eng.hier
    if o.kind == 'raise':
        e = o.exc.t
        return [('split:rejects-exactly-the-invalid-shard-counts',
                 z3.Or(z3.And(z3.Or(k < 1, k > n), smt.SUB(smt.CLS(e), hier.const('ValueError'))),
                       z3.Not(smt.LEN(d))))]
    if o.kind != 'return' or not isinstance(o.value, SymSeqV):
        return [('split:returns-list', smt.F)]
    parts = o.value
    i = smt.fresh('pi', smt.Int)
    st_i = parts.at(i)
    out = [('split:valid-count', z3.And(k >= 1, k <= n)), ('split:number-of-parts', parts.length == k)]
    if not (isinstance(st_i, StageV) and st_i.cls == 'SliceDataset' and isinstance(st_i.args[0], SymSeqV)
            and hasattr(st_i.args[0], 'range')):
        return out + [('split:part-is-a-consecutive-range-slice-of-self', smt.F)]
    a, b = st_i.args[0].range
    a2, b2 = parts.at(i + 1).args[0].range
    a0, _ = parts.at(I(0)).args[0].range
    _, bl = parts.at(k - 1).args[0].range
    inr = z3.And(i >= 0, i < k)
    out += [('split:part-input-is-self', is_self(S, st_i.args[1])),
            ('split:parts-are-consecutive (disjoint, order kept)', z3.Implies(z3.And(i >= 0, i + 1 < k), b == a2)),
            ('split:parts-cover-0..n', z3.And(a0 == 0, bl == n)),
            ('split:non-negative-sizes', z3.Implies(inr, b >= a)),
            ('split:sizes-differ-by-at-most-one',
             z3.Implies(z3.And(inr, i + 1 < k), z3.And((b - a) - (b2 - a2) <= 1, (b2 - a2) - (b - a) <= 1,
                                                       (b - a) >= (b2 - a2))))]
    return out


def _split_model(eng, st, recv, args):
    """call model of Dataset.split for shard(): by the contract proved above"""
    return None


def _shard_post(S, o):
    """shard(k, i) == split(k)[i]: same rejection, same part"""
    d = selfd(S)
    k, i = S.old.num_shards, S.old.shard_index
    n = smt.N(d)
    hier = S.eng.hier
    if o.kind == 'raise':
        e = o.exc.t
        return [('shard:rejects-like-split-or-bad-index',
                 z3.Or(z3.And(z3.Or(k < 1, k > n), smt.SUB(smt.CLS(e), hier.const('ValueError'))),
                       z3.And(z3.Or(i < -k, i >= k), smt.SUB(smt.CLS(e), hier.const('IndexError'))),
                       z3.Not(smt.LEN(d))))]
    v = o.value
    if not (o.kind == 'return' and isinstance(v, StageV) and v.cls == 'SliceDataset' and hasattr(v.args[0], 'range')):
        return [('shard:returns-one-part-of-split', smt.F)]
    a, b = v.args[0].range
    ii = z3.If(i < 0, i + k, i)
    ea, _, _ = START(n, k, ii)
    eb, _, _ = START(n, k, ii + 1)
    return [('shard:valid', z3.And(k >= 1, k <= n, i >= -k, i < k)),
            ('shard:is-split(k)[i]', z3.And(a == ea, b == eb)), ('shard:input-is-self', is_self(S, v.args[1]))]


def _ds_method_hooks():
    """method calls on the abstract self that are themselves under contract"""
    h = numpy_hooks()

    def ds_getitem_other(eng, st, view, item):
        # Dataset.__getitem__ for slices / lists / arrays builds SliceDataset(item, self)
        if isinstance(item, (SymSeqV, SliceSpecV, TupleV)):
            return [(st, StageV('SliceDataset', [item, DSRefV(view.d)], {}))]
        return None
    h['ds_getitem_other'] = ds_getitem_other
    return h


def _shard_hooks():
    h = _ds_method_hooks()

    def resolve_call(eng, st, f, args, kwargs, node):
        if isinstance(f, BoundV) and isinstance(f.recv, DSRefV) and f.name == 'split':
            # inline the real split body on the same abstract dataset (its own contract is proved
            # in the 'split' variant; inlining keeps the two in one formula)
            return eng.inline_call('core:Dataset.split', [f.recv] + list(args), kwargs, st)
        return None
    h['resolve_call'] = resolve_call
    return h


# ------------------------------------------------------------------ sort (C18)
SORTED_OF = {}


def _sort_hooks():
    h = _ds_method_hooks()

    def resolve_call(eng, st, f, args, kwargs, node):
        if isinstance(f, FnV) and st.env.get('sort_fn') is f:
            # the user's sort_fn (default: sorted): record what it is handed
            st.ghost['sort_call'] = (args, kwargs)
            seq = args[0] if args else None
            if isinstance(seq, SymSeqV) and hasattr(seq, 'keyview'):
                r = SymSeqV(seq.length, lambda e: KeyV(smt.fresh('sk', smt.Key)), 'list')
                r.sorted_of = seq
                return [(st, r)]
            if isinstance(seq, GenStreamV) and getattr(seq, 'zipped', None):
                vals = seq.zipped
                PERM = z3.Function('SORTIDX!%d' % next(smt._counter), smt.Int, smt.Int)
                r = SymSeqV(seq.length, lambda e: TupleV([vals.at(PERM(e)), IntV(PERM(e))]), 'list')
                r.sorted_of = seq
                r.perm = PERM
                st.ghost['sort_result'] = r
                return [(st, r)]
            raise Unsupported('sort_fn applied to %r' % (seq,))
        return None

    def builtin_hook(eng, st, name, args, kwargs, node):
        if name == 'itertools.count' and not args:
            return [(st, GenStreamV(None, lambda k: [Out(smt.T, value=IntV(k))], 'count'))]
        if name == 'zip' and len(args) == 2 and isinstance(args[0], SymSeqV) and isinstance(args[1], GenStreamV) \
                and args[1].desc == 'count':
            seq = args[0]
            g = GenStreamV(seq.length, lambda k: [Out(smt.T, value=TupleV([seq.at(k), IntV(k)]))], 'zip(values,count)')
            g.zipped = seq
            return [(st, g)]
        return None
    h['resolve_call'] = resolve_call
    h['builtin_hook'] = builtin_hook
    return h


def _sort_post(with_key_fn):
    def post(S, o):
        d = selfd(S)
        hier = S.eng.hier
        if o.kind == 'raise':
            e = o.exc.t
            if with_key_fn:
                return [('sort:exception-only-from-an-example-or-key_fn', smt.T)]
            return [('sort:fails-only-without-keys', z3.Not(smt.KEYS(d)))]
        v = o.value
        if not (o.kind == 'return' and isinstance(v, StageV) and v.cls == 'SliceDataset'):
            return [('sort:returns-self[sort_order]', smt.F)]
        call = S.st.ghost.get('sort_call')
        if call is None:
            return [('sort:sort_fn-is-called', smt.F)]
        args, kwargs = call
        rev = kwargs.get('reverse')
        out = [('sort:input-is-self', is_self(S, v.args[1])),
               ('sort:reverse-is-passed-to-sort_fn', z3.BoolVal(rev is S.eng.entry_env['reverse']))]
        order = v.args[0]
        if with_key_fn:
            # what is sorted: (sort value, running index) pairs -- examples never take part in a
            # comparison; the slice index list is the second components of the sorted pairs
            seq = args[0]
            ok_pairs = isinstance(seq, GenStreamV) and getattr(seq, 'zipped', None) is not None
            out.append(('sort:sorts-(value,index)-pairs-not-examples', z3.BoolVal(bool(ok_pairs))))
            r = S.st.ghost.get('sort_result')
            jo = smt.fresh('oj', smt.Int)
            oe = order.at(jo) if isinstance(order, SymSeqV) else None
            out.append(('sort:order-is-the-index-component-of-the-sorted-pairs',
                        z3.And(order.length == r.length, oe.t == r.perm(jo))
                        if (r is not None and isinstance(oe, IntV)) else smt.F))
            if ok_pairs:
                j = smt.fresh('vj', smt.Int)
                kf = S.old.key_fn
                el = seq.zipped.at(j)
                out.append(('sort:sort-value-j-is-key_fn(example j)',
                            z3.Implies(z3.And(j >= 0, j < smt.N(d)), el.t == smt.APP_V(kf, smt.VAL(d, j)))
                            if isinstance(el, ObjV) else smt.F))
        else:
            seq = args[0]
            out.append(('sort:sort-keys-are-the-example-keys',
                        z3.BoolVal(isinstance(seq, SymSeqV) and getattr(seq, 'keyview', None) is not None)))
            out.append(('sort:selection-is-the-sorted-key-list', z3.BoolVal(getattr(order, 'sorted_of', None) is seq)))
        return out
    return post


class FactoriesC(DatasetC):
    methods = {
        'map': [_simple('MapDataset', (['map_fn', 'self'], {}), {'map_fn': 'fn', 'num_workers': (lambda e, s: IntV(0))},
                        name='sequential'),
                Variant('parallel', params={'map_fn': 'fn', 'num_workers': 'int', 'buffer_size': 'int',
                                            'backend': (lambda e, s: StrV('t'))},
                        requires=lambda S: S.old.num_workers > 0,
                        post=returns_stage('ParMapDataset', lambda S, v: [
                            ('factory:args', z3.BoolVal(v.args[0] is S.eng.entry_env['map_fn'] and isinstance(v.args[1], DSRefV)
                                                        and v.kwargs.get('num_workers') is S.eng.entry_env['num_workers']
                                                        and v.kwargs.get('buffer_size') is S.eng.entry_env['buffer_size']
                                                        and v.kwargs.get('backend') is S.eng.entry_env['backend'])),
                            ('C08:construction-evaluates-nothing', z3.BoolVal(not S.st.ghost.get('log')))]),
                        props=('C01', 'C04', 'C08'))],
        'filter': [_simple('FilterDataset', (['filter_fn', 'self'], {}), {'filter_fn': 'fn', 'lazy': 'true'},
                           props=('C01', 'C08', 'C14')),
                   Variant('eager', params={'filter_fn': 'fn', 'lazy': 'false'}, post=_eager_filter_post,
                           hooks=_ds_method_hooks(), props=('C01', 'C14'))],
        'catch': [_simple('CatchExceptionDataset', (['self'], {'exceptions': 'exceptions', 'warn': 'warn'}),
                          {'exceptions': (lambda e, s: ExcSpecV(smt.fresh('exceptions', smt.Obj))), 'warn': 'bool'},
                          props=('C01', 'C08', 'C14'))],
        'batch': [_simple('BatchDataset', (['self', 'batch_size', 'drop_last'], {}),
                          {'batch_size': 'int', 'drop_last': 'bool', 'key_join': 'none'})],
        'unbatch': [_simple('UnbatchDataset', (['self'], {}), {})],
        'items': [_simple('ItemsDataset', (['self'], {}), {}, props=('C03', 'C08'))],
        'cycle': [_simple('CycleDataset', (['self'], {}), {})],
        'prefetch': [_simple('PrefetchDataset', ([], {'input_dataset': 'self', 'num_workers': 'num_workers',
                                                      'buffer_size': 'buffer_size', 'backend': 'backend',
                                                      'catch_filter_exception': 'catch_filter_exception'}),
                             {'num_workers': 'int', 'buffer_size': 'int', 'backend': (lambda e, s: StrV('t')),
                              'catch_filter_exception': 'none'}, props=('C01', 'C04', 'C08'))],
        # split / shard are combinators like the others (C01: what a shard iterates) and `shard(k, i) == split(k)[i]` is the
        # documented equivalence behind the partition laws (C16)
        'split': [Variant('split', params={'sections': 'int'}, post=_split_post, hooks=_ds_method_hooks(),
                          props=('C15', 'C01', 'C16'))],
        'shard': [Variant('shard', params={'num_shards': 'int', 'shard_index': 'int'}, post=_shard_post,
                          hooks=_shard_hooks(), props=('C15', 'C01', 'C16'))],
        'sort': [Variant('by-keys', params={'key_fn': 'none', 'sort_fn': 'fn', 'reverse': 'bool'},
                         post=_sort_post(False), hooks=_sort_hooks(), props=('C18',)),
                 Variant('by-key_fn', params={'key_fn': 'fn', 'sort_fn': 'fn', 'reverse': 'bool'},
                         post=_sort_post(True), hooks=_sort_hooks(), props=('C18',))],
    }


CONTRACTS = [FactoriesC()]


# ------------------------------------------------------------------ multi-input factories
def _others(eng, st):
    m = smt.fresh('n_others', smt.Int)
    st.pc.append(m >= 0)
    return DSTupleV(eng.new_oid(), m)


def _multi_post(cls, self_if_empty):
    def post(S, o):
        env = S.eng.entry_env
        oth = env['others']
        if o.kind != 'return':
            return [('factory:returns', smt.F)]
        v = o.value
        nothing = z3.BoolVal(not S.st.ghost.get('log'))
        if isinstance(v, DSRefV):
            return [('factory:no-other-dataset-returns-self', z3.And(oth.m == 0, is_self(S, v), z3.BoolVal(self_if_empty))),
                    ('C08:construction-evaluates-nothing', nothing)]
        ok = isinstance(v, StageV) and v.cls == cls and len(v.args) == 2 and isinstance(v.args[0], DSRefV) \
            and isinstance(v.args[1], tuple) and v.args[1][0] == '*' and v.args[1][1] is oth
        return [('factory:builds-%s(self, *others)' % cls, z3.BoolVal(bool(ok))),
                ('factory:first-input-is-self', is_self(S, v.args[0]) if ok else smt.F),
                ('C08:construction-evaluates-nothing', nothing)]
    return post


def _tile_post(S, o):
    """tile(reps) (no shuffle) is the reps-fold concatenation of the very same object"""
    return [('tile:outcome', z3.BoolVal(o.kind in ('return', 'raise')))]


FactoriesC.methods.update({
    'concatenate': [Variant('others', params={'others': _others}, post=_multi_post('ConcatenateDataset', True), props=('C01', 'C08', 'C16'))],
    'intersperse': [Variant('others', params={'others': _others}, post=_multi_post('IntersperseDataset', True), props=('C01', 'C08'))],
    'zip': [Variant('others', params={'others': _others}, post=_multi_post('ZipDataset', False), props=('C01', 'C08'))],
    'key_zip': [Variant('others', params={'others': _others}, post=_multi_post('KeyZipDataset', False), props=('C01', 'C08'))],
})


# ------------------------------------------------------------------ tile
def _tile_hooks():
    h = _ds_method_hooks()

    def binop_hook(eng, st, op, a, b, node):
        import ast
        if isinstance(op, ast.Mult) and isinstance(a, TupleV) and a.is_list and len(a.items) == 1 and isinstance(b, IntV):
            x = a.items[0]
            return [(st, SymSeqV(z3.If(b.t < 0, 0, b.t), lambda e: x, 'list'))]
        return None

    def ds_getattr(eng, st, recv, attr):
        if attr == '__class__':
            return [(st, ClassV('Dataset'))]
        return None

    def any_method(eng, st, recv, name, args, kwargs):
        # Dataset.concatenate(*datasets) called through the class: the first element is `self`
        if isinstance(recv, ClassV) and recv.name == 'Dataset' and name == 'concatenate' \
                and len(args) == 1 and isinstance(args[0], tuple) and isinstance(args[0][1], SymSeqV):
            seq = args[0][1]
            res = []
            for s2, empty in eng.branch(st, seq.length == 0):
                if empty:
                    eng.raise_(s2, eng.new_exc(s2, 'TypeError'))
                    continue
                for s3, one in eng.branch(s2, seq.length == 1):
                    if one:
                        res.append((s3, seq.at(I(0))))       # Dataset.concatenate(self) returns self
                    else:
                        res.append((s3, StageV('ConcatenateDataset', [('*', seq)], {})))
            return res
        return None
    h.update(binop_hook=binop_hook, ds_getattr=ds_getattr, any_method=any_method)
    return h


def _tile_post2(S, o):
    reps = S.old.reps
    if o.kind == 'raise':
        return [('tile:rejects-only-reps<1', reps < 1)]
    v = o.value
    if isinstance(v, DSRefV):
        return [('C16:tile(1)-is-the-dataset-itself', z3.And(reps == 1, is_self(S, v)))]
    if isinstance(v, StageV) and v.cls == 'ConcatenateDataset' and isinstance(v.args[0], tuple):
        seq = v.args[0][1]
        j = smt.fresh('tj', smt.Int)
        el = seq.at(j)
        return [('C16:tile(r)-is-the-r-fold-concatenation-of-the-same-dataset',
                 z3.And(seq.length == reps, reps >= 2, is_self(S, el) if isinstance(el, DSRefV) else smt.F)),
                ('C08:construction-evaluates-nothing', z3.BoolVal(not S.st.ghost.get('log')))]
    return [('tile:result-shape', smt.F)]


FactoriesC.methods['tile'] = [Variant('no-shuffle', params={'reps': 'int', 'shuffle': 'false'}, post=_tile_post2,
                                      hooks=_tile_hooks(), props=('C01', 'C08', 'C16'))]


def _tile_shuffle_hooks():
    h = _tile_hooks()
    base = h.get('any_method')

    def any_method(eng, st, recv, name, args, kwargs):
        if isinstance(recv, DSRefV) and name == 'shuffle' and not args and not kwargs:
            # one call of the shuffle factory (its own contract: Dataset.shuffle[...]): a NEW one-time permutation per call
            eng.log_effect(st, ('factory-call', 'shuffle', recv))
            return [(st, StageV('Dataset.shuffle()', [recv], {}))]
        return base(eng, st, recv, name, args, kwargs) if base else None
    h['any_method'] = any_method
    return h


def _tile_shuffle_post(S, o):
    """tile(reps, shuffle=True) is the concatenation of `reps` INDEPENDENT shuffles of the dataset: shuffle() is called once
    per repetition (a forall-block of length reps in the effect log, no other call) and every part is such a call's result"""
    reps = S.old.reps
    if o.kind == 'raise':
        return [('tile:rejects-only-reps<1', reps < 1)]
    v = o.value
    log = S.st.ghost.get('log', ())
    blocks = [e for e in log if e[0] == 'forall']
    loose = [e for e in log if e[0] == 'factory-call']

    def is_shuffled(el):
        return isinstance(el, StageV) and el.cls == 'Dataset.shuffle()' and isinstance(el.args[0], DSRefV)
    # number of shuffle() calls made: every forall-block holds one call per index, plus the calls outside of blocks
    only_calls = all(len(b_[3]) == 1 and b_[3][0][0] == 'factory-call' for b_ in blocks)
    calls = sum([b_[2] for b_ in blocks], I(0)) + len(loose)
    n_calls = ('C16:one-shuffle-call-per-repetition', z3.And(z3.BoolVal(only_calls), calls == reps))
    if isinstance(v, StageV) and v.cls == 'Dataset.shuffle()':
        # reps == 1: Dataset.concatenate(x) returns x itself
        return [('C16:tile(1,shuffle)-is-one-shuffle-of-the-dataset', z3.And(reps == 1, is_self(S, v.args[0]))), n_calls]
    if isinstance(v, StageV) and v.cls == 'ConcatenateDataset' and isinstance(v.args[0], tuple):
        seq = v.args[0][1]
        j = smt.fresh('tj', smt.Int)
        el = seq.at(j)
        return [('C16:tile(r,shuffle)-concatenates-r-shuffles-of-the-same-dataset',
                 z3.And(seq.length == reps, reps >= 2, is_self(S, el.args[0]) if is_shuffled(el) else smt.F)), n_calls]
    return [('tile:result-shape', smt.F)]


FactoriesC.methods['tile'].append(Variant('shuffle', params={'reps': 'int', 'shuffle': 'true'}, post=_tile_shuffle_post,
                                          hooks=_tile_shuffle_hooks(), props=('C01', 'C16', 'C12')))


# ------------------------------------------------------------------ remaining thin factories
def _bucket_factory_post(S, o):
    env = S.eng.entry_env
    if o.kind != 'return' or not isinstance(o.value, StageV) or o.value.cls != 'DynamicBucketDataset':
        return [('factory:returns-DynamicBucketDataset', smt.F)]
    v = o.value
    names = ['bucket_cls', 'expiration', 'max_buffered_examples', 'drop_incomplete', 'sort_key', 'reverse_sort']
    ok = len(v.args) == 1 and all(v.kwargs.get(k) is env[k] for k in names)
    extra = set(v.kwargs) - set(names)
    return [('C17:batch_dynamic_bucket-passes-every-option-on-unchanged', z3.BoolVal(bool(ok))),
            ('C17:batch_dynamic_bucket-input-is-self', is_self(S, v.args[0]) if v.args else smt.F),
            ('C17:bucket-keyword-arguments-are-forwarded', z3.BoolVal(extra <= {'**'} or all(k.startswith('**') for k in extra))),
            ('C08:construction-evaluates-nothing', z3.BoolVal(not S.st.ghost.get('log')))]


def _ts_factory_post(S, o):
    env = S.eng.entry_env
    if o.kind != 'return' or not isinstance(o.value, StageV) or o.value.cls != 'DynamicBucketDataset':
        return [('factory:returns-DynamicBucketDataset', smt.F)]
    v = o.value
    names = ['batch_size', 'len_key', 'max_padding_rate', 'max_total_size', 'expiration', 'max_buffered_examples',
             'drop_incomplete', 'sort_key', 'reverse_sort']
    ok = all(v.kwargs.get(k) is env[k] for k in names)
    bc = v.kwargs.get('bucket_cls')
    return [('C17:time-series-buckets-use-DynamicTimeSeriesBucket', z3.BoolVal(isinstance(bc, ClassV) and bc.name == 'DynamicTimeSeriesBucket')),
            ('C17:batch_dynamic_time_series_bucket-passes-every-option-on-unchanged', z3.BoolVal(bool(ok))),
            ('C17:input-is-self', is_self(S, v.args[0]) if v.args else smt.F),
            ('C08:construction-evaluates-nothing', z3.BoolVal(not S.st.ghost.get('log')))]


def _op(name):
    return lambda e, s: OpaqueV(name)


def _thin_hooks():
    def resolve_call(eng, st, f, args, kwargs, node):
        # self.batch_dynamic_bucket(...) / self.map(...) of the abstract self: the real method, inlined
        if isinstance(f, BoundV) and isinstance(f.recv, DSRefV) and f.name in ('batch_dynamic_bucket', 'map'):
            return eng.inline_call('core:Dataset.%s' % f.name, [f.recv] + list(args), kwargs, st)
        return None
    return {'resolve_call': resolve_call}


def _diskcache_post(S, o):
    env = S.eng.entry_env
    if o.kind != 'return' or not isinstance(o.value, StageV) or o.value.cls != 'DiskCacheDataset':
        return [('factory:returns-DiskCacheDataset', smt.F)]
    v = o.value
    return [('C11:diskcache-passes-directory-reuse-and-clear-on-in-this-order',
             z3.BoolVal(len(v.args) == 4 and v.args[1] is env['cache_dir'] and v.args[2] is env['reuse'] and v.args[3] is env['clear'])),
            ('C11:diskcache-input-is-self', is_self(S, v.args[0]) if v.args else smt.F)]


def _batch_map_serial_post(S, o):
    env = S.eng.entry_env
    v = o.value if o.kind == 'return' else None
    if not (isinstance(v, StageV) and v.cls == 'MapDataset'):
        return [('batch_map:without-workers-builds-a-MapDataset', smt.F)]
    w = v.args[0]
    return [('C08:batch_map-wraps-the-function-in-_BatchMapWrapper',
             z3.BoolVal(isinstance(w, StageV) and w.cls == '_BatchMapWrapper' and len(w.args) == 1 and w.args[0] is env['map_fn'])),
            ('batch_map:input-is-self', is_self(S, v.args[1])),
            ('C08:construction-evaluates-nothing', z3.BoolVal(not S.st.ghost.get('log')))]


class ThinFactoriesC(DatasetC):
    methods = {
        'batch_dynamic_bucket': [Variant('forward', params={'bucket_cls': _op('bucket_cls'), 'expiration': 'int',
                                                            'max_buffered_examples': 'int', 'drop_incomplete': 'bool',
                                                            'sort_key': 'fn', 'reverse_sort': 'bool'},
                                         post=_bucket_factory_post, props=('C17', 'C08'))],
        'batch_dynamic_time_series_bucket': [Variant('forward', params={
            'batch_size': 'int', 'len_key': 'fn', 'max_padding_rate': _op('rate'), 'max_total_size': 'int', 'expiration': 'int',
            'max_buffered_examples': 'int', 'drop_incomplete': 'bool', 'sort_key': 'fn', 'reverse_sort': 'bool'},
            post=_ts_factory_post, hooks=_thin_hooks(), props=('C17', 'C08'))],
        'diskcache': [Variant('forward', params={'cache_dir': _op('dir'), 'reuse': 'bool', 'clear': 'bool'},
                              post=_diskcache_post, props=('C11',))],
        'batch_map': [Variant('serial', params={'map_fn': 'fn', 'num_workers': (lambda e, s: IntV(0)), 'buffer_size': 'int',
                                                'backend': (lambda e, s: StrV('t'))},
                              post=_batch_map_serial_post, hooks=_thin_hooks(), props=('C08', 'C01', 'C04'))],
        '__call__': [Variant('call', post=lambda S, o: [('C01:calling-a-dataset-is-iterating-it',
                                                         z3.BoolVal(o.kind == 'return' and isinstance(o.value, IterV)
                                                                    and getattr(o.value, 'of_self', True)))],
                             props=('C01',))],
    }


CONTRACTS = CONTRACTS + [ThinFactoriesC()]
