"""Small forwarding methods of the non-indexable / wrapping stages (C02 flags and lengths, C03 key lookup
through a stage that does not change what a key means):
  ReShuffleDataset / LocalShuffleDataset / CatchExceptionDataset:  ds[key] is input[key]; ds[int] is refused
  LocalShuffleDataset.__len__ = len(input), indexable False
  CycleDataset: flags and keys of the input, no length (TypeError), ds[key] is input[key]
  CacheDataset / DynamicBucketDataset / ApplyDataset flags."""
import z3

from pyvc import smt
from pyvc.values import *          # noqa
from pyvc.contract import *        # noqa
from pyvc.views import AbsView
from contracts.stages2 import F
from contracts.shuffle import _rs_fields, _ls_fields, rng_hooks


def in_view(S):
    return AbsView(F(S)['input_dataset'].t)


def _d(S):
    return F(S)['input_dataset'].t


def _refuses_int(excname):
    def post(S, o):
        if o.kind == 'raise':
            return [('C02:a-not-indexable-stage-refuses-integer-indices', exc_is(o.exc, S.eng.hier, excname))]
        return [('C02:a-not-indexable-stage-refuses-integer-indices', smt.F)]
    return post


def _key_variants(props=('C03', 'C14'), hooks=None):
    return Variant('str', params={'item': 'key'}, requires=lambda S: smt.KEYS(_d(S)), post=post_getitem_key(in_view),
                   props=props, hooks=hooks or {})


def _len_forward(S, o):
    if o.kind == 'return' and isinstance(o.value, IntV):
        return [('C02:len-is-the-input-length', o.value.t == smt.N(_d(S)))]
    return [('C02:len-is-the-input-length', smt.F)]


def _input_fields(extra=None):
    def fields(self, eng, st):
        f = {'input_dataset': DSRefV(smt.fresh('d_in', smt.DS))}
        if extra:
            f.update(extra(eng, st))
        return f
    return fields


class _NoView(ClassContract):
    def view(self, eng, st):
        return None


class ReShuffleFwdC(_NoView):
    cls = 'ReShuffleDataset'
    fields = _rs_fields
    methods = {'__getitem__': [_key_variants(),
                               Variant('int', params={'item': 'int'}, post=_refuses_int('TypeError'), props=('C02',))]}


class LocalShuffleFwdC(_NoView):
    cls = 'LocalShuffleDataset'
    fields = _ls_fields
    methods = {'__getitem__': [_key_variants(hooks=rng_hooks()),
                               Variant('int', params={'item': 'int'}, post=_refuses_int('TypeError'), props=('C02',),
                                       hooks=rng_hooks())],
               '__len__': [Variant('len', requires=lambda S: smt.LEN(_d(S)), post=_len_forward, props=('C02',), hooks=rng_hooks())],
               'indexable': [Variant('flag', post=post_bool_property(lambda S: smt.F), props=('C02',), inline=('indexable',),
                                     hooks=rng_hooks())]}


class CatchFwdC(_NoView):
    cls = 'CatchExceptionDataset'
    fields = _input_fields(lambda e, s: {'exceptions': ExcSpecV(smt.fresh('exceptions', smt.Obj)), 'warn': BoolV(smt.fresh('warn', smt.Bool))})
    methods = {'__getitem__': [_key_variants(props=('C03', 'C14')),
                               Variant('int', params={'item': 'int'}, post=_refuses_int('NotImplementedError'), props=('C02', 'C14'))]}


class CycleFwdC(_NoView):
    cls = 'CycleDataset'
    fields = _input_fields()
    methods = {
        'indexable': [Variant('flag', post=post_bool_property(lambda S: smt.IDX(_d(S))), props=('C02',), inline=('indexable',))],
        'ordered': [Variant('flag', post=post_bool_property(lambda S: smt.ORD(_d(S))), props=('C13',), inline=('ordered',))],
        '__len__': [Variant('len', post=lambda S, o: [('C02:an-infinite-stage-offers-no-length',
                                                      exc_is(o.exc, S.eng.hier, 'TypeError') if o.kind == 'raise' else smt.F)],
                            props=('C02',))],
        'keys': [Variant('keys', requires=lambda S: smt.KEYS(_d(S)), post=post_keys(in_view), props=('C03',), inline=('keys',))],
        '__getitem__': [_key_variants()],
    }


class CacheFlagsC(_NoView):
    cls = 'CacheDataset'
    fields = _input_fields()
    methods = {
        'indexable': [Variant('flag', post=post_bool_property(lambda S: smt.IDX(_d(S))), props=('C02', 'C10'), inline=('indexable',))],
        'ordered': [Variant('flag', post=post_bool_property(lambda S: smt.ORD(_d(S))), props=('C10', 'C13'), inline=('ordered',))],
    }


class BucketFlagsC(_NoView):
    cls = 'DynamicBucketDataset'
    fields = _input_fields()
    methods = {
        'indexable': [Variant('flag', post=post_bool_property(lambda S: smt.F), props=('C02', 'C17'), inline=('indexable',))],
        'ordered': [Variant('flag', post=post_bool_property(lambda S: smt.ORD(_d(S))), props=('C13', 'C17'), inline=('ordered',))],
    }


class ApplyFlagsC(_NoView):
    cls = 'ApplyDataset'
    fields = _input_fields(lambda e, s: {'apply_function': FnV(smt.fresh('apply_fn', smt.Fn))})
    methods = {
        'indexable': [Variant('flag', post=post_bool_property(lambda S: smt.F), props=('C02', 'C13'), inline=('indexable',))],
    }


CONTRACTS = [ReShuffleFwdC(), LocalShuffleFwdC(), CatchFwdC(), CycleFwdC(), CacheFlagsC(), BucketFlagsC(), ApplyFlagsC()]


# ---- stages whose number of examples is not known without iterating: they offer no length (TypeError); a length that
#      is offered must be the number of examples iteration yields (C02, second sentence) -- the count is an arbitrary
#      unknown here, so any value computed from the input's length alone is refuted
def _no_cheap_length(S, o):
    if o.kind == 'raise':
        return [('C02:a-stage-of-unknown-size-refuses-len-with-TypeError', exc_is(o.exc, S.eng.hier, 'TypeError'))]
    if o.kind == 'return' and isinstance(o.value, IntV):
        return [('C02:an-offered-length-is-the-number-of-examples-iteration-yields',
                 o.value.t == smt.fresh('number_of_yielded_examples', smt.Int))]
    return [('C02:len-outcome', smt.F)]


def _mk_nolen(cls, extra=None):
    class C(_NoView):
        pass
    C.cls = cls
    C.fields = _input_fields(extra)
    C.methods = {'__len__': [Variant('no-cheap-length', post=_no_cheap_length, props=('C02',))]}
    C.__name__ = cls + 'NoLenC'
    return C()


CONTRACTS += [
    _mk_nolen('ApplyDataset', lambda e, s: {'apply_function': FnV(smt.fresh('apply_fn', smt.Fn))}),
    _mk_nolen('FilterDataset', lambda e, s: {'filter_function': FnV(smt.fresh('filter_fn', smt.Fn))}),
    _mk_nolen('CatchExceptionDataset', lambda e, s: {'exceptions': ExcSpecV(smt.fresh('exceptions', smt.Obj)),
                                                     'warn': BoolV(smt.fresh('warn', smt.Bool))}),
    _mk_nolen('UnbatchDataset'),
    _mk_nolen('DynamicBucketDataset'),
]
