"""C08 (demand-driven evaluation) as effect-log clauses on the same functions as C01-C03:
  * constructors of the lazy stages evaluate no example and apply no user callable
    (only len / keys / indexable of inputs may be read),
  * ds[i] reads exactly the input positions its result needs, applies each callable once,
  * one step of an iteration pulls / applies only for the element it is about to yield.
The effect log records ('get', view, position), ('getkey', ...), ('pull', stream, k),
('app', f, x), ('keys', view) on every symbolic path."""
import z3

from pyvc import smt
from pyvc.smt import I
from pyvc.values import *          # noqa
from pyvc.engine import SliceSpecV
from pyvc.contract import *        # noqa
from pyvc.views import AbsView
from contracts.leaves import MapDatasetC, self_view
from contracts.stages import SliceDatasetC, ConcatenateDatasetC, ItemsDatasetC, ZipDatasetC
from contracts.stages2 import FilterDatasetC, BatchDatasetC, CatchExceptionDatasetC, UnbatchDatasetC, F, _batch_iter_inv, _filter_inv, \
    _no_upstream_indexerror, _batch_getitem_inv, _unbatch_hooks, _sum_b
from contracts.copying import init_field_map
from contracts.factories import DatasetC, returns_stage

EVAL = ('get', 'getkey', 'pull', 'app')


def evals(S, since=0):
    out = []
    for ev in S.st.ghost.get('log', ())[since:]:
        if ev[0] in EVAL:
            out.append(ev)
        elif ev[0] == 'forall':
            out.append(ev)
    return out


# ------------------------------------------------------------------ constructors
def _init_post(S, o):
    if o.kind == 'raise':
        return [('init:precondition-failure-evaluates-nothing', z3.BoolVal(not evals(S)))]
    eng = S.eng
    me = S.st.heap[eng.self_oid]
    fmap, params = init_field_map(eng.src, eng.mod, eng.cls)
    out = [('C08:construction-evaluates-no-example-and-applies-no-callable', z3.BoolVal(not evals(S)))]
    for f, p in fmap.items():
        if isinstance(p, str) and p in eng.entry_env and f in me:
            out.append(('init:field-%s-holds-parameter-%s' % (f, p), z3.BoolVal(me[f] is eng.entry_env[p])))
    return out


def _init_variants(params, requires=None, hooks=None, props=('C08',), name='construct'):
    return [Variant(name, params=params, post=_init_post, props=props, requires=requires, hooks=hooks or {})]


def _mk_init(cls, params, props=('C08',), more=()):
    # `props`: "every field holds the parameter it is named after" carries each property that depends on the stage's
    # configuration (a constructor that rewrites a parameter changes what the stage does)
    class C(ClassContract):
        def view(self, eng, st):
            return None
    C.cls = cls
    C.methods = {'__init__': _init_variants(params, props=props)}
    for nm, p2 in more:
        C.methods['__init__'] = C.methods['__init__'] + _init_variants(p2, props=props, name=nm)
    C.__name__ = cls + 'InitC'
    return C()


def _excspec(e, s):
    return ExcSpecV(smt.fresh('exceptions', smt.Obj))


INITS = [
    _mk_init('MapDataset', {'map_function': 'fn', 'input_dataset': 'ds'}, props=('C08', 'C01')),
    _mk_init('FilterDataset', {'filter_function': 'fn', 'input_dataset': 'ds'}, props=('C08', 'C14')),
    _mk_init('CatchExceptionDataset', {'input_dataset': 'ds', 'exceptions': _excspec, 'warn': 'bool'}, props=('C08', 'C14', 'C06')),
    _mk_init('BatchDataset', {'input_dataset': 'ds', 'batch_size': 'int', 'drop_last': 'bool'}, props=('C08', 'C01', 'C02')),
    _mk_init('UnbatchDataset', {'input_dataset': 'ds'}),
    _mk_init('ItemsDataset', {'input_dataset': 'ds'}),
    _mk_init('CycleDataset', {'input_dataset': 'ds'}),
    _mk_init('LocalShuffleDataset', {'input_dataset': 'ds', 'buffer_size': 'int',
                                     'rng': (lambda e, s: OpaqueV('rng'))}),
    _mk_init('PrefetchDataset', {'input_dataset': 'ds', 'num_workers': 'int', 'buffer_size': 'int',
                                 'backend': (lambda e, s: StrV('t')), 'catch_filter_exception': 'none'},
             props=('C08', 'C04', 'C05', 'C06', 'C07'),
             more=[('construct,catch=exception-spec', {'input_dataset': 'ds', 'num_workers': 'int', 'buffer_size': 'int',
                                                       'backend': (lambda e, s: StrV('t')), 'catch_filter_exception': _excspec}),
                   ('construct,catch=True', {'input_dataset': 'ds', 'num_workers': 'int', 'buffer_size': 'int',
                                             'backend': (lambda e, s: StrV('t')), 'catch_filter_exception': 'true'})]),
]


# ------------------------------------------------------------------ point access
def _point_post(expect):
    """expect(S) -> (max number of input reads, max number of callable applications)"""
    def post(S, o):
        ev = evals(S)
        reads = [e for e in ev if e[0] in ('get', 'getkey', 'pull')]
        apps = [e for e in ev if e[0] == 'app']
        foralls = [e for e in ev if e[0] == 'forall']
        r, a, fa = expect(S)
        return [('C08:point-access-reads-only-the-needed-input-positions', z3.BoolVal(len(reads) <= r and len(foralls) <= fa)),
                ('C08:point-access-applies-each-callable-at-most-once', z3.BoolVal(len(apps) <= a))]
    return post


def _add(contract, method, variants):
    contract.methods = dict(contract.methods)
    contract.methods[method] = list(contract.methods.get(method, [])) + variants


def _clone(contract_cls, methods):
    class C(contract_cls):
        pass
    C.methods = methods
    C.__name__ = contract_cls.__name__ + '_effects'
    return C()


def _map_read_position(S, o):
    """the one position read is the requested one"""
    it = S.old.item
    d = F(S)['input_dataset'].t
    n = smt.N(d)
    p = z3.If(it < 0, it + n, it)
    reads = [e for e in evals(S) if e[0] == 'get']
    return [('C08:the-position-read-is-the-requested-one', z3.And(*[e[2] == p for e in reads]) if reads else smt.T)]


def _batch_reads(S):
    """every input position the batch index evaluates belongs to the requested batch, and a batch that is dropped
    (drop_last, incomplete) evaluates nothing: ds[i] applies the upstream functions only to the examples of result i"""
    v = self_view(S)
    it = S.old.item
    itn = z3.If(it < 0, it + v.n(), it)
    s = itn * v.b
    reads = [e for e in evals(S) if e[0] == 'get']
    others = [e for e in evals(S) if e[0] != 'get']
    cl = [z3.And(e[2] >= s, e[2] < s + v.b, z3.Implies(v.drop, s + v.b <= v.inp.n())) for e in reads]
    return z3.And(z3.BoolVal(not others), *cl)


def _batch_point_inv(S):
    from contracts.stages2 import _batch_getitem_inv
    out = [('batch', _batch_getitem_inv(S))]
    if S.proving:
        out.append(('C08:reads-only-positions-of-the-requested-batch', _batch_reads(S)))
    return out


def _batch_point_post(S, o):
    return [('C08:reads-only-positions-of-the-requested-batch', _batch_reads(S))]


POINT = [
    _clone(BatchDatasetC, {'__getitem__': [
        Variant('int/C08', params={'item': 'int'}, requires=BatchDatasetC.methods['__getitem__'][0].requires,
                post=_batch_point_post, loops={'0': _batch_point_inv}, props=('C08',))]}),
    _clone(MapDatasetC, {'__getitem__': [
        Variant('int', params={'item': 'int'}, requires=lambda S: self_view(S).idx,
                post=lambda S, o: _point_post(lambda S: (1, 1, 0))(S, o) + _map_read_position(S, o), props=('C08',)),
        Variant('str', params={'item': 'key'}, requires=lambda S: self_view(S).keys,
                post=_point_post(lambda S: (1, 1, 0)), props=('C08',))]}),
    _clone(SliceDatasetC, {'__getitem__': [
        Variant('int', params={'item': 'int'}, requires=lambda S: self_view(S).idx, post=_point_post(lambda S: (1, 0, 0)),
                props=('C08',))]}),
    _clone(ConcatenateDatasetC, {'__getitem__': [
        Variant('int', params={'item': 'int'}, requires=lambda S: self_view(S).idx, post=_point_post(lambda S: (1, 0, 0)),
                loops=ConcatenateDatasetC.methods['__getitem__'][0].loops, props=('C08',))]}),
    _clone(ItemsDatasetC, {'__getitem__': [
        Variant('int', params={'item': 'int'}, requires=lambda S: z3.And(self_view(S).idx, self_view(S).keys),
                post=_point_post(lambda S: (1, 0, 0)), props=('C08',))]}),
    _clone(ZipDatasetC, {'__getitem__': [
        Variant('int', params={'item': 'int'}, requires=lambda S: self_view(S).idx,
                post=_point_post(lambda S: (0, 0, 1)), props=('C08',))]}),      # one read per input (one forall)
]


# ------------------------------------------------------------------ iteration steps
def _step_clause(S, max_reads, max_apps):
    """effects of the current symbolic iteration (since the loop head) when a value is yielded"""
    base = len(S.eng.loop_entry_log) if hasattr(S.eng, 'loop_entry_log') else 0
    ev = evals(S)
    reads = [e for e in ev if e[0] in ('get', 'getkey', 'pull')]
    apps = [e for e in ev if e[0] == 'app']
    return [('C08:one-iteration-step-pulls-only-what-it-yields', z3.BoolVal(len(reads) <= max_reads)),
            ('C08:one-iteration-step-applies-each-callable-at-most-once', z3.BoolVal(len(apps) <= max_apps))]


def _slice_iter_yield(S, value):
    # the element yielded at step k is read from position slice[k] and nothing else is evaluated
    fl = F(S)
    sl = fl['slice']
    k = S.ks.get('1')
    reads = [e for e in evals(S) if e[0] in ('get', 'pull')]
    ok_pos = z3.And(*[e[2] == sl.at(k).t for e in reads if e[0] == 'get']) if (k is not None and reads) else smt.T
    return [('C08:slice-iteration-reads-exactly-input[slice[k]]', z3.And(z3.BoolVal(len(reads) == 1 and reads[0][0] == 'get'), ok_pos))]


ITER = [
    _clone(SliceDatasetC, {'__iter__': [
        Variant('values', params={'with_key': 'false'}, generator=True, on_yield=_slice_iter_yield,
                post=lambda S, o: [('iter:ends', smt.T)], loops={'0': lambda S: S.out_n == S.k, '1': lambda S: S.out_n == S.k},
                props=('C08',))]}),
    _clone(FilterDatasetC, {'__iter__': [
        Variant('values', params={'with_key': 'false'}, generator=True,
                on_yield=lambda S, v: _step_clause(S, 1, 1), post=lambda S, o: [('iter:ends', smt.T)],
                loops={'1': _filter_inv(False)}, props=('C08',))]}),
    _clone(CatchExceptionDatasetC, {'__iter__': [
        Variant('values', params={'with_key': 'false'}, generator=True,
                on_yield=lambda S, v: _step_clause(S, 1, 0), post=lambda S, o: [('iter:ends', smt.T)],
                requires=lambda S: smt.IDX(F(S)['input_dataset'].t),
                loops={'1': lambda S: smt.T}, props=('C08',),
                hooks=CatchExceptionDatasetC.methods['__iter__'][0].hooks)]}),
    _clone(BatchDatasetC, {'__iter__': [
        Variant('values', params={'with_key': 'false'}, generator=True,
                # at the yield of batch number out_n exactly (out_n+1)*b input examples have been pulled: never
                # more than one batch ahead
                on_yield=lambda S, v: [('C08:at-most-one-batch-is-pulled-ahead',
                                        z3.Or(S.ks.get('0', I(0)) <= (S.out_n + 1) * F(S)['batch_size'].t,
                                              z3.BoolVal('0' not in S.ks)))] + _step_clause(S, 1, 0),
                post=lambda S, o: [('iter:ends', smt.T)], loops={'0': _batch_iter_inv}, props=('C08',))]}),
]


# ------------------------------------------------------------------ batch_map forwards its configuration
def _batch_map_post(S, o):
    env = S.eng.entry_env
    v = o.value
    if o.kind != 'return' or not isinstance(v, StageV):
        return [('batch_map:returns-a-stage', smt.F)]
    if v.cls == 'ParMapDataset':
        kw = v.kwargs
        w = v.args[0] if v.args else kw.get('map_function')
        return [('C04:parallel-batch_map-maps-_BatchMapWrapper(map_fn)-over-the-batches',
                 z3.BoolVal(isinstance(w, StageV) and w.cls == '_BatchMapWrapper' and len(w.args) == 1 and w.args[0] is env['map_fn'])),
                ('C08:batch_map-forwards-num_workers-buffer_size-backend',
                 z3.BoolVal(kw.get('num_workers') is env['num_workers'] and kw.get('buffer_size') is env['buffer_size']
                            and kw.get('backend') is env['backend'])),
                ('C08:construction-evaluates-nothing', z3.BoolVal(not evals(S)))]
    return [('batch_map:parallel-variant-builds-ParMapDataset', smt.F)]


def _bm_hooks():
    def resolve_call(eng, st, f, args, kwargs, node):
        if isinstance(f, BoundV) and isinstance(f.recv, DSRefV) and f.name == 'map':
            return eng.inline_call('core:Dataset.map', [f.recv] + list(args), kwargs, st)
        return None

    def call_class(eng, st, c, args, kwargs, node):
        return None
    return {'resolve_call': resolve_call}


class BatchMapC(DatasetC):
    methods = {'batch_map': [Variant('parallel', params={'map_fn': 'fn', 'num_workers': 'int', 'buffer_size': 'int',
                                                         'backend': (lambda e, s: StrV('t'))},
                                     requires=lambda S: S.old.num_workers > 0, post=_batch_map_post, hooks=_bm_hooks(),
                                     props=('C08', 'C04', 'C01'))]}


# unbatch: when the k-th example is handed out exactly the input batches up to the one holding it have been pulled
ITER.append(_clone(UnbatchDatasetC, {'__iter__': [
    Variant('values', params={'with_key': 'false'}, generator=True,
            on_yield=lambda S, v: [('C08:unbatch-pulls-one-input-batch-per-outer-step-and-only-when-needed',
                                    z3.BoolVal(len([e for e in evals(S) if e[0] in ('get', 'pull')]) <= 1))],
            post=lambda S, o: [('iter:ends', smt.T)], hooks=_unbatch_hooks(),
            loops={'0': lambda S: S.out_n == _sum_b(F(S)['input_dataset'].t)(S.k),
                   '0.0': lambda S: S.out_n == _sum_b(F(S)['input_dataset'].t)(S.ks['0']) + S.k},
            props=('C08',))]}))

CONTRACTS = INITS + POINT + ITER + [BatchMapC()]
