"""Contracts of the leaf datasets and of MapDataset (spec views from DESIGN section 3)."""
import z3

from pyvc import smt, views
from pyvc.smt import I
from pyvc.values import *          # noqa
from pyvc.engine import SymDictV
from pyvc.contract import *        # noqa
from pyvc.views import View, AbsView, AX


def self_view(S):
    return S.eng.contract.view(S.eng, S.st)


# ------------------------------------------------------------------ ListDataset
class ListView(View):
    """N = len(examples); OUT(i) = examples[i]; no keys.  IDX LEN ORD."""
    idx = smt.T
    len_ = smt.T
    ord_ = smt.T

    def __init__(self, seq):
        self.seq = seq
        self.name = 'ListDataset'

    def n(self):
        return self.seq.length

    def raises(self, i):
        return smt.F

    def val(self, i):
        return self.seq.at(i)

    def exc(self, i):
        return smt.fresh('noexc', smt.Exc)


def _std_getitem_variants(props_idx=('C02',), props_key=('C03', 'C14'),      # C14: catch().items() looks every example up by key
                           with_key=True, loops=None,
                          req_idx=None, req_key=None, inline=()):
    vs = [Variant('int', params={'item': 'int'}, requires=req_idx or (lambda S: self_view(S).idx),
                  post=post_getitem_int(self_view), props=props_idx, loops=loops or {}, inline=inline)]
    # the same index as a numpy fixed-width scalar (C02: "including numpy integer types"): index arithmetic must not
    # wrap around or overflow
    for np_kind in ('np.int8', 'np.uint8'):
        vs.append(Variant('int:' + np_kind, params={'item': np_kind}, requires=req_idx or (lambda S: self_view(S).idx),
                          post=post_getitem_int(self_view), props=props_idx, loops=loops or {}, inline=inline))
    if with_key:
        vs.append(Variant('str', params={'item': 'key'}, requires=req_key or (lambda S: self_view(S).keys),
                          post=post_getitem_key(self_view), props=props_key, loops=loops or {}, inline=inline))
    vs.append(Variant('slice', params={'item': 'slicespec:slice'}, post=post_getitem_other(), props=('C01',),
                      inline=inline))
    vs.append(Variant('list', params={'item': 'slicespec:list'}, post=post_getitem_other(), props=('C01',),
                      inline=inline))
    vs.append(Variant('other', params={'item': 'slicespec:other'}, post=post_getitem_other(), props=('C02',),
                      inline=inline))
    return vs


def _iter_variants(loops=None, loops_key=None, has_items=lambda S: self_view(S).items, props=('C01',),
                   props_items=('C03',), inline=(), hooks=None, loops_refused=None):
    oy, po = iter_clauses(self_view, False)
    oyk, pok = iter_clauses(self_view, True)
    oyr, por = items_refused_clauses(self_view)
    return [
        Variant('values', params={'with_key': 'false'}, generator=True, on_yield=oy, post=po,
                loops=loops or {}, props=props, inline=inline, hooks=hooks),
        Variant('items', params={'with_key': 'true'}, generator=True, on_yield=oyk, post=pok,
                requires=has_items, loops=loops_key or loops or {}, props=props_items, inline=inline, hooks=hooks),
        Variant('items-refused', params={'with_key': 'true'}, generator=True, on_yield=oyr, post=por,
                requires=lambda S: z3.Not(has_items(S)), loops=loops_refused or loops_key or loops or {},
                props=props_items, inline=inline, hooks=hooks),
    ]


class ListDatasetC(ClassContract):
    cls = 'ListDataset'

    def fields(self, eng, st):
        j = smt.fresh('lj', smt.Int)
        ex = z3.Function('EX!%d' % next(smt._counter), smt.Int, smt.Obj)
        n = smt.fresh('n_examples', smt.Int)
        st.pc.append(n >= 0)
        return {'examples': SymSeqV(n, lambda e: ObjV(ex(e)), 'list'), 'name': NONE}

    def view(self, eng, st):
        return ListView(st.heap[eng.self_oid]['examples'])

    methods = {
        '__len__': [Variant('len', post=post_len(self_view), props=('C02',))],
        '__getitem__': _std_getitem_variants(with_key=False),
        '__iter__': _iter_variants(),
        'indexable': [Variant('flag', post=post_bool_property(lambda S: self_view(S).idx), props=('C02',))],
        'ordered': [Variant('flag', post=post_bool_property(lambda S: self_view(S).ord_), props=('C13',))],
    }


# ------------------------------------------------------------------ DictDataset
class DictView(View):
    idx = smt.T
    len_ = smt.T
    keys = smt.T
    items = smt.T
    ord_ = smt.T

    def __init__(self, d):
        self.d = d
        self.name = 'DictDataset'

    def n(self):
        return self.d.n

    def raises(self, i):
        return smt.F

    def val(self, i):
        return ObjV(self.d.valof(self.d.key(i)))

    def exc(self, i):
        return smt.fresh('noexc', smt.Exc)

    def key(self, i):
        return self.d.key(i)

    def kpos(self, k):
        return self.d.kpos(k)


class DictDatasetC(ClassContract):
    cls = 'DictDataset'

    def fields(self, eng, st):
        d = SymDictV('examples')
        # class invariant: _keys == tuple(examples.keys())
        return {'examples': d, 'name': NONE, '_keys': d.keys_seq('tuple')}

    def view(self, eng, st):
        return DictView(st.heap[eng.self_oid]['examples'])

    methods = {
        '__len__': [Variant('len', post=post_len(self_view), props=('C02',))],
        '__getitem__': _std_getitem_variants(),
        '__iter__': _iter_variants(loops={'0': lambda S: S.out_n == S.k, '1': lambda S: S.out_n == S.k}),
        'keys': [Variant('keys', post=post_keys(self_view), props=('C03',), inline=('keys',))],
        'indexable': [Variant('flag', post=post_bool_property(lambda S: self_view(S).idx), props=('C02',))],
        'ordered': [Variant('flag', post=post_bool_property(lambda S: self_view(S).ord_), props=('C13',))],
    }


# ------------------------------------------------------------------- MapDataset
class MapView(View):
    """N = n; OUT(i) = app(f, xs[i]) (an input exception propagates); K forwarded."""

    def __init__(self, inp, f):
        self.inp = inp
        self.fn = f
        self.idx = inp.idx
        self.len_ = inp.len_
        self.keys = inp.keys
        self.items = inp.items
        self.ord_ = inp.ord_
        self.name = 'map(%s)' % inp.name

    def n(self):
        return self.inp.n()

    def raises(self, i):
        x = self.inp.val(i).t
        return z3.Or(self.inp.raises(i), smt.APP_R(self.fn, x))

    def val(self, i):
        return ObjV(smt.APP_V(self.fn, self.inp.val(i).t))

    def exc(self, i):
        return z3.If(self.inp.raises(i), self.inp.exc(i), smt.APP_E(self.fn, self.inp.val(i).t))

    def key(self, i):
        return self.inp.key(i)

    def kpos(self, k):
        return self.inp.kpos(k)


class MapDatasetC(ClassContract):
    cls = 'MapDataset'

    def fields(self, eng, st):
        return {'map_function': FnV(smt.fresh('map_fn', smt.Fn)),
                'input_dataset': DSRefV(smt.fresh('d_in', smt.DS))}

    def view(self, eng, st):
        f = st.heap[eng.self_oid]
        return MapView(AbsView(f['input_dataset'].t), f['map_function'].t)

    methods = {
        '__len__': [Variant('len', post=post_len(self_view), props=('C02',))],
        '__getitem__': _std_getitem_variants(),
        '__iter__': _iter_variants(loops_key={'0': lambda S: S.out_n == S.k}),
        'keys': [Variant('keys', post=post_keys(self_view), requires=lambda S: self_view(S).keys, props=('C03',),
                         inline=('keys',)),
                 Variant('keys-undefined', post=post_keys_undefined(), requires=lambda S: z3.Not(self_view(S).keys),
                         props=('C03',), inline=('keys',))],
        'indexable': [Variant('flag', post=post_bool_property(lambda S: self_view(S).idx), props=('C02',),
                              inline=('indexable',))],
        'ordered': [Variant('flag', post=post_bool_property(lambda S: self_view(S).ord_), props=('C13',),
                            inline=('ordered',))],
    }


CONTRACTS = [ListDatasetC(), DictDatasetC(), MapDatasetC()]

from contracts.copying import copy_variants  # noqa
for _c in CONTRACTS:
    if 'copy' not in _c.methods:
        _c.methods = dict(_c.methods, copy=copy_variants())  # add_copy
