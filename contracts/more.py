"""Contracts: prefetch, parallel map, reshuffle, local shuffle, cycle, apply, dynamic bucket
dataset (copy/flags), intersperse (given the ORDER table invariant)."""
import z3

from pyvc import smt, views
from pyvc.smt import I
from pyvc.values import *          # noqa
from pyvc.values import eqv, veq   # noqa
from pyvc.engine import GenStreamV, RangeV, Outcome, IterV
from pyvc.contract import *        # noqa
from pyvc.views import View, AbsView, AX, Out
from contracts import spec
from contracts.leaves import self_view, _std_getitem_variants, _iter_variants, MapView
from contracts.stages import flag_variants
from contracts.stages2 import F, _cnt_kept, _dropped
from contracts.copying import copy_variants


def eqv(a, b):
    r = veq(a, b)
    return smt.F if r is None else r


# ------------------------------------------------- call models of the parallel utilities
def _source_elem(eng, st, src):
    """(length, elem(k) -> [Out]) of the iterable handed to a parallel utility"""
    return eng.iter_descr(src, st)


def lpm_model(eng, st, args, kwargs):
    """Contract of parallel_utils.lazy_parallel_map as proved in contracts/parallel.py (for
    sources that do not raise; a raising source is known finding F19): a stream whose k-th
    element is function(source[k]), same order, each once.  With more than one worker the
    environment guard may raise before the first element."""
    fn, src = args[0], args[1]
    length, elem = _source_elem(eng, st, src)
    mw = kwargs.get('max_workers')
    guard_e = eng.new_exc(st, 'OSError')

    def el(k):
        outs = []
        for so in elem(k):
            if so.exc is not None:
                outs.append(so)
                continue
            for fo in eng.symbolic_apply(fn, [so.value], st):
                outs.append(Out(z3.And(so.cond, fo.cond), value=fo.value, exc=fo.exc, facts=so.facts + fo.facts))
        return outs
    g = GenStreamV(length, el, 'lazy_parallel_map')
    g.fn, g.source, g.kw = fn, src, kwargs
    return [(st, g)]


def stp_model(eng, st, args, kwargs):
    """Contract of single_thread_prefetch as proved in contracts/stp.py: the stream of plain
    iteration of its first argument (same items, same order, errors at their position)."""
    src = args[0]
    length, elem = _source_elem(eng, st, src)
    g = GenStreamV(length, elem, 'single_thread_prefetch')
    g.source = src
    return [(st, g)]


def parallel_hooks():
    def resolve_call(eng, st, f, args, kwargs, node):
        if isinstance(f, BuiltinV) and f.name == 'lazy_dataset.parallel_utils.lazy_parallel_map':
            return lpm_model(eng, st, args, kwargs)
        if isinstance(f, BuiltinV) and f.name == 'lazy_dataset.parallel_utils.single_thread_prefetch':
            return stp_model(eng, st, args, kwargs)
        if isinstance(f, BuiltinV) and f.name == 'object':
            # a fresh sentinel object: distinct from every example value
            o = smt.fresh('sentinel', smt.Obj)
            _d = z3.Const('_sd', smt.DS)
            _i = z3.Int('_si')
            # A-FRESH: a private object() created here is not the value of any example
            AX.add(z3.ForAll([_d, _i], smt.VAL(_d, _i) != o, patterns=[smt.VAL(_d, _i)]))
            return [(st, ObjV(o))]
        if isinstance(f, BoundV) and isinstance(f.recv, (DSRefV,)) and f.name == '__getitem__':
            return None
        return None
    from contracts.stages2 import _catch_hooks
    h = dict(_catch_hooks())
    h['resolve_call'] = resolve_call
    return h


# ---------------------------------------------------------------- PrefetchDataset
class PrefetchView(View):
    def __init__(self, inp, cfe_none):
        self.inp = inp
        self.idx = smt.F
        self.len_ = z3.And(inp.len_, cfe_none)
        self.ord_ = inp.ord_
        self.items = smt.F
        self.name = 'prefetch(%s)' % inp.name

    def n(self):
        return self.inp.n()

    def raises(self, i):
        return self.inp.raises(i)

    def val(self, i):
        return self.inp.val(i)

    def exc(self, i):
        return self.inp.exc(i)

    def key(self, i):
        return self.inp.key(i)


def _prefetch_fields(single, cfe):
    def fields(self, eng, st):
        nw = smt.fresh('num_workers', smt.Int)
        bs = smt.fresh('buffer_size', smt.Int)
        st.pc.append(nw >= 1)
        st.pc.append(bs >= nw)
        if single:
            st.pc.append(nw == 1)
        else:
            st.pc.append(nw >= 2)
        d = smt.fresh('d_in', smt.DS)
        c = {'none': NONE, 'true': BoolV(True), 'spec': ExcSpecV(smt.fresh('cfe', smt.Obj))}[cfe]
        return {'input_dataset': DSRefV(d), 'num_workers': IntV(nw), 'buffer_size': IntV(bs),
                'backend': StrV('t'), 'catch_filter_exception': c}
    return fields


def _pf_view(S):
    f = F(S)
    return PrefetchView(AbsView(f['input_dataset'].t), z3.BoolVal(isinstance(f['catch_filter_exception'], NoneV)))


def _env_guard(S, o):
    return z3.And(exc_is(o.exc, S.eng.hier, 'OSError'), S.out_n == 0)


def _prefetch_plain_clauses(with_key, allow_guard):
    """transparent prefetch: yields OUT(in, k) in order; an exception of example k arrives after
    the k earlier ones; (multi worker: the environment guard may refuse before the first)."""
    def on_yield(S, value):
        d = AbsView(F(S)['input_dataset'].t)
        o = S.out_n
        exp = TupleV([KeyV(d.key(o)), d.val(o)]) if with_key else d.val(o)
        return [('prefetch:yield', z3.And(o < d.n(), z3.Not(d.raises(o)), eqv(value, exp)))]

    def post(S, o):
        d = AbsView(F(S)['input_dataset'].t)
        if o.kind in ('normal', 'return'):
            return [('prefetch:end', S.out_n == d.n())]
        if o.kind == 'raise':
            pos = z3.And(S.out_n < d.n(), d.raises(S.out_n), o.exc.t == d.exc(S.out_n))
            return [('prefetch:exception-position', z3.Or(pos, _env_guard(S, o)) if allow_guard else pos)]
        return [('outcome', smt.F)]
    return on_yield, post


def _prefetch_items_or_refuse():
    """items() behind prefetch: every yielded pair is the right (key, example) pair, and the
    iteration either delivers all of them or refuses loudly (C03)."""
    oy, _ = _prefetch_plain_clauses(True, True)

    def post(S, o):
        d = AbsView(F(S)['input_dataset'].t)
        if o.kind in ('normal', 'return'):
            return [('prefetch-items:complete-or-refused', S.out_n == d.n())]
        return [('prefetch-items:complete-or-refused', z3.BoolVal(o.kind == 'raise'))]
    return oy, post


def _prefetch_catch_clauses(ordl):
    """catch_filter_exception: exactly the examples whose evaluation raises a selected exception
    are omitted; others arrive in order; other exception types propagate at their position."""
    def E(S):
        c = F(S)['catch_filter_exception']
        return c.t if isinstance(c, ExcSpecV) else None

    def dropped(S, d, j):
        e = E(S)
        if e is None:       # True selects FilterException
            return z3.And(smt.RAISES(d, j), smt.SUB(smt.CLS(smt.EXC(d, j)), S.eng.hier.const('FilterException')))
        return z3.And(smt.RAISES(d, j), smt.CATCH(e, smt.EXC(d, j)))

    def cnt(S, d):
        j = z3.Int('_pcj')
        return smt.FOLDS.sum(j, z3.If(dropped(S, d, j), I(0), I(1)))

    def on_yield(S, value):
        d = F(S)['input_dataset'].t
        j = S.ks[ordl]
        return [('prefetch-catch:yield-is-surviving-example',
                 z3.And(j < smt.N(d), z3.Not(smt.RAISES(d, j)), eqv(value, ObjV(smt.VAL(d, j))))),
                ('prefetch-catch:yield-position', S.out_n == cnt(S, d)(j))]

    def post(S, o):
        d = F(S)['input_dataset'].t
        C = cnt(S, d)
        if o.kind in ('normal', 'return'):
            return [('prefetch-catch:end-count', S.out_n == C(smt.N(d)))]
        if o.kind == 'raise':
            if ordl not in S.ks:
                return [('prefetch-catch:early-failure-is-the-environment-guard', _env_guard(S, o))]
            j = S.ks[ordl]
            return [('prefetch-catch:other-exception-propagates-at-its-position',
                     z3.Or(z3.And(S.out_n == C(j), j < smt.N(d), smt.RAISES(d, j), z3.Not(dropped(S, d, j)),
                                  o.exc.t == smt.EXC(d, j)), _env_guard(S, o)))]
        return [('outcome', smt.F)]

    def inv(S):
        return S.out_n == cnt(S, F(S)['input_dataset'].t)(S.k)
    return on_yield, post, inv


def _mk_prefetch(single, cfe):
    name = 'PrefetchDataset'

    class C(ClassContract):
        cls = name
        fields = _prefetch_fields(single, cfe)

        def view(self, eng, st):
            f = st.heap[eng.self_oid]
            return PrefetchView(AbsView(f['input_dataset'].t), z3.BoolVal(isinstance(f['catch_filter_exception'], NoneV)))
    tag = ('single' if single else 'multi') + ',cfe=' + cfe
    req = lambda S: smt.IDX(F(S)['input_dataset'].t)      # noqa  (multi worker prefetch needs len and d[i])
    ms = {}
    if cfe == 'none':
        oy, po = _prefetch_plain_clauses(False, not single)
        oyk, pok = _prefetch_items_or_refuse()
        ms['__iter__'] = [
            Variant(tag + ',values', params={'with_key': 'false'}, generator=True, on_yield=oy, post=po,
                    requires=None if single else req, hooks=parallel_hooks(), props=('C01', 'C04'),
                    inline=('_single_thread_prefetch',)),
            Variant(tag + ',items', params={'with_key': 'true'}, generator=True, on_yield=oyk, post=pok,
                    requires=None if single else req, hooks=parallel_hooks(), props=('C03',),
                    inline=('_single_thread_prefetch', 'keys')),
            # C04 quantifies over "value and key iteration": when the input offers keys (items), key iteration behind
            # prefetch delivers the sequential pairs -- it may not refuse (C03 alone would allow a loud refusal)
            Variant(tag + ',items-delivered', params={'with_key': 'true'}, generator=True, on_yield=oyk,
                    post=_prefetch_plain_clauses(True, not single)[1],
                    requires=(lambda S: smt.ITEMS(F(S)['input_dataset'].t)) if single
                    else (lambda S: z3.And(smt.IDX(F(S)['input_dataset'].t), smt.KEYS(F(S)['input_dataset'].t), smt.ITEMS(F(S)['input_dataset'].t))),
                    hooks=parallel_hooks(), props=('C04',), inline=('_single_thread_prefetch', 'keys')),
        ]
        if not single:
            from contracts.stages import _split_refusal
            oyr, por = items_refused_clauses(self_view)
            ms['__iter__'] += _split_refusal([Variant('items-refused', params={'with_key': 'true'}, generator=True, on_yield=oyr, post=por,
                                                      requires=lambda S: z3.And(smt.IDX(F(S)['input_dataset'].t), z3.Not(smt.KEYS(F(S)['input_dataset'].t))),
                                                      hooks=parallel_hooks(), props=('C03',), inline=('_single_thread_prefetch', 'keys'))],
                                             lambda S: F(S)['input_dataset'].t)
        ms['__len__'] = [Variant(tag, post=post_len(self_view), props=('C02', 'C04'))]
        ms['copy'] = copy_variants()
        ms.update(flag_variants())
    elif not single:
        oy, po, inv = _prefetch_catch_clauses('2')
        ms['__iter__'] = [Variant(tag + ',values', params={'with_key': 'false'}, generator=True, on_yield=oy, post=po,
                                  requires=req, hooks=parallel_hooks(), loops={'2': inv}, props=('C01', 'C04', 'C06', 'C14'))]
        ms['__len__'] = [Variant(tag, post=post_len(self_view), props=('C02',))]
    C.methods = ms
    C.__name__ = 'PrefetchDatasetC_' + tag
    return C()


PREFETCH = [_mk_prefetch(True, 'none'), _mk_prefetch(False, 'none'), _mk_prefetch(False, 'true'),
            _mk_prefetch(False, 'spec')]


# ---------------------------------------------------------------- ParMapDataset
def _parmap_post(with_key):
    def post(S, o):
        f = F(S)
        if o.kind != 'return' or not isinstance(o.value, GenStreamV):
            return [('parmap:returns-lazy_parallel_map-stream', smt.F)]
        g = o.value
        ok_fn = (g.fn is f['map_function']) if not with_key else True
        if with_key:
            srcv = g.source
            if isinstance(srcv, IterV):          # a generator object: its stream
                srcv = S.st.heap[srcv.oid]['stream']
            src_ok = isinstance(srcv, StreamV) and srcv.with_key
        else:
            src_ok = isinstance(g.source, DSRefV) and g.source.t.eq(f['input_dataset'].t)
        kw = g.kw
        cfg = kw.get('buffer_size') is f['buffer_size'] and kw.get('max_workers') is f['num_workers'] \
            and kw.get('backend') is f['backend']
        out = [('parmap:maps-map_function-over-the-input-in-order', z3.BoolVal(bool(ok_fn and src_ok))),
               ('parmap:passes-its-buffer_size-num_workers-backend', z3.BoolVal(bool(cfg)))]
        if with_key:
            # element k of the stream: (key, map_function(value))
            d = AbsView(f['input_dataset'].t)
            k = smt.fresh('pk', smt.Int)
            outs = g.elem(k)
            fn = f['map_function'].t
            x = d.val(k).t
            good = []
            for eo in outs:
                if eo.exc is not None:
                    good.append(z3.Implies(eo.cond, z3.Or(z3.And(d.raises(k), eo.exc.t == d.exc(k)),
                                                          z3.And(z3.Not(d.raises(k)), smt.APP_R(fn, x),
                                                                 eo.exc.t == smt.APP_E(fn, x)))))
                else:
                    good.append(z3.Implies(eo.cond, z3.And(z3.Not(d.raises(k)), z3.Not(smt.APP_R(fn, x)),
                                                           eqv(eo.value, TupleV([KeyV(d.key(k)), ObjV(smt.APP_V(fn, x))])))))
            out.append(('parmap:items-element-is-(key,f(value))', z3.Implies(z3.And(k >= 0, k < d.n()), z3.And(*good))))
        return out
    return post


class ParMapDatasetC(ClassContract):
    cls = 'ParMapDataset'

    def fields(self, eng, st):
        nw = smt.fresh('num_workers', smt.Int)
        st.pc.append(nw >= 1)
        return {'map_function': FnV(smt.fresh('map_fn', smt.Fn)), 'input_dataset': DSRefV(smt.fresh('d_in', smt.DS)),
                'num_workers': IntV(nw), 'buffer_size': IntV(smt.fresh('buffer_size', smt.Int)), 'backend': StrV('t')}

    def view(self, eng, st):
        f = st.heap[eng.self_oid]
        return MapView(AbsView(f['input_dataset'].t), f['map_function'].t)

    def _hooks():
        h = parallel_hooks()

        def builtin_hook(eng, st, name, args, kwargs, node):
            if name == 'functools.partial':
                # functools.partial(self._with_key_map_function, func=f): a callable (key, ex) -> ...
                c = PartialV(args[0], args[1:], kwargs)
                return [(st, c)]
            return None
        base = h['resolve_call']

        def resolve_call(eng, st, f, args, kwargs, node):
            if isinstance(f, PartialV):
                kw = dict(f.kwargs)
                kw.update(kwargs)
                return eng.call(f.func, list(f.args) + list(args), kw, st, node)
            return base(eng, st, f, args, kwargs, node)
        h['resolve_call'] = resolve_call
        h['builtin_hook'] = builtin_hook
        return h

    methods = dict(
        __iter__=[Variant('values', params={'with_key': 'false'}, post=_parmap_post(False), hooks=_hooks(),
                          props=('C01', 'C04')),
                  Variant('items', params={'with_key': 'true'}, post=_parmap_post(True), hooks=_hooks(),
                          requires=lambda S: smt.ITEMS(F(S)['input_dataset'].t), props=('C03', 'C04'))],
        __len__=[Variant('len', post=post_len(self_view), props=('C02', 'C04'))],
        copy=copy_variants(),
        **flag_variants())


class PartialV(Val):
    kind = 'partial'

    def __init__(self, func, args, kwargs):
        self.func, self.args, self.kwargs = func, args, kwargs


# ---------------------------------------------------------------- CycleDataset
def _cycle_clauses(with_key):
    """cycle(): position q*n + k carries xs[k] (== xs[p mod n]); every pass makes progress."""
    def on_yield(S, value):
        d = AbsView(F(S)['input_dataset'].t)
        q, k = S.ks['0'], S.ks['0.0']
        exp = TupleV([KeyV(d.key(k)), d.val(k)]) if with_key else d.val(k)
        return [('cycle:yield', z3.And(S.out_n == q * d.n() + k, k >= 0, k < d.n(), z3.Not(d.raises(k)),
                                       eqv(value, exp)))]

    def post(S, o):
        d = AbsView(F(S)['input_dataset'].t)
        if o.kind == 'raise':
            if '0.0' not in S.ks:
                return [('cycle:exception', smt.F)]
            q, k = S.ks['0'], S.ks['0.0']
            return [('cycle:exception-position', z3.And(S.out_n == q * d.n() + k, d.raises(k), o.exc.t == d.exc(k)))]
        # the eager semantics of cycling an empty dataset is the empty iteration
        return [('cycle:ends-only-when-the-input-is-empty', z3.And(d.n() == 0, S.out_n == 0))]
    return on_yield, post


def _cycle_loops():
    def outer(S):
        d = AbsView(F(S)['input_dataset'].t)
        # progress: every completed pass yielded at least once (otherwise the iteration would
        # spin forever where itertools.cycle([]) simply ends)
        return z3.And(S.out_n == S.k * d.n(), S.out_n >= S.k)

    def inner(S):
        d = AbsView(F(S)['input_dataset'].t)
        inv = S.out_n == S.ks['0'] * d.n() + S.k
        if 'empty' in S.st.env:          # the pass remembers whether it has yielded anything
            inv = z3.And(inv, S.v.empty == (S.k == 0))
        return inv
    return {'0': outer, '0.0': inner}


class CycleDatasetC(ClassContract):
    cls = 'CycleDataset'

    def fields(self, eng, st):
        return {'input_dataset': DSRefV(smt.fresh('d_in', smt.DS))}

    def view(self, eng, st):
        return None

    _oy, _po = _cycle_clauses(False)
    _oyk, _pok = _cycle_clauses(True)
    methods = dict(
        __iter__=[Variant('values', params={'with_key': 'false'}, generator=True, on_yield=_oy, post=_po,
                          loops=_cycle_loops(), props=('C01',)),
                  Variant('items', params={'with_key': 'true'}, generator=True, on_yield=_oyk, post=_pok,
                          requires=lambda S: smt.ITEMS(F(S)['input_dataset'].t), loops=_cycle_loops(), props=('C03',))],
    )


CONTRACTS = PREFETCH + [ParMapDatasetC(), CycleDatasetC()]
