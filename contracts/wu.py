"""NumpySerializedList (immutable_warranty='wu'): the examples are pickled into ONE byte buffer;
`_addr[i]` is the end offset of example i.  Representation invariant:
   n = len(_addr) >= 0;  OFF(0) = 0, OFF(i+1) = _addr[i];  OFF is non-decreasing;
   the bytes _lst[OFF(i):OFF(i+1)] are pickle.dumps(ORIG(i)).
List semantics demanded of __getitem__ (it stands in for a python list inside ListDataset, C02/C09):
   -n <= idx < n  ->  a fresh object equal to ORIG(idx mod n);   otherwise IndexError.
Assumed: numpy integer indexing (negative wrap, IndexError out of range), basic slicing of the byte
buffer, pickle.loads(memoryview(bytes of dumps(x))) is a fresh object equal to x."""
import z3

from pyvc import smt
from pyvc.smt import I
from pyvc.values import *          # noqa
from pyvc.engine import NdArrV, PySliceV
from pyvc.contract import *        # noqa
from pyvc.views import AX
from contracts.stages2 import F

ORIG = z3.Function('ORIG', smt.Int, smt.Obj)           # the example stored at position i
LOADED_FROM = z3.Function('LOADED_FROM', smt.Int, smt.Int, smt.Obj)   # pickle.loads of the bytes [a, b)
IS_FRESH = z3.Function('IS_FRESH_LOAD', smt.Obj, smt.Bool)


class BufV(Val):
    kind = 'bytebuffer'

    def __init__(self, tag, lo=None, hi=None):
        self.tag, self.lo, self.hi = tag, lo, hi


def _fields(self, eng, st):
    n = smt.fresh('n', smt.Int)
    A = z3.Function('ADDR!%d' % next(smt._counter), smt.Int, smt.Int)
    oid = eng.new_oid()
    st.heap[oid] = {'n': n, 'f': (lambda q: A(q)), 'inv': None}
    j = z3.Int('_wj')
    st.pc += [n >= 0,
              z3.ForAll([j], z3.Implies(z3.And(j >= 0, j < n), A(j) >= z3.If(j == 0, 0, A(j - 1))), patterns=[A(j)])]
    self._A, self._n = A, n
    return {'_lst': BufV('all'), '_addr': NdArrV(oid)}


def off(A, i):
    return z3.If(i == 0, I(0), A(i - 1))


def _hooks():
    def subscript_hook(eng, st, recv, idx, node):
        if isinstance(recv, NdArrV) and isinstance(idx, IntV):
            cell = st.heap[recv.oid]
            n, f = cell['n'], cell['f']
            return eng.seq_index(st, n, idx.t, lambda p: NpIntV(f(p)))
        if isinstance(recv, BufV) and recv.tag == 'all' and isinstance(idx, SymSliceV):
            return [(st, BufV('slice', idx.lo, idx.hi))]
        return None

    def any_method(eng, st, recv, name, args, kwargs):
        if isinstance(recv, NpIntV) and name == 'item' and not args:
            return [(st, IntV(recv.t))]
        return None

    def builtin_hook(eng, st, name, args, kwargs, node):
        if name == 'memoryview' and len(args) == 1:
            return [(st, args[0])]
        if name == 'pickle.loads' and len(args) == 1 and isinstance(args[0], BufV) and args[0].tag == 'slice':
            v = LOADED_FROM(args[0].lo, args[0].hi)
            AX.add(IS_FRESH(v))
            return [(st, ObjV(v))]
        return None

    def slice_expr(eng, st, node):
        if node.step is None and node.lower is not None and node.upper is not None:
            res = []
            for s2, lo in eng.eval(node.lower, st):
                for s3, hi in eng.eval(node.upper, s2):
                    if isinstance(lo, IntV) and isinstance(hi, IntV):
                        res.append((s3, SymSliceV(lo.t, hi.t)))
            if res:
                return res
        return None

    def len_hook(eng, st, x):
        # len(self) runs the real __len__ of the class
        if isinstance(x, InstV) and x.cls == 'NumpySerializedList':
            return eng.inline_call('core:NumpySerializedList.__len__', [x], {}, st)
        return None

    def any_getattr(eng, st, recv, attr):
        if isinstance(recv, NpIntV):
            return [(st, BoundV(recv, attr))]
        return None
    return dict(subscript_hook=subscript_hook, any_method=any_method, builtin_hook=builtin_hook, any_getattr=any_getattr,
                slice_expr=slice_expr, len_hook=len_hook)


class NpIntV(Val):
    kind = 'npint'

    def __init__(self, t):
        self.t = t


class SymSliceV(Val):
    kind = 'symslice'

    def __init__(self, lo, hi):
        self.lo, self.hi = lo, hi


def _getitem_post(S, o):
    c = S.eng.contract
    A, n = c._A, c._n
    idx = S.old.idx
    inr = z3.And(idx >= -n, idx < n)
    p = z3.If(idx < 0, idx + n, idx)
    # the bytes of example p are the range [OFF(p), OFF(p+1)) and loading them gives a fresh equal object
    AX.add(z3.Implies(inr, LOADED_FROM(off(A, p), A(p)) == ORIG(p)))
    if o.kind == 'return':
        return [('C02:list-semantics:only-in-range-indices-return', inr),
                ('C02:list-semantics:returns-the-example-at-that-position', z3.Implies(inr, o.value.t == ORIG(p))),
                ('C09:every-read-is-a-fresh-load', IS_FRESH(o.value.t))]
    if o.kind == 'raise':
        return [('C02:list-semantics:IndexError-exactly-out-of-range', z3.And(z3.Not(inr), exc_is(o.exc, S.eng.hier, 'IndexError')))]
    return [('outcome', smt.F)]


class NumpySerializedListC(ClassContract):
    cls = 'NumpySerializedList'
    fields = _fields

    def view(self, eng, st):
        return None
    methods = {
        '__getitem__': [Variant('int' if k_ == 'int' else 'int:' + k_, params={'idx': k_}, post=_getitem_post, hooks=_hooks(),
                                props=('C02', 'C09'), inline=('__getitem__', '__len__')) for k_ in ('int', 'np.int8', 'np.uint8')],
        '__len__': [Variant('len', post=lambda S, o: [('C02:len-is-the-number-of-stored-examples',
                                                      z3.And(z3.BoolVal(o.kind == 'return'), o.value.t == S.eng.contract._n)
                                                      if o.kind == 'return' else smt.F)], hooks=_hooks(), props=('C02',),
                            inline=('__len__',))],
    }


CONTRACTS = [NumpySerializedListC()]


# ---------------------------------------------------------------- __init__ establishes the representation invariant
PBYTES = z3.Function('PICKLED', smt.Obj, smt.Obj)          # pickle.dumps(x, protocol=-1) viewed as a uint8 array
PLEN = z3.Function('PICKLED_LEN', smt.Obj, smt.Int)        # its length (>= 1)


def _init_hooks():
    h = _hooks()
    b0 = h['builtin_hook']

    def builtin_hook(eng, st, name, args, kwargs, node):
        if name == 'pickle.dumps' and len(args) == 1 and isinstance(args[0], ObjV):
            return [(st, ObjV(PBYTES(args[0].t)))]
        if name == 'numpy.frombuffer' and len(args) == 1 and isinstance(args[0], ObjV):
            return [(st, args[0])]                       # the same bytes, as a uint8 array
        if name == 'numpy.asarray' and len(args) == 1 and isinstance(args[0], SymSeqV) and isinstance(args[0].at(z3.Int('_q')), IntV):
            seq = args[0]
            oid = eng.new_oid()
            st.heap[oid] = {'n': seq.length, 'f': (lambda q: seq.at(q).t), 'inv': None}
            return [(st, NdArrV(oid))]
        if name == 'numpy.cumsum' and len(args) == 1 and isinstance(args[0], NdArrV):
            cell = st.heap[args[0].oid]
            j = z3.Int('_csj')
            tot = smt.FOLDS.sum(j, cell['f'](j))
            smt.FOLDS.note_index(cell['n'])
            oid = eng.new_oid()
            st.heap[oid] = {'n': cell['n'], 'f': (lambda q, tot=tot: tot(q + 1)), 'inv': None, 'cumsum_of': (cell['f'], tot)}
            return [(st, NdArrV(oid))]
        if name == 'numpy.concatenate' and len(args) == 1 and isinstance(args[0], SymSeqV):
            seq = args[0]
            res = []
            for s2, empty in eng.branch(st, seq.length == 0):
                if empty:
                    eng.raise_(s2, eng.new_exc(s2, 'ValueError'))       # "need at least one array to concatenate"
                else:
                    b = BufV('all')
                    b.parts = seq
                    res.append((s2, b))
            return res
        return b0(eng, st, name, args, kwargs, node)

    def len_hook(eng, st, x):
        if isinstance(x, ObjV):
            t = z3.simplify(x.t)
            if z3.is_app(t) and t.decl().eq(PBYTES):
                x_ = z3.Const('_px', smt.Obj)
                AX.add(z3.ForAll([x_], PLEN(x_) >= 1, patterns=[PLEN(x_)]))      # a pickle is never empty
                return [(st, IntV(PLEN(t.arg(0))))]
        return None
    h['builtin_hook'] = builtin_hook
    h['len_hook'] = len_hook
    return h


def _wu_init_post(S, o):
    lst = S.eng.entry_env['lst']
    n = lst.length
    if o.kind == 'raise':
        # numpy cannot concatenate zero arrays: an EMPTY list is refused at construction (ValueError), nothing else is
        return [('wu-init:only-an-empty-list-is-refused(ValueError)', z3.And(n == 0, exc_is(o.exc, S.eng.hier, 'ValueError')))]
    me = S.st.heap[S.eng.self_oid]
    addr, buf = me.get('_addr'), me.get('_lst')
    if not (isinstance(addr, NdArrV) and isinstance(buf, BufV) and getattr(buf, 'parts', None) is not None):
        return [('C09:wu-invariant:address-table-and-one-byte-buffer', smt.F)]
    cell = S.st.heap[addr.oid]
    A = cell['f']
    parts = buf.parts
    p = smt.fresh('p', smt.Int)
    inr = z3.And(p >= 0, p < n)
    j = z3.Int('_wq')
    tot = smt.FOLDS.sum(j, PLEN(lst.at(j).t))
    smt.FOLDS.note_index(p)
    smt.FOLDS.note_index(p + 1)
    el = parts.at(p)
    return [('C09:wu-invariant:one-address-per-example', cell['n'] == n),
            ('C09:wu-invariant:the-buffer-concatenates-the-pickled-examples-in-list-order',
             z3.And(parts.length == n, z3.Implies(inr, el.t == PBYTES(lst.at(p).t) if isinstance(el, ObjV) else smt.F))),
            ('C09:wu-invariant:address-p-is-the-end-offset-of-example-p(cumulative-length-in-the-same-order)',
             z3.Implies(inr, z3.And(A(p) == tot(p + 1), off(A, p) == tot(p)))),
            ('C09:wu-invariant:addresses-are-non-decreasing', z3.Implies(inr, A(p) >= off(A, p))),
            ('C09:wu-init:the-callers-list-object-is-not-kept', z3.BoolVal(all(v is not lst for v in me.values())))]


class NumpySerializedListInitC(ClassContract):
    cls = 'NumpySerializedList'

    def fields(self, eng, st):
        return {}

    def view(self, eng, st):
        return None
    methods = {'__init__': [Variant('pack', params={'lst': (lambda e, s: _mk_orig_list(e, s))}, post=_wu_init_post,
                                    hooks=_init_hooks(), props=('C09', 'C02'))]}


def _mk_orig_list(eng, st):
    n = smt.fresh('n', smt.Int)
    st.pc.append(n >= 0)
    return SymSeqV(n, lambda e: ObjV(ORIG(e)), 'list')


CONTRACTS = CONTRACTS + [NumpySerializedListInitC()]
