"""Constructors establish the class invariants that the method contracts assume (the invariant of
each class contract's `fields()` is *proved* here from the real __init__, closing the assumption)."""
import z3

from pyvc import smt
from pyvc.smt import I
from pyvc.values import *          # noqa
from pyvc.engine import SetV, NdArrV, RngV, IntDictV, SliceSpecV
from pyvc.contract import *        # noqa
from pyvc.views import AX, Out
from contracts import spec
from contracts.effects import evals
from contracts.shuffle import rng_hooks, bij_clauses


def _inputs(eng, st):
    m = smt.fresh('m', smt.Int)
    st.pc.append(m >= 0)
    # `*input_datasets`: the varargs tuple
    return DSTupleV(eng.self_oid, m)


def _int_set_hooks():
    """set(<list of ints>): cardinality 1  <=>  all elements equal (for a non-empty list); 0 <=> empty"""
    def builtin_hook(eng, st, name, args, kwargs, node):
        if name == 'set' and len(args) == 1 and isinstance(args[0], SymSeqV) and isinstance(args[0].at(z3.Int('_q')), IntV):
            seq = args[0]
            c = smt.fresh('card', smt.Int)
            j = z3.Int('_sj')
            alleq = z3.ForAll([j], z3.Implies(z3.And(j >= 0, j < seq.length), seq.at(j).t == seq.at(I(0)).t),
                              patterns=[seq.at(j).t])
            st.pc += [c >= 0, c <= seq.length, (c == 0) == (seq.length == 0),
                      z3.Implies(seq.length >= 1, (c == 1) == alleq)]
            return [(st, SetV(c))]
        return None
    return {'builtin_hook': builtin_hook}


def _zip_init_post(S, o):
    eng = S.eng
    t = eng.entry_env['input_datasets']
    m = t.m
    ow = t.owner
    me = S.st.heap[eng.self_oid]
    if o.kind == 'raise':
        # rejected: no input, an input without a length, or lengths that differ -- never silently accepted
        return [('zip-init:evaluates-nothing', z3.BoolVal(not [e for e in evals(S) if e[0] != 'forall' or any(x[0] in ('get', 'app', 'pull') for x in e[3])]))]
    return [('C01:ZipDataset-invariant:at-least-one-input', m >= 1),
            ('C01:ZipDataset-invariant:every-input-has-a-length', spec.all_inputs(ow, m, smt.LEN)),
            ('C01:ZipDataset-invariant:all-lengths-equal',
             spec.all_inputs(ow, m, lambda d: smt.N(d) == smt.N(spec.IN(ow, I(0))))),
            ('init:field-input_datasets', z3.BoolVal(me.get('input_datasets') is t)),
            ('C08:construction-evaluates-no-example', z3.BoolVal(not [e for e in evals(S) if e[0] in ('get', 'app', 'pull', 'getkey')]))]


class ZipInitC(ClassContract):
    cls = 'ZipDataset'

    def view(self, eng, st):
        return None
    methods = {'__init__': [Variant('construct', params={'input_datasets': _inputs}, post=_zip_init_post,
                                    hooks=_int_set_hooks(), props=('C01', 'C08'))]}


def _concat_init_post(S, o):
    t = S.eng.entry_env['input_datasets']
    me = S.st.heap[S.eng.self_oid]
    return [('init:no-exception', z3.BoolVal(o.kind != 'raise')),
            ('init:field-input_datasets', z3.BoolVal(me.get('input_datasets') is t)),
            ('C08:construction-evaluates-nothing', z3.BoolVal(not evals(S)))]


class ConcatInitC(ClassContract):
    cls = 'ConcatenateDataset'

    def view(self, eng, st):
        return None
    methods = {'__init__': [Variant('construct', params={'input_datasets': _inputs}, post=_concat_init_post,
                                    props=('C01', 'C08'))]}


# ---- ReShuffleDataset.__init__: the permutation starts as the identity of length len(input)
def _rs_init_post(S, o):
    me = S.st.heap[S.eng.self_oid]
    env = S.eng.entry_env
    d = env['input_dataset'].t
    if o.kind == 'raise':
        return [('reshuffle-init:needs-a-length', z3.Not(smt.LEN(d)))]
    arr = me.get('_permutation')
    if not isinstance(arr, NdArrV):
        return [('reshuffle-init:permutation-array', smt.F)]
    cell = S.st.heap[arr.oid]
    return [('C12:ReShuffleDataset-invariant:permutation-of-the-right-length', cell['n'] == smt.N(d))] \
        + bij_clauses(cell, 'C12:ReShuffleDataset-invariant:initial-permutation') \
        + [('C13:keeps-the-given-generator', z3.BoolVal(me.get('rng') is env['rng'])),
           ('init:field-input_dataset', z3.BoolVal(me.get('input_dataset') is env['input_dataset'])),
           ('C08:construction-evaluates-no-example', z3.BoolVal(not [e for e in evals(S) if e[0] in ('get', 'app', 'pull', 'getkey')]))]


class ReShuffleInitC(ClassContract):
    cls = 'ReShuffleDataset'

    def view(self, eng, st):
        return None
    methods = {'__init__': [Variant('construct', params={'input_dataset': 'ds', 'rng': (lambda e, s: RngV(smt.fresh('rng', smt.Rng)))},
                                    post=_rs_init_post, hooks=rng_hooks(), props=('C12', 'C13', 'C08'))]}


# ---- CacheDataset.__init__: indexable input, an EMPTY cache (the representation invariant holds vacuously)
def _cache_init_hooks():
    from contracts.cache import cache_hooks
    h = cache_hooks()

    def dict_display(eng, st, node):
        if not node.keys:
            oid = eng.new_oid()
            st.heap[oid] = {'dom': (lambda r: smt.F), 'sto': (lambda r: smt.fresh('nothing', smt.Obj))}
            return [(st, IntDictV(oid))]
        return None

    def resolve_call(eng, st, f, args, kwargs, node):
        if isinstance(f, ClassV) and f.name == '_CacheWrapper':
            oid = eng.new_oid()
            st.heap[oid] = {}
            inst = InstV(oid, '_CacheWrapper')
            outs = eng.inline_call('core:_CacheWrapper.__init__', [inst] + list(args), kwargs, st)
            return [(s2, inst) for s2, _ in outs]
        return None
    h.update(dict_display=dict_display, resolve_call=resolve_call)
    return h


def _cache_init_post(S, o):
    me = S.st.heap[S.eng.self_oid]
    env = S.eng.entry_env
    d = env['input_dataset'].t
    if o.kind == 'raise':
        return [('cache-init:only-rejects-a-non-indexable-input', z3.And(z3.Not(smt.IDX(d)), exc_is(o.exc, S.eng.hier, 'AssertionError')))]
    w = me.get('_cache')
    ok = isinstance(w, InstV) and isinstance(S.st.heap[w.oid].get('cache'), IntDictV)
    out = [('C10:CacheDataset-invariant:indexable-input', smt.IDX(d)),
           ('C10:CacheDataset-invariant:a-private-cache-wrapper', z3.BoolVal(bool(ok)))]
    if ok:
        wf = S.st.heap[w.oid]
        c = S.st.heap[wf['cache'].oid]
        r = z3.Int('r_generic')
        out.append(('C10:CacheDataset-invariant:the-cache-starts-empty', z3.Not(c['dom'](r))))
        out.append(('C09:pickle-mode-by-default', z3.BoolVal(isinstance(wf.get('_serialize'), BuiltinV) and wf['_serialize'].name == 'pickle.dumps'
                                                               and isinstance(wf.get('_deserialize'), BuiltinV) and wf['_deserialize'].name == 'pickle.loads')))
    out.append(('C08:construction-evaluates-nothing', z3.BoolVal(not evals(S))))
    return out


class CacheInitC(ClassContract):
    cls = 'CacheDataset'

    def view(self, eng, st):
        return None
    methods = {'__init__': [Variant('construct', params={'input_dataset': 'ds', 'keep_mem_free': 'none'},
                                    post=_cache_init_post, hooks=_cache_init_hooks(), props=('C10', 'C09', 'C08'))]}


CONTRACTS = [ZipInitC(), ConcatInitC(), ReShuffleInitC(), CacheInitC()]


# ---- SliceDataset.__init__: numpy normalisation of the selection (assumed contract of numpy indexing)
def _np_hooks():
    h = rng_hooks()
    base_bh = h['builtin_hook']

    def builtin_hook(eng, st, name, args, kwargs, node):
        if name == 'numpy.ndim' and len(args) == 1:
            x = args[0]
            if isinstance(x, SliceSpecV):
                return [(st, IntV(0 if 'slice' in x.classes else 1))]
            if isinstance(x, (NdArrV, SymSeqV, TupleV)):
                return [(st, IntV(1))]
        return base_bh(eng, st, name, args, kwargs, node)

    def subscript_hook(eng, st, recv, idx, node):
        """np.arange(n)[spec,]  (assumed numpy contract, DESIGN 2.9):
           slice object -> the positions list(range(n))[spec] (all within [0, n));
           integer list / array -> a NEW array of the same length whose j-th value is spec[j] wrapped
           into [0, n), IndexError if some spec[j] is outside [-n, n)"""
        if not (isinstance(recv, NdArrV) and isinstance(idx, TupleV) and len(idx.items) == 1):
            return None
        cell = st.heap[recv.oid]
        if not z3.is_true(z3.simplify(cell['f'](z3.Int('_q')) == z3.Int('_q'))):
            return None
        n = cell['n']
        spec_ = idx.items[0]
        if isinstance(spec_, SliceSpecV) and 'slice' in spec_.classes:
            L = smt.fresh('sel_len', smt.Int)
            P = z3.Function('SELPOS!%d' % next(smt._counter), smt.Int, smt.Int)
            j = z3.Int('_npj')
            st.pc += [L >= 0, L <= n, z3.ForAll([j], z3.Implies(z3.And(j >= 0, j < L), z3.And(P(j) >= 0, P(j) < n)), patterns=[P(j)])]
            oid = eng.new_oid()
            st.heap[oid] = {'n': L, 'f': (lambda q: P(q)), 'inv': None}
            return [(st, NdArrV(oid))]
        if isinstance(spec_, NdArrV):
            sc = st.heap[spec_.oid]
            ln, g = sc['n'], sc['f']
        elif isinstance(spec_, SymSeqV) and isinstance(spec_.at(z3.Int('_q')), IntV):
            ln, g = spec_.length, (lambda q: spec_.at(q).t)
        else:
            return None
        res = []
        j0 = smt.fresh('bad', smt.Int)
        bad = st.fork(j0 >= 0, j0 < ln, z3.Or(g(j0) < -n, g(j0) >= n))
        if eng.feasible(bad):
            eng.raise_(bad, eng.new_exc(bad, 'IndexError'))
        jj = z3.Int('_npk')
        ok = st.fork(z3.ForAll([jj], z3.Implies(z3.And(jj >= 0, jj < ln), z3.And(g(jj) >= -n, g(jj) < n)), patterns=[g(jj)]))
        oid = eng.new_oid()
        ok.heap[oid] = {'n': ln, 'f': (lambda q: z3.If(g(q) < 0, g(q) + n, g(q))), 'inv': None}
        res.append((ok, NdArrV(oid)))
        return res
    h['builtin_hook'] = builtin_hook
    h['subscript_hook'] = subscript_hook
    return h


def _slice_arg(kind):
    def mk(eng, st):
        if kind == 'slice':
            return SliceSpecV(smt.fresh('slice_obj', smt.Obj), ['slice'])
        n = smt.fresh('idx_len', smt.Int)
        st.pc.append(n >= 0)
        F_ = z3.Function('IDXARG!%d' % next(smt._counter), smt.Int, smt.Int)
        if kind == 'ndarray':
            oid = eng.new_oid()
            st.heap[oid] = {'n': n, 'f': (lambda q: F_(q)), 'inv': None}
            return NdArrV(oid)
        return SymSeqV(n, lambda q: IntV(F_(q)), 'list')
    return mk


def _slice_init_post(kind):
    def post(S, o):
        env = S.eng.entry_env
        me = S.st.heap[S.eng.self_oid]
        d = env['input_dataset'].t
        hier = S.eng.hier
        if o.kind == 'raise':
            return [('slice-init:rejections', z3.Or(z3.And(z3.Not(smt.IDX(d)), exc_is(o.exc, hier, 'RuntimeError')),
                                                     exc_is(o.exc, hier, 'IndexError') if kind != 'slice' else smt.F))]
        arr = me.get('slice')
        if not isinstance(arr, NdArrV):
            return [('slice-init:normalised-index-array', smt.F)]
        cell = S.st.heap[arr.oid]
        j = smt.fresh('sj', smt.Int)
        out = [('C01:SliceDataset-invariant:indexable-input', smt.IDX(d)),
               ('C01:SliceDataset-invariant:every-index-is-a-valid-position',
                z3.Implies(z3.And(j >= 0, j < cell['n']), z3.And(cell['f'](j) >= 0, cell['f'](j) < smt.N(d)))),
               ('init:field-input_dataset', z3.BoolVal(me.get('input_dataset') is env['input_dataset'])),
               ('C08:construction-evaluates-no-example', z3.BoolVal(not [e for e in evals(S) if e[0] in ('get', 'app', 'pull', 'getkey')]))]
        if kind == 'ndarray':
            # advanced indexing copies: the stored index array is not the caller's (possibly live) array
            out.append(('C13:the-selection-is-a-private-copy-of-the-index-array', z3.BoolVal(arr.oid != env['slice'].oid)))
        return out
    return post


class SliceInitC(ClassContract):
    cls = 'SliceDataset'

    def view(self, eng, st):
        return None
    methods = {'__init__': [Variant(k, params={'slice': _slice_arg(k), 'input_dataset': 'ds'}, post=_slice_init_post(k),
                                    hooks=_np_hooks(), props=('C01', 'C08', 'C12', 'C13')) for k in ('slice', 'ndarray', 'list')]}


CONTRACTS = [ZipInitC(), ConcatInitC(), ReShuffleInitC(), CacheInitC(), SliceInitC()]
