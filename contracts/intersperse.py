"""IntersperseDataset under the class invariant ORDER(self) (DESIGN 4.C01):

  order has PRE_N(m) entries (_, D(p), E(p));  0 <= D(p) < m;  0 <= E(p) < N(d_{D(p)});
  E(p) = #{q < p : D(q) = D(p)}   (the p-th entry takes the next unused example of its dataset).

Given ORDER, iteration (which calls next() on the D(p)-th of m iterators) and indexing (which uses
E(p) directly) denote the same view OUT(p) = OUT(d_{D(p)}, E(p)).  That __init__ establishes ORDER
from the sorted list of keys is proved in contracts/intersperse_init.py (rational arithmetic; the bounded
stand-in `bounded-intersperse-init` stays as the native replay with real floats)."""
import z3

from pyvc import smt, views
from pyvc.smt import I
from pyvc.values import *          # noqa
from pyvc.values import eqv
from pyvc.engine import SetV
from pyvc.contract import *        # noqa
from pyvc.views import View, AbsView, AX, Out
from contracts import spec
from contracts.leaves import self_view, _std_getitem_variants, _iter_variants
from contracts.stages import flag_variants, keys_variants
from contracts.copying import copy_variants


class InterView(View):
    def __init__(self, owner, m, L, D, E):
        self.owner, self.m, self.L, self.D, self.E = owner, m, L, D, E
        self.idx = spec.all_inputs(owner, m, smt.IDX)
        self.len_ = smt.T
        self.items = spec.all_inputs(owner, m, smt.ITEMS)
        self.ord_ = spec.all_inputs(owner, m, smt.ORD)
        self.UNIQ = spec.memo(('UNIQ', owner), lambda: smt.fresh('keys_unique', smt.Bool))
        self.keys = z3.And(spec.all_inputs(owner, m, smt.KEYS), self.UNIQ)
        self.IPOS = spec.memo(('IPOS', owner), lambda: z3.Function('IPOS!%d' % owner, smt.Key, smt.Int))
        self.name = 'intersperse'

    def n(self):
        return self.L

    def _loc(self, i):
        return spec.IN(self.owner, self.D(i)), self.E(i)

    def raises(self, i):
        d, e = self._loc(i)
        return smt.RAISES(d, e)

    def val(self, i):
        d, e = self._loc(i)
        return ObjV(smt.VAL(d, e))

    def exc(self, i):
        d, e = self._loc(i)
        return smt.EXC(d, e)

    def key(self, i):
        d, e = self._loc(i)
        k = AbsView(d).key(e)
        p = self.IPOS(k)
        dp, ep = self._loc(p)
        AX.add(z3.Implies(z3.And(i >= 0, i < self.L), z3.And(p >= 0, p < self.L, smt.KEY(dp, ep) == k)))
        AX.add(z3.Implies(z3.And(i >= 0, i < self.L, self.keys),
                          z3.And(smt.RAISES(dp, ep) == smt.RAISES(d, e), smt.VAL(dp, ep) == smt.VAL(d, e),
                                 smt.EXC(dp, ep) == smt.EXC(d, e))))
        return k

    def kpos(self, k):
        p = self.IPOS(k)
        AX.add(z3.And(p >= -1, p < self.L))
        d, e = self._loc(p)
        AX.add(z3.Implies(p >= 0, AbsView(d).key(e) == k))      # (also instantiates: that key is found in its part)
        j = z3.Int('_ipj')
        AX.add(z3.Implies(p < 0, z3.ForAll([j], z3.Implies(z3.And(j >= 0, j < self.m),
                                                            smt.KPOS(spec.IN(self.owner, j), k) < 0),
                                            patterns=[smt.KPOS(spec.IN(self.owner, j), k)])))
        # a key of some part is a key of the interspersion (ORDER covers every (dataset, example) pair);
        # with unique keys the example found through the part is the example at the key's position
        AX.add(z3.ForAll([j], z3.Implies(z3.And(j >= 0, j < self.m, smt.KPOS(spec.IN(self.owner, j), k) >= 0, self.keys),
                                         z3.And(p >= 0, self.D(p) == j, self.E(p) == smt.KPOS(spec.IN(self.owner, j), k))),
                         patterns=[smt.KPOS(spec.IN(self.owner, j), k)]))
        return p


def CNTD(owner):
    return spec.memo(('CNTD', owner), lambda: z3.Function('CNTD!%d' % owner, smt.Int, smt.Int, smt.Int))


def cntd_unfold(owner, D, k):
    """CNTD(j, 0) = 0 ;  CNTD(j, k+1) = CNTD(j, k) + [D(k) = j]   for every j (k a ground term)"""
    C = CNTD(owner)
    j = z3.Int('_cdj')
    AX.add(z3.ForAll([j], C(j, I(0)) == 0, patterns=[C(j, I(0))]))
    AX.add(z3.ForAll([j], C(j, k + 1) == C(j, k) + z3.If(D(k) == j, 1, 0), patterns=[C(j, k + 1)]))


class IntersperseDatasetC(ClassContract):
    cls = 'IntersperseDataset'

    def fields(self, eng, st):
        o = eng.self_oid
        m = smt.fresh('m', smt.Int)
        L = smt.fresh('n_order', smt.Int)
        Df = z3.Function('D!%d' % o, smt.Int, smt.Int)
        Ef = z3.Function('E!%d' % o, smt.Int, smt.Int)
        FRAC = z3.Function('FRAC!%d' % o, smt.Int, smt.Real)
        S = spec.sum_n(o)
        smt.FOLDS.note_index(m)
        C = CNTD(o)
        p = z3.Int('_op')
        st.pc += [m >= 1, L == S(m), spec.all_inputs(o, m, smt.LEN),
                  spec.all_inputs(o, m, lambda d: smt.N(d) > 0),
                  z3.ForAll([p], z3.Implies(z3.And(p >= 0, p < L),
                                            z3.And(Df(p) >= 0, Df(p) < m, Ef(p) >= 0, Ef(p) < smt.N(spec.IN(o, Df(p))),
                                                   Ef(p) == C(Df(p), p))), patterns=[Df(p)])]
        self._D, self._E, self._L = Df, Ef, L
        order = SymSeqV(L, lambda e: TupleV([RealV(FRAC(e)), IntV(Df(e)), IntV(Ef(e))]), 'list')
        return {'input_datasets': DSTupleV(o, m), 'order': order, '_keys': NONE}

    def view(self, eng, st):
        f = st.heap[eng.self_oid]
        o = eng.self_oid
        order = f['order']
        return InterView(o, f['input_datasets'].m, order.length, lambda i: order.at(i).items[1].t,
                         lambda i: order.at(i).items[2].t)


class IterArrV(Val):
    """[iter(ds) for ds in self.input_datasets]: m iterators; pos(j) elements of input j consumed"""
    kind = 'iterarr'

    def __init__(self, oid, owner, m, with_key):
        self.oid, self.owner, self.m, self.with_key = oid, owner, m, with_key


class IterRefV(Val):
    kind = 'iterref'

    def __init__(self, arr, idx):
        self.arr, self.idx = arr, idx


def _iter_hooks(with_key):
    def comprehension_hook(eng, st, node):
        import ast
        src = ast.unparse(node)
        if src in ('[iter(ds) for ds in self.input_datasets]', '[ds.__iter__(with_key=True) for ds in self.input_datasets]'):
            f = st.heap[eng.self_oid]
            t = f['input_datasets']
            oid = eng.new_oid()
            st.heap[oid] = {'pos': (lambda j: I(0))}
            wk = 'with_key' in src
            if wk:
                # every input must offer items (else its iterator refuses at its first element)
                pass
            return [(st, IterArrV(oid, t.owner, t.m, wk))]
        return None

    def subscript_hook(eng, st, recv, idx, node):
        if isinstance(recv, IterArrV) and isinstance(idx, IntV):
            return eng.seq_index(st, recv.m, idx.t, lambda p: IterRefV(recv, p))
        return None

    def next_hook(eng, st, it):
        if not isinstance(it, IterRefV):
            return None
        arr, j = it.arr, it.idx
        cell = st.heap[arr.oid]
        pos = cell['pos'](j)
        d = AbsView(spec.IN(arr.owner, j))
        res = []
        val = (lambda p: TupleV([KeyV(d.key(p)), d.val(p)])) if arr.with_key else d.val
        for s2, done in eng.branch(st, pos >= d.n()):
            if done:
                eng.raise_(s2, eng.new_exc(s2, 'StopIteration'))
                continue
            for s3, r in eng.branch(s2, d.raises(pos)):
                if r:
                    eng.raise_(s3, ExcV(d.exc(pos)))
                else:
                    old = s3.heap[arr.oid]['pos']
                    s3.heap[arr.oid] = {'pos': (lambda q, old=old, j=j, pos=pos: z3.If(q == j, pos + 1, old(q)))}
                    res.append((s3, val(pos)))
        return res

    def havoc_heap(eng, st, ordinal, names, mutated):
        for nme, v in st.env.items():
            if isinstance(v, IterArrV):
                P = z3.Function('POS!%d' % next(smt._counter), smt.Int, smt.Int)
                st.heap[v.oid] = {'pos': (lambda q, P=P: P(q)), 'fn': P}
    return dict(comprehension_hook=comprehension_hook, subscript_hook=subscript_hook, next_hook=next_hook,
                havoc_heap=havoc_heap)


def _iter_inv(S):
    eng = S.eng
    o = eng.self_oid
    f = S.st.heap[o]
    order = f['order']
    D = lambda i: order.at(i).items[1].t      # noqa
    arr = S.val.iterators
    cell = S.st.heap[arr.oid]
    C = CNTD(o)
    cntd_unfold(o, D, S.k)
    j = z3.Int('_ivj')
    pos = cell['pos']
    body = pos(j) == C(j, S.k)
    pats = [cell['fn'](j)] if 'fn' in cell else None
    q = z3.ForAll([j], body, patterns=pats) if pats else z3.ForAll([j], body)
    return z3.And(S.out_n == S.k, q)


def _inter_iter_variants():
    vs = _iter_variants(loops={'0': _iter_inv}, hooks=_iter_hooks(False))
    req_items = vs[1].requires
    vs[1].hooks = _iter_hooks(True)
    vs[2].hooks = _iter_hooks(True)
    # the refusing variant: some input has no items -> its iterator refuses; only "ends with an exception" is claimed
    return [vs[0], vs[1]]


def _getitem_str_inv(S):
    o = S.eng.self_oid
    k = S.old.item
    j = z3.Int('_gsj')
    return z3.ForAll([j], z3.Implies(z3.And(j >= 0, j < S.k), smt.KPOS(spec.IN(o, j), k) < 0),
                     patterns=[smt.KPOS(spec.IN(o, j), k)])


def _set_hooks():
    def builtin_hook(eng, st, name, args, kwargs, node):
        if name == 'set' and len(args) == 1 and isinstance(args[0], SymSeqV):
            # len(set(keys)) == len(keys)  <=>  the keys are pairwise distinct (the spec's UNIQ flag is
            # exactly this predicate of the interspersed key sequence)
            v = eng.ctx.self_view(eng, st)
            c = smt.fresh('card', smt.Int)
            st.pc += [c >= 0, c <= args[0].length, (c == args[0].length) == v.UNIQ]
            return [(st, SetV(c))]
        if name == 'collections.Counter':
            return [(st, OpaqueV('counter'))]
        return None

    def any_method(eng, st, recv, name, args, kwargs):
        if isinstance(recv, OpaqueV) and recv.what == 'counter' and name == 'items':
            return [(st, OpaqueV('counter-items'))]
        return None

    def iter_obj_descr(eng, st, v):
        if isinstance(v, OpaqueV) and v.what == 'counter-items':
            n = smt.fresh('n_dup', smt.Int)
            st.pc.append(n >= 0)
            return n, (lambda k: [Out(smt.T, value=TupleV([KeyV(smt.fresh('dupkey', smt.Key)), IntV(smt.fresh('cnt', smt.Int))]))])
        return None
    return dict(builtin_hook=builtin_hook, any_method=any_method, iter_obj_descr=iter_obj_descr)


def _keys_variants():
    vs = keys_variants()
    for v in vs:
        v.hooks = _set_hooks()
    return vs


def _getitem_variants():
    vs = _std_getitem_variants(loops={'0': _getitem_str_inv})
    for v in vs:
        if v.name == 'str':
            v.hooks = _set_hooks()
            v.inline = ()
    return vs


IntersperseDatasetC.methods = dict(
    __len__=[Variant('len', post=post_len(self_view), props=('C02',))],
    __getitem__=_getitem_variants(),
    __iter__=_inter_iter_variants(),
    keys=_keys_variants(),
    copy=copy_variants(),
    **flag_variants())

CONTRACTS = [IntersperseDatasetC()]
