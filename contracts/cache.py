"""C10 (memory cache), C09 (isolation of handed-out examples), C11 (disk cache) contracts.

Representation invariant CACHE(self) of CacheDataset, over the dict `_cache.cache`:
   for every key r in the dict:  0 <= r < N(input)  (keys are canonical positions),
   the upstream outcome at r is a value, and  deserialize(cache[r]) == that value.
Every public operation is shown to preserve it, so it holds after any access history;
`copy` shares the very `_cache` object, so all copies share the invariant and the
compute-once count.
"""
import z3

from pyvc import smt, views
from pyvc.smt import I
from pyvc.values import *          # noqa
from pyvc.values import eqv, veq   # noqa
from pyvc.engine import IntDictV, CellListV, EmptyDictV, DictV
from pyvc.contract import *        # noqa
from pyvc.views import View, AbsView, AX
from contracts.leaves import self_view
from contracts.stages2 import F
from contracts.profiling import PassView
from contracts.copying import copy_variants, post_copy

SER = z3.Function('SER', smt.Obj, smt.Obj)       # pickle.dumps: an immutable bytes object
DESER = z3.Function('DESER', smt.Obj, smt.Obj)   # pickle.loads / deepcopy: a fresh equal object
IS_BYTES = z3.Function('IS_IMMUTABLE_BYTES', smt.Obj, smt.Bool)
LOADED = z3.Function('IS_FRESH_LOAD', smt.Obj, smt.Bool)   # produced by loads/deepcopy just now


def ser_axioms():
    x = z3.Const('_sx', smt.Obj)
    return [z3.ForAll([x], DESER(SER(x)) == x, patterns=[SER(x)]),      # value-equality of the round trip
            z3.ForAll([x], IS_BYTES(SER(x)), patterns=[SER(x)]),
            z3.ForAll([x], LOADED(DESER(x)), patterns=[DESER(x)])]


def cache_hooks(mem_ok=None):
    def builtin_hook(eng, st, name, args, kwargs, node):
        if name in ('pickle.dumps',) and args and isinstance(args[0], ObjV):
            v = args[0].t
            # assumed contract of pickle, instantiated at the pickled value: round trip is value-equal,
            # the result is an immutable bytes object
            AX.add(DESER(SER(v)) == v)
            AX.add(IS_BYTES(SER(v)))
            return [(st, ObjV(SER(v)))]
        if name in ('pickle.loads', 'copy.deepcopy') and len(args) == 1 and isinstance(args[0], ObjV):
            AX.add(LOADED(DESER(args[0].t)))      # a fresh object, equal in value
            return [(st, ObjV(DESER(args[0].t)))]
        if name == 'psutil.virtual_memory':
            return [(st, OpaqueV('virtual_memory'))]
        return None

    def getattr_hook(eng, st, recv, attr, node):
        if isinstance(recv, OpaqueV) and recv.what == 'virtual_memory' and attr in ('available', 'total'):
            v = smt.fresh('mem_' + attr, smt.Int)     # psutil is fully havocked: any value at any call
            st.pc.append(v >= 0)
            if attr == 'available':
                st.ghost['mem_readings'] = st.ghost.get('mem_readings', ()) + (v,)      # ghost: the readings made in this call
            return [(st, IntV(v))]
        return None
    return {'builtin_hook': builtin_hook, 'getattr_hook': getattr_hook}


def _mk_cache(eng, st, mode='pickle'):
    """_CacheWrapper instance with a symbolic dict"""
    doid = eng.new_oid()
    DOM = z3.Function('DOM!%d' % doid, smt.Int, smt.Bool)
    STO = z3.Function('STO!%d' % doid, smt.Int, smt.Obj)
    st.heap[doid] = {'dom': (lambda r: DOM(r)), 'sto': (lambda r: STO(r))}
    woid = eng.new_oid()
    if mode == 'pickle':
        st.heap[woid] = {'_serialize': BuiltinV('pickle.dumps'), '_deserialize': BuiltinV('pickle.loads'),
                         'cache': IntDictV(doid)}
    return InstV(woid, '_CacheWrapper'), doid


RSTAR = z3.Int('r_generic')     # an arbitrary key: proving the invariant at it proves it for all keys


def cache_inv_at(d, dom, sto, r):
    return z3.Implies(dom(r),
                      z3.And(r >= 0, r < smt.N(d), z3.Not(smt.RAISES(d, r)),
                             DESER(sto(r)) == smt.VAL(d, r), IS_BYTES(sto(r))))


def cache_inv(d, dom, sto, keys=()):
    """the representation invariant, instantiated at the generic key and at the keys an
    operation touches (quantifier-free; universal introduction over r_generic)"""
    return z3.And(*[cache_inv_at(d, dom, sto, r) for r in (RSTAR,) + tuple(keys)])


def _dict_of(S, which='now'):
    eng = S.eng
    heap = S.st.heap if which == 'now' else eng.entry_heap
    w = heap[eng.self_oid]['_cache']
    dv = heap[w.oid]['cache']
    c = heap[dv.oid]
    return c['dom'], c['sto']


def _upstream_calls(S):
    """('get', view, position) events of the effect log on the input dataset"""
    return [ev for ev in S.st.ghost.get('log', ()) if ev[0] in ('get', 'getkey', 'pull')]


def _getitem_post(kind):
    base = {'int': post_getitem_int(self_view), 'str': post_getitem_key(self_view)}[kind]

    def post(S, o):
        out = base(S, o)
        d = F(S)['input_dataset'].t
        dom0, sto0 = _dict_of(S, 'entry')
        dom1, sto1 = _dict_of(S)
        calls = _upstream_calls(S)
        # C10 representation invariant preserved (keys canonical, entries equal the upstream value)
        out.append(('C10:cache-invariant-preserved(at an arbitrary key)', cache_inv_at(d, dom1, sto1, RSTAR)))
        r = RSTAR
        out.append(('C10:cached-entries-stay-frozen(at an arbitrary key)',
                    z3.Implies(dom0(r), z3.And(dom1(r),
                                                          sto1(r) == sto0(r)))))
        if kind == 'int':
            it = S.old.item
            n = smt.N(d)
            p = z3.If(it < 0, it + n, it)
            hit = dom0(p)
            inr = z3.And(it >= -n, it < n)
            out.append(('C10:a-cached-example-is-not-recomputed', z3.Implies(z3.And(inr, hit), z3.BoolVal(len(calls) == 0))))
            out.append(('C10:at-most-one-upstream-evaluation-per-access', z3.BoolVal(len(calls) <= 1)))
            if o.kind == 'return':
                # C09: on a hit the value handed out is a fresh load of the stored bytes; what is stored
                # after a miss is the serialisation, never the handed-out object itself
                val = o.value.t
                out.append(('C09:hit-returns-a-fresh-deserialisation',
                            z3.Implies(z3.And(inr, hit), LOADED(val))))
                out.append(('C09:the-store-holds-immutable-serialised-data(at an arbitrary key)',
                            z3.Implies(dom1(r), IS_BYTES(sto1(r)))))
                writes = S.st.ghost.get('dict_writes', ())
                out.append(('C10:only-the-requested-position-is-stored',
                            z3.And(*[w[1] == p for w in writes]) if writes else smt.T))
        return out
    return post


def _norm(S):
    it = S.old.item
    n = smt.N(F(S)['input_dataset'].t)
    return z3.If(it < 0, it + n, it)


def _inv_instances(S, keys):
    d = F(S)['input_dataset'].t
    dom, sto = _dict_of(S)
    return cache_inv(d, dom, sto, keys)


def _iter_inv(S):
    d = F(S)['input_dataset'].t
    dom, sto = _dict_of(S)
    # the loop calls self[i] by contract (I-idx of the class's own view); the cache invariant is
    # maintained by that method (its own obligation), here only the position is tracked
    return S.out_n == S.k


class CacheDatasetC(ClassContract):
    cls = 'CacheDataset'

    def fields(self, eng, st):
        d = smt.fresh('d_in', smt.DS)
        w, doid = _mk_cache(eng, st)
        st.pc.append(smt.IDX(d))
        c = st.heap[doid]
        self._dom, self._sto, self._d = c['dom'], c['sto'], d
        kmf = smt.fresh('keep_mem_free', smt.Int)
        st.pc.append(kmf >= 0)
        return {'input_dataset': DSRefV(d), '_cache': w, '_keep_mem_free': IntV(kmf),
                '_do_cache': BoolV(smt.fresh('do_cache', smt.Bool))}

    def view(self, eng, st):
        return PassView(AbsView(st.heap[eng.self_oid]['input_dataset'].t))

    def _no_direct_upstream(S):
        """every access of an iteration goes through self[i] (the cached path), never directly to
        the input: cached examples stay frozen and are not recomputed while iterating"""
        inp = AbsView(F(S)['input_dataset'].t).name
        direct = [ev for ev in S.st.ghost.get('log', ()) if ev[0] in ('get', 'getkey', 'pull') and inp == ev[1]
                  or (ev[0] == 'pull' and inp in str(ev[1]))]
        return ('C10:iteration-reads-through-the-cache', z3.BoolVal(not direct))

    def _wrap(oy, po, nd=_no_direct_upstream):
        # the same fact under C09: what iteration hands out is what self[i] returns -- on a miss the value is
        # serialised into the cache BEFORE it is handed out (so the consumer can never mutate what gets stored)
        nd9 = lambda S: ('C09:iteration-hands-out-only-what-self[i]-returns(stored-before-handed-out)', nd(S)[1])     # noqa
        return (lambda S, v: oy(S, v) + [nd(S), nd9(S)]), (lambda S, o: po(S, o) + [nd(S), nd9(S)])
    _oy, _po = _wrap(*iter_clauses(self_view, False))
    _oyk, _pok = _wrap(*iter_clauses(self_view, True))
    methods = dict(
        __getitem__=[
            Variant('int', params={'item': 'int'},
                    requires=lambda S: z3.And(self_view(S).idx, _inv_instances(S, [S.old.item, _norm(S)])),
                    post=_getitem_post('int'),
                    hooks=cache_hooks(), props=('C02', 'C09', 'C10', 'C11')),      # C11: DiskCacheDataset inherits __getitem__ / __iter__
        ] + [
            Variant('int:' + k_, params={'item': k_},
                    requires=lambda S: z3.And(self_view(S).idx, _inv_instances(S, [S.old.item, _norm(S)])),
                    post=_getitem_post('int'), hooks=cache_hooks(), props=('C02',)) for k_ in ('np.int8', 'np.uint8')
        ] + [
            Variant('str', params={'item': 'key'},
                    requires=lambda S: z3.And(self_view(S).idx, self_view(S).keys,
                                              _inv_instances(S, [AbsView(F(S)['input_dataset'].t).kpos(S.old.item)])),
                    post=_getitem_post('str'), hooks=cache_hooks(), props=('C03', 'C10', 'C11', 'C14'))],
        __iter__=[Variant('values', params={'with_key': 'false'}, generator=True, on_yield=_oy, post=_po,
                          loops={'src:range(len(self))': _iter_inv}, props=('C01', 'C10', 'C09', 'C11'), hooks=cache_hooks(),
                          requires=lambda S: self_view(S).idx),
                  Variant('items', params={'with_key': 'true'}, generator=True, on_yield=_oyk, post=_pok,
                          loops={'src:range(len(self))': _iter_inv}, props=('C03', 'C10', 'C09', 'C11'), hooks=cache_hooks(),
                          requires=lambda S: z3.And(self_view(S).idx, self_view(S).keys))],
        __len__=[Variant('len', post=post_len(self_view), props=('C02',))],
        keys=[Variant('keys', post=post_keys(self_view), requires=lambda S: self_view(S).keys, props=('C03',),
                      inline=('keys',))],
    )


def _cache_refusal_variants():
    from contracts.stages import _split_refusal
    oyr, por = items_refused_clauses(self_view)
    v = Variant('items-refused', params={'with_key': 'true'}, generator=True, on_yield=oyr, post=por,
                requires=lambda S: z3.And(self_view(S).idx, z3.Not(self_view(S).keys)),
                loops={'src:range(len(self))': _iter_inv}, props=('C03', 'C10'), hooks=cache_hooks(), inline=('keys',))
    return _split_refusal([v], lambda S: F(S)['input_dataset'].t)


CacheDatasetC.methods['__iter__'] = CacheDatasetC.methods['__iter__'] + _cache_refusal_variants()


def _cache_copy_post(S, o):
    """copy shares the very cache object (identity), so copies share entries and the once-only count"""
    out = post_copy(S, o)
    if o.kind == 'return' and isinstance(o.value, InstV):
        new = S.st.heap[o.value.oid]
        me = S.eng.entry_heap[S.eng.self_oid]
        out.append(('C10:copy-shares-the-cache-object', z3.BoolVal(new.get('_cache') is me['_cache'])))
    return out


CacheDatasetC.methods['copy'] = [Variant('freeze=any', params={'freeze': 'bool'}, post=_cache_copy_post,
                                         hooks=cache_hooks(), props=('C10', 'C13'))]


# ---- check(): the free-memory latch
def _check_post(S, o):
    me0 = S.eng.entry_heap[S.eng.self_oid]
    me1 = S.st.heap[S.eng.self_oid]
    if o.kind != 'return' or not isinstance(o.value, BoolV):
        return [('check:returns-bool', smt.F)]
    latch0 = me0['_do_cache'].t
    latch1 = me1['_do_cache'].t if isinstance(me1['_do_cache'], BoolV) else None
    out = [('C10:latch-down-means-no-caching', z3.Implies(z3.Not(latch0), z3.Not(o.value.t))),
           ('C10:the-latch-never-goes-up-again', z3.Implies(z3.Not(latch0), z3.Not(latch1)))]
    # "once the free-memory threshold is crossed no further examples are cached": with a threshold configured, a positive
    # answer rests on a reading of the free memory made in THIS call that lies above the threshold
    kmf = me0.get('_keep_mem_free')
    if isinstance(kmf, (IntV, RealV)):
        rd = S.st.ghost.get('mem_readings', ())
        above = z3.Or(*[r > kmf.t for r in rd]) if rd else smt.F
        out.append(('C10:a-positive-answer-rests-on-a-current-reading-above-the-threshold', z3.Implies(o.value.t, above)))
        out.append(('C10:a-reading-at-or-below-the-threshold-ends-caching',
                    z3.Implies(z3.And(latch0, *[r <= kmf.t for r in rd]) if rd else smt.F, z3.Not(o.value.t))))
    elif isinstance(kmf, NoneV) or kmf is NONE:
        out.append(('C10:no-threshold-means-always-cache', o.value.t))
    return out


CacheDatasetC.methods['check'] = [Variant('threshold', post=_check_post, hooks=cache_hooks(), props=('C10',))]

CONTRACTS = [CacheDatasetC()]


# =============================================================== C09: serialising constructors
class StoredDictV(Val):
    """the dict built by `{k: serialize(v) for k, v in examples.items()}`"""
    kind = 'storeddict'

    def __init__(self, source, fn):
        self.source, self.fn = source, fn


def _c09_hooks():
    h = cache_hooks()

    def dict_comp(eng, st, node):
        # {k: serialize(v) for k, v in examples.items()}: a NEW dict with the same keys in the same
        # order whose values are serialize(original value)
        src = ast_unparse(node)
        if src.replace('(k, v)', 'k, v') != '{k: serialize(v) for k, v in examples.items()}':
            raise Unsupported('dict comprehension %s' % src)
        ex = st.env['examples']
        ser = st.env['serialize']
        return [(st, StoredDictV(ex, ser))]

    def stage_method(eng, st, recv, name, args, kwargs):
        if name == 'map' and len(args) == 1:
            return [(st, StageV('MapDataset', [args[0], recv], {}))]
        return None
    base = h['builtin_hook']

    def builtin_hook(eng, st, name, args, kwargs, node):
        if name == 'map' and len(args) == 2 and isinstance(args[1], SymSeqV):
            seq, fn = args[1], args[0]
            r = OpaqueV('map(serialize, examples)')
            r.mapped = (fn, seq)
            return [(st, r)]
        return base(eng, st, name, args, kwargs, node)

    def list_hook(eng, st, x):
        if isinstance(x, OpaqueV) and hasattr(x, 'mapped'):
            r = OpaqueV('list(map(serialize, examples))')
            r.mapped = x.mapped
            return [(st, r)]
        return None
    h.update(dict_comp=dict_comp, stage_method=stage_method, builtin_hook=builtin_hook, list_hook=list_hook)
    return h


def ast_unparse(node):
    import ast
    return ast.unparse(node)


def _is_fn(v, name):
    return isinstance(v, BuiltinV) and v.name == name


def _identity_lambda(v):
    import ast
    return isinstance(v, ClosureV) and isinstance(v.node, ast.Lambda) and ast.unparse(v.node) == 'lambda x: x'


def _serde_post(S, o):
    """_get_serialize_and_deserialize: pickle -> (dumps, loads); copy -> (identity, deepcopy);
    anything else is rejected -- in both modes reading goes through a function that returns a fresh object"""
    mode = S.eng.entry_env['immutable_warranty']
    if o.kind == 'raise':
        return [('serde:only-unknown-modes-are-rejected', z3.BoolVal(mode.s not in ('pickle', 'copy')))]
    v = o.value
    if not (isinstance(v, TupleV) and len(v.items) == 2):
        return [('serde:returns-a-pair', smt.F)]
    s_, d_ = v.items
    if mode.s == 'pickle':
        return [('C09:pickle-mode-stores-bytes-and-reads-through-loads',
                 z3.BoolVal(_is_fn(s_, 'pickle.dumps') and _is_fn(d_, 'pickle.loads')))]
    if mode.s == 'copy':
        return [('C09:copy-mode-reads-through-deepcopy', z3.BoolVal(_identity_lambda(s_) and _is_fn(d_, 'copy.deepcopy')))]
    return [('serde:unknown-mode-must-raise', smt.F)]


def _from_dict_post(S, o):
    env = S.eng.entry_env
    if o.kind != 'return':
        return [('from_dict:returns', smt.F)]
    v = o.value
    ok = isinstance(v, StageV) and v.cls == 'MapDataset' and len(v.args) == 2 and isinstance(v.args[1], StageV) \
        and v.args[1].cls == 'DictDataset'
    if not ok:
        return [('C09:from_dict-is-DictDataset(stored).map(deserialize)', smt.F)]
    de, inner = v.args
    stored = inner.args[0]
    out = [('C09:every-access-path-goes-through-deserialize', z3.BoolVal(_is_fn(de, 'pickle.loads') or _is_fn(de, 'copy.deepcopy'))),
           ('C09:the-stored-container-is-a-new-dict-of-serialised-values',
            z3.BoolVal(isinstance(stored, StoredDictV) and stored.source is env['examples']
                       and (_is_fn(stored.fn, 'pickle.dumps') or _identity_lambda(stored.fn)))),
           ('C09:serialising-mode-stores-bytes-not-the-callers-objects',
            z3.BoolVal(env['immutable_warranty'].s != 'pickle' or (isinstance(stored, StoredDictV) and _is_fn(stored.fn, 'pickle.dumps'))))]
    return out


def _from_list_post(S, o):
    env = S.eng.entry_env
    if o.kind == 'raise':
        return [('from_list:no-exception-for-a-list', smt.F)]
    v = o.value
    if env['immutable_warranty'].s == 'wu' and isinstance(v, StageV) and v.cls == 'ListDataset':
        # ListDataset over NumpySerializedList(examples): every read unpickles from the byte buffer (contracts/wu.py)
        st_ = v.args[0] if v.args else None
        return [('C09:wu-mode-stores-the-examples-in-a-NumpySerializedList-built-from-the-given-list',
                 z3.BoolVal(isinstance(st_, StageV) and st_.cls == 'NumpySerializedList' and len(st_.args) == 1
                            and st_.args[0] is env['examples']))]
    ok = isinstance(v, StageV) and v.cls == 'MapDataset' and isinstance(v.args[1], StageV) and v.args[1].cls == 'ListDataset'
    if not ok:
        return [('C09:from_list-is-ListDataset(stored).map(deserialize)', smt.F)]
    if env['immutable_warranty'].s == 'wu':
        return [('C09:wu-mode-must-use-the-serialised-list', smt.F)]
    de, inner = v.args
    stored = inner.args[0]
    fn_ok = hasattr(stored, 'mapped') and stored.mapped[1] is env['examples'] and \
        (_is_fn(stored.mapped[0], 'pickle.dumps') or _identity_lambda(stored.mapped[0]))
    return [('C09:every-access-path-goes-through-deserialize', z3.BoolVal(_is_fn(de, 'pickle.loads') or _is_fn(de, 'copy.deepcopy'))),
            ('C09:the-stored-container-is-a-new-list-of-serialised-values',
             z3.BoolVal(bool(fn_ok) and stored.what.startswith('list(')))]


def _mk_list(eng, st):
    n = smt.fresh('n', smt.Int)
    st.pc.append(n >= 0)
    ex = z3.Function('ORIG!%d' % next(smt._counter), smt.Int, smt.Obj)
    return SymSeqV(n, lambda e: ObjV(ex(e)), 'list')


def _mk_dict(eng, st):
    from pyvc.engine import SymDictV
    return SymDictV('orig')


def _mode(m):
    return lambda eng, st: StrV(m)


class SerialisersC(FuncContract):
    mod = 'core'
    cls = None
    methods = {
        '_get_serialize_and_deserialize': [Variant(m, params={'immutable_warranty': _mode(m)}, post=_serde_post,
                                                   hooks=_c09_hooks(), props=('C09',)) for m in ('pickle', 'copy', 'other')],
        'from_dict': [Variant(m, params={'examples': _mk_dict, 'immutable_warranty': _mode(m), 'name': 'none'},
                              post=_from_dict_post, hooks=_c09_hooks(), props=('C09',)) for m in ('pickle', 'copy')],
        'from_list': [Variant(m, params={'examples': _mk_list, 'immutable_warranty': _mode(m), 'name': 'none'},
                              post=_from_list_post, hooks=_c09_hooks(), props=('C09',)) for m in ('pickle', 'copy', 'wu')],
        # new(): dispatch on the container type; the result obeys the contract of the factory it selects
        'new': [Variant('dict-' + m, params={'examples': _mk_dict, 'immutable_warranty': _mode(m), 'name': 'none'},
                        post=_from_dict_post, hooks=_c09_hooks(), props=('C09',)) for m in ('pickle', 'copy')]
        + [Variant('list-' + m, params={'examples': _mk_list, 'immutable_warranty': _mode(m), 'name': 'none'},
                   post=_from_list_post, hooks=_c09_hooks(), props=('C09',)) for m in ('pickle', 'copy', 'wu')]
        + [Variant('unsupported-container', params={'examples': 'int', 'immutable_warranty': _mode('pickle'), 'name': 'none'},
                   post=lambda S, o: [('C09:new-rejects-a-container-it-cannot-isolate',
                                       exc_is(o.exc, S.eng.hier, 'TypeError') if o.kind == 'raise' else smt.F)],
                   hooks=_c09_hooks(), props=('C09',))],
    }


# ---- _CacheWrapper
def _cw_fields(self, eng, st):
    w, doid = _mk_cache(eng, st)
    return dict(st.heap[w.oid])


def _cw_get_post(S, o):
    me = S.eng.entry_heap[S.eng.self_oid]
    c = S.eng.entry_heap[me['cache'].oid]
    k = S.old.item
    if o.kind == 'return':
        return [('C09:read-returns-deserialize(stored)', z3.And(c['dom'](k), o.value.t == DESER(c['sto'](k)), LOADED(o.value.t)))]
    return [('cachewrapper:KeyError-iff-absent', z3.And(z3.Not(c['dom'](k)), exc_is(o.exc, S.eng.hier, 'KeyError')))]


def _cw_set_post(S, o):
    me = S.st.heap[S.eng.self_oid]
    c = S.st.heap[me['cache'].oid]
    k, v = S.old.key, S.old.value
    if o.kind not in ('normal', 'return'):
        return [('cachewrapper:store-does-not-raise', smt.F)]
    me0 = S.eng.entry_heap[S.eng.self_oid]
    c0 = S.eng.entry_heap[me0['cache'].oid]
    g = z3.Int('g_other_key')       # frame at a generic other key: nothing else in the cache changes
    return [('C09:store-keeps-serialize(value)-not-the-object', z3.And(c['dom'](k), c['sto'](k) == SER(v), IS_BYTES(c['sto'](k)))),
            ('C10:frame:a-store-changes-no-other-entry',
             z3.Implies(g != k, z3.And(c['dom'](g) == c0['dom'](g), c['sto'](g) == c0['sto'](g)))),
            ('C10:frame:the-store-keeps-its-serialisers-and-its-dict-object',
             z3.BoolVal(me['cache'].oid == me0['cache'].oid and me['_serialize'] is me0['_serialize']
                        and me['_deserialize'] is me0['_deserialize']))]


def _cw_contains_post(S, o):
    me = S.eng.entry_heap[S.eng.self_oid]
    c = S.eng.entry_heap[me['cache'].oid]
    k = S.old.item
    if o.kind == 'return' and isinstance(o.value, BoolV):
        return [('C10:contains-is-membership-in-the-stored-dict', o.value.t == c['dom'](k)),
                ('C10:frame:contains-changes-nothing', z3.BoolVal(S.st.heap[me['cache'].oid] is c or
                                                                  S.st.heap[me['cache'].oid] == c))]
    return [('C10:contains-returns-a-bool', smt.F)]


def _cw_init_post(S, o):
    if o.kind not in ('normal', 'return'):
        return [('cachewrapper:init-does-not-raise', smt.F)]
    me = S.st.heap[S.eng.self_oid]
    cache = me.get('cache')
    ok_empty = isinstance(cache, EmptyDictV) or (isinstance(cache, DictV) and not S.st.heap[cache.oid])
    ser, de = me.get('_serialize'), me.get('_deserialize')
    return [('C10:a-new-cache-is-empty', z3.BoolVal(bool(ok_empty))),
            ('C09:pickle-mode-stores-pickle.dumps-and-reads-pickle.loads',
             z3.BoolVal(isinstance(ser, BuiltinV) and ser.name == 'pickle.dumps' and isinstance(de, BuiltinV)
                        and de.name == 'pickle.loads'))]


class CacheWrapperC(ClassContract):
    cls = '_CacheWrapper'
    fields = _cw_fields

    def view(self, eng, st):
        return None
    methods = {
        '__getitem__': [Variant('int', params={'item': 'int'}, post=_cw_get_post, hooks=cache_hooks(), props=('C09', 'C10'),
                                inline=('__getitem__',))],
        '__setitem__': [Variant('int', params={'key': 'int', 'value': 'obj'}, post=_cw_set_post, hooks=cache_hooks(),
                                props=('C09', 'C10'), inline=('__setitem__',))],
        '__contains__': [Variant('int', params={'item': 'int'}, post=_cw_contains_post, hooks=cache_hooks(), props=('C10',),
                                 inline=('__contains__',))],
    }


# ---- copy mode (immutable_warranty='copy'): nothing is serialised, so the wrapper itself has to keep a PRIVATE object --
#      CacheDataset.__getitem__ hands the very object it stored to the caller on a miss
def _cw_copy_fields(self, eng, st):
    # the fields are what the real __init__('copy') sets; the (empty) dict is replaced by an arbitrary one
    me = InstV(eng.self_oid, '_CacheWrapper')
    eng.sinks.append([])
    res = eng.inline_call('core:_CacheWrapper.__init__', [me, StrV('copy')], {}, st)
    eng.sinks.pop()
    (st2, _), = res
    st.heap.update(st2.heap)
    st.pc[:] = st2.pc
    f = dict(st.heap[eng.self_oid])
    doid = eng.new_oid()
    DOM = z3.Function('DOM!%d' % doid, smt.Int, smt.Bool)
    STO = z3.Function('STO!%d' % doid, smt.Int, smt.Obj)
    st.heap[doid] = {'dom': (lambda r_: DOM(r_)), 'sto': (lambda r_: STO(r_))}
    f['cache'] = IntDictV(doid)
    return f


def _cw_copy_set_post(S, o):
    me = S.st.heap[S.eng.self_oid]
    c = S.st.heap[me['cache'].oid]
    k, v = S.old.key, S.old.value
    if o.kind not in ('normal', 'return'):
        return [('cachewrapper:store-does-not-raise', smt.F)]
    return [('C09:copy-mode-stores-a-private-copy-not-the-object-the-caller-keeps',
             z3.And(c['dom'](k), LOADED(c['sto'](k))))]      # LOADED: a fresh object nobody else holds (terms compare by VALUE)


def _cw_copy_get_post(S, o):
    me = S.eng.entry_heap[S.eng.self_oid]
    c = S.eng.entry_heap[me['cache'].oid]
    k = S.old.item
    if o.kind == 'return':
        return [('C09:copy-mode-read-returns-a-fresh-copy-of-the-stored-object',
                 z3.And(c['dom'](k), o.value.t == DESER(c['sto'](k)), LOADED(o.value.t)))]
    return [('cachewrapper:KeyError-iff-absent', z3.And(z3.Not(c['dom'](k)), exc_is(o.exc, S.eng.hier, 'KeyError')))]


class CacheWrapperCopyModeC(ClassContract):
    cls = '_CacheWrapper'
    fields = _cw_copy_fields

    def view(self, eng, st):
        return None
    methods = {
        '__setitem__': [Variant('copy-mode', params={'key': 'int', 'value': 'obj'}, post=_cw_copy_set_post, hooks=cache_hooks(),
                                props=('C09',), inline=('__setitem__',))],
        '__getitem__': [Variant('copy-mode', params={'item': 'int'}, post=_cw_copy_get_post, hooks=cache_hooks(),
                                props=('C09',), inline=('__getitem__',))],
    }


class CacheWrapperInitC(ClassContract):
    cls = '_CacheWrapper'

    def fields(self, eng, st):
        return {}

    def view(self, eng, st):
        return None
    methods = {
        '__init__': [Variant('pickle', params={'immutable_warranty': (lambda e, s: StrV('pickle'))}, post=_cw_init_post,
                             hooks=cache_hooks(), props=('C09', 'C10'))],
    }


CONTRACTS = [CacheDatasetC(), SerialisersC(), CacheWrapperC(), CacheWrapperInitC()]


# =============================================================== C11: disk cache
IS_DIR = z3.Bool('cache_dir_is_a_directory')
N_ENTRIES = z3.Int('cache_dir_entries')
DIR_EXISTS = z3.Bool('cache_directory_exists_at_release')


def _disk_hooks():
    def call_class_hook(eng, st, c, args, kwargs, node):
        return None

    def builtin_hook(eng, st, name, args, kwargs, node):
        if name == 'diskcache.Cache':
            st.ghost['opened'] = st.ghost.get('opened', ()) + ((args, kwargs),)
            v = OpaqueV('diskcache.Cache')
            v.args, v.kwargs = args, kwargs
            return [(st, v)]
        if name == 'shutil.rmtree':
            st.ghost['rmtree'] = st.ghost.get('rmtree', ()) + (args[0],)
            return [(st, NONE)]
        if name == 'shutil.disk_usage':
            return [(st, OpaqueV('disk_usage'))]
        if name.startswith('humanfriendly.'):
            return [(st, OpaqueStrV())]
        return None

    def resolve_call(eng, st, f, args, kwargs, node):
        if isinstance(f, ClassV) and f.name == 'Path':
            p = OpaqueV('Path')
            p.of = args[0]
            return [(st, p)]
        return None

    def opaque_method(eng, st, recv, name, args, kwargs):
        if recv.what == 'Path':
            if name == 'is_dir':
                return [(st, BoolV(IS_DIR))]
            if name == 'glob':
                return [(st, OpaqueV('glob'))]
            if name == 'exists':
                return [(st, BoolV(DIR_EXISTS))]
        if recv.what == 'diskcache.Cache' and name == 'close':
            st.ghost['closed_cache'] = True
            return [(st, NONE)]
        return None

    def list_hook(eng, st, x):
        if isinstance(x, OpaqueV) and x.what == 'glob':
            return [(st, SymSeqV(N_ENTRIES, lambda e: OpaqueV('entry'), 'list'))]
        return None

    def getattr_hook(eng, st, recv, attr, node):
        if isinstance(recv, OpaqueV) and recv.what == 'diskcache.Cache' and attr == 'directory':
            d = OpaqueV('cache.directory')
            d.of = recv
            return [(st, d)]
        if isinstance(recv, OpaqueV) and recv.what == 'disk_usage' and attr in ('free', 'total'):
            v = smt.fresh('disk_' + attr, smt.Int)
            st.pc.append(v >= 0)
            return [(st, IntV(v))]
        return None
    return dict(builtin_hook=builtin_hook, resolve_call=resolve_call, opaque_method=opaque_method, list_hook=list_hook,
                getattr_hook=getattr_hook)


def _dir_param(kind):
    def mk(eng, st):
        if kind == 'none':
            return NONE
        v = OpaqueV('cache_dir')
        return v
    return mk


def _dcw_init_post(S, o):
    env = S.eng.entry_env
    me = S.st.heap[S.eng.self_oid]
    given = not isinstance(env['cache_dir'], NoneV)
    occupied = z3.And(z3.BoolVal(given), IS_DIR, N_ENTRIES > 0)
    reuse = env['reuse'].t
    opened = S.st.ghost.get('opened', ())
    if o.kind == 'raise':
        return [('C11:refuses-exactly-a-non-empty-directory-without-reuse',
                 z3.And(occupied, z3.Not(reuse), exc_is(o.exc, S.eng.hier, 'RuntimeError'))),
                ('C11:a-refused-directory-is-not-touched-and-will-not-be-cleared',
                 z3.BoolVal(not opened and 'cache' not in me))]
    ok_open = len(opened) == 1 and opened[0][0] and opened[0][0][0] is env['cache_dir'] \
        and isinstance(opened[0][1].get('eviction_policy'), StrV) and opened[0][1]['eviction_policy'].s == 'none'
    # the assumed contract of diskcache (values are pickled on store and unpickled -- fresh -- on every read) is the one of
    # its DEFAULT storage back end: the cache must be opened with no other option than the disabled eviction
    plain = len(opened) == 1 and set(opened[0][1]) == {'eviction_policy'} and len(opened[0][0]) == 1
    return [('C11:accepts-otherwise', z3.Or(z3.Not(occupied), reuse)),
            ('C11:opens-exactly-that-directory-with-eviction-disabled', z3.BoolVal(bool(ok_open))),
            ('C09:the-cache-uses-the-default-(pickling)-storage-of-diskcache', z3.BoolVal(bool(plain))),
            ('C11:remembers-clear-and-reuse', z3.BoolVal(me.get('clear') is env['clear'] and me.get('reuse') is env['reuse']))]


def _dcw_del_fields(has_cache):
    def fields(self, eng, st):
        f = {'clear': BoolV(smt.fresh('clear', smt.Bool)), 'reuse': BoolV(smt.fresh('reuse', smt.Bool))}
        if has_cache:
            c = OpaqueV('diskcache.Cache')
            c.args, c.kwargs = [], {}
            f['cache'] = c
        return f
    return fields


def _dcw_del_post(has_cache):
    def post(S, o):
        me = S.eng.entry_heap[S.eng.self_oid]
        rm = S.st.ghost.get('rmtree', ())
        if o.kind == 'raise':
            return [('C11:__del__-is-total', smt.F)]
        if not has_cache:
            return [('C11:nothing-happens-when-construction-was-refused',
                     z3.BoolVal(not rm and not S.st.ghost.get('closed_cache')))]
        clear = me['clear'].t
        ok_target = all(isinstance(x, OpaqueV) and x.what == 'cache.directory' and x.of is me['cache'] for x in rm)
        return [('C11:closes-the-cache', z3.BoolVal(bool(S.st.ghost.get('closed_cache')))),
                ('C11:removes-the-directory-iff-clear', z3.And(z3.Implies(z3.And(clear, DIR_EXISTS), z3.BoolVal(len(rm) == 1)),
                                                               z3.Implies(z3.Not(clear), z3.BoolVal(len(rm) == 0)))),
                ('C11:removes-only-its-own-directory', z3.BoolVal(bool(ok_target)))]
    return post


DK_HAS = z3.Function('DISK_HAS', smt.Int, smt.Bool)
DK_VAL = z3.Function('DISK_VAL', smt.Int, smt.Obj)


def _dk_hooks():
    """assumed contract of diskcache.Cache as a durable key -> value map (DESIGN 2.9)"""
    h = _disk_hooks()

    def subscript_hook(eng, st, recv, idx, node):
        if isinstance(recv, OpaqueV) and recv.what == 'diskcache.Cache' and isinstance(idx, IntV):
            res = []
            for s2, has in eng.branch(st, DK_HAS(idx.t)):
                if has:
                    res.append((s2, ObjV(DK_VAL(idx.t))))
                else:
                    eng.raise_(s2, eng.new_exc(s2, 'KeyError'))
            return res
        return None

    def store_subscript(eng, st, recv, idx, v, node):
        if isinstance(recv, OpaqueV) and recv.what == 'diskcache.Cache' and isinstance(idx, IntV):
            st.ghost['disk_writes'] = st.ghost.get('disk_writes', ()) + ((idx.t, v),)
            return [st]
        return None
    base_om = h['opaque_method']

    def opaque_method(eng, st, recv, name, args, kwargs):
        if recv.what == 'diskcache.Cache' and name == 'get' and args and isinstance(args[0], IntV):
            k = args[0].t
            default = args[1] if len(args) > 1 else kwargs.get('default', NONE)
            res = []
            for s2, has in eng.branch(st, DK_HAS(k)):
                res.append((s2, ObjV(DK_VAL(k)) if has else default))
            return res
        if recv.what == 'diskcache.Cache' and name == 'set' and len(args) >= 2 and isinstance(args[0], IntV):
            st.ghost['disk_writes'] = st.ghost.get('disk_writes', ()) + ((args[0].t, args[1]),)
            return [(st, BoolV(True))]
        return base_om(eng, st, recv, name, args, kwargs)
    h.update(subscript_hook=subscript_hook, store_subscript=store_subscript, opaque_method=opaque_method)
    return h


def _dk_get_post(S, o):
    k = S.old.item
    if o.kind == 'return':
        return [('C11:a-stored-example-is-served-from-disk', z3.And(DK_HAS(k), eqv(o.value, ObjV(DK_VAL(k))) if isinstance(o.value, ObjV) else smt.F))]
    return [('C11:KeyError-exactly-for-an-absent-position', z3.And(z3.Not(DK_HAS(k)), exc_is(o.exc, S.eng.hier, 'KeyError')))]


def _dk_set_post(S, o):
    w = S.st.ghost.get('disk_writes', ())
    if o.kind == 'raise':
        return [('C11:store-does-not-raise', smt.F)]
    ok = len(w) == 1 and w[0][1] is S.eng.entry_env['value']
    return [('C11:stores-exactly-the-value-under-exactly-the-position',
             z3.And(z3.BoolVal(bool(ok)), w[0][0] == S.old.key) if w else smt.F)]


def _mk_dcw(has_cache):
    class C(ClassContract):
        cls = '_DiskCacheWrapper'
        fields = _dcw_del_fields(has_cache)

        def view(self, eng, st):
            return None
    C.methods = {'__del__': [Variant('with-cache' if has_cache else 'after-refused-construction',
                                     post=_dcw_del_post(has_cache), hooks=_disk_hooks(), props=('C11',))]}
    if has_cache:
        # the last reference may be dropped at interpreter shutdown (a dataset held by a function default,
        # a module global): __del__ then runs while imports fail
        h = _disk_hooks()
        h['imports_may_fail'] = True
        C.methods['__del__'].append(Variant('with-cache,at-interpreter-shutdown', post=_dcw_del_post(True), hooks=h,
                                            props=('C11',)))
    if has_cache:
        C.methods['__getitem__'] = [Variant('int', params={'item': 'int'}, post=_dk_get_post, hooks=_dk_hooks(),
                                            props=('C11',), inline=('__getitem__',))]
        C.methods['__setitem__'] = [Variant('int', params={'key': 'int', 'value': 'obj'}, post=_dk_set_post,
                                            hooks=_dk_hooks(), props=('C11',), inline=('__setitem__',))]
        C.methods['__init__'] = [Variant('dir=%s' % k, params={'cache_dir': _dir_param(k), 'reuse': 'bool', 'clear': 'bool'},
                                         post=_dcw_init_post, hooks=_disk_hooks(), props=('C11', 'C09')) for k in ('given', 'none')]
    return C()


def _disk_copy_post(S, o):
    out = post_copy(S, o)
    if o.kind == 'return' and isinstance(o.value, InstV):
        new = S.st.heap[o.value.oid]
        me = S.eng.entry_heap[S.eng.self_oid]
        out.append(('C11:copy-shares-the-one-wrapper-object', z3.BoolVal(new.get('_cache') is me['_cache'])))
    return out


class DiskCacheDatasetC(ClassContract):
    cls = 'DiskCacheDataset'

    def fields(self, eng, st):
        d = smt.fresh('d_in', smt.DS)
        st.pc.append(smt.IDX(d))
        w = OpaqueV('the _DiskCacheWrapper')
        return {'input_dataset': DSRefV(d), '_cache': w}

    def view(self, eng, st):
        return PassView(AbsView(st.heap[eng.self_oid]['input_dataset'].t))

    methods = {'copy': [Variant('freeze=any', params={'freeze': 'bool'}, post=_disk_copy_post, hooks=cache_hooks(),
                                props=('C11', 'C13'))]}


CONTRACTS = [CacheDatasetC(), SerialisersC(), CacheWrapperC(), CacheWrapperInitC(), CacheWrapperCopyModeC(), _mk_dcw(True), _mk_dcw(False), DiskCacheDatasetC()]


# =============================================================== C10: eager caching = snapshot (new / from_dataset / Dataset.cache)
class SnapshotV(Val):
    """list(<one pass over a dataset>): the examples (or items) as they were at call time"""
    kind = 'snapshot'

    def __init__(self, source, with_key, derived=None):
        self.source, self.with_key, self.derived = source, with_key, derived


def _snap_hooks():
    def list_hook(eng, st, x):
        from pyvc.engine import IterV, StreamV, GenStreamV
        if isinstance(x, (DSRefV, StageV)):
            st.ghost['passes'] = st.ghost.get('passes', ()) + (('values', x),)
            return [(st, SnapshotV(x, False))]
        if isinstance(x, OpaqueV) and x.what == 'items-of-dataset':
            # ds.items() iterated once: refuses with ItemsNotDefined when the pipeline has no items
            res = []
            d = x.of
            for s2, has in eng.branch(st, smt.ITEMS(d.t)):
                if has:
                    s2.ghost['passes'] = s2.ghost.get('passes', ()) + (('items', d),)
                    res.append((s2, SnapshotV(d, True)))
                else:
                    eng.raise_(s2, eng.new_exc(s2, 'ItemsNotDefined'))
            return res
        if isinstance(x, OpaqueV) and x.what == 'map(itemgetter(1), items)':
            return [(st, SnapshotV(x.of.source, True, derived='values-of-items'))]
        return None

    def any_method(eng, st, recv, name, args, kwargs):
        if isinstance(recv, DSRefV) and name == 'items' and not args:
            o = OpaqueV('items-of-dataset')
            o.of = recv
            return [(st, o)]
        return None

    def builtin_hook(eng, st, name, args, kwargs, node):
        if name == 'dict' and len(args) == 1 and isinstance(args[0], SnapshotV) and args[0].with_key:
            v = SnapshotV(args[0].source, True, derived='dict')
            v.nodup = smt.fresh('keys_are_unique', smt.Bool)
            return [(st, v)]
        from pyvc.engine import ItemGetterV
        if name == 'map' and len(args) == 2 and isinstance(args[0], ItemGetterV) and isinstance(args[1], SnapshotV):
            o = OpaqueV('map(itemgetter(1), items)')
            o.of = args[1]
            return [(st, o)]
        return None

    def len_hook(eng, st, x):
        if isinstance(x, SnapshotV):
            # one pass over the pipeline yields NIT pairs; dict(pairs) has ND <= NIT entries, equal iff the keys are unique
            nit = st.ghost.get('snap_items_len')
            if nit is None:
                nit = IntV(smt.fresh('n_yielded_pairs', smt.Int))
                st.pc.append(nit.t >= 0)
                st.ghost['snap_items_len'] = nit
            if x.derived == 'dict':
                nd = smt.fresh('n_distinct_keys', smt.Int)
                nodup = getattr(x, 'nodup', None)
                if nodup is None:
                    nodup = x.nodup = smt.fresh('keys_are_unique', smt.Bool)
                st.pc += [nd >= 0, nd <= nit.t, (nd == nit.t) == nodup]
                x.len_term = nd
                return [(st, IntV(nd))]
            x.len_term = nit.t
            return [(st, IntV(nit.t))]
        return None

    def eq_hook(eng, st, a, b):
        return None

    def resolve_call(eng, st, f, args, kwargs, node):
        if isinstance(f, BuiltinV) and f.name in ('repo.from_dict', 'repo.from_list', 'repo.from_dataset', 'repo.from_file'):
            return [(st, StageV(f.name[5:], list(args), dict(kwargs)))]
        return None
    return dict(list_hook=list_hook, any_method=any_method, builtin_hook=builtin_hook, len_hook=len_hook,
                resolve_call=resolve_call)


def _from_dataset_post(S, o):
    env = S.eng.entry_env
    d = env['examples']
    passes = S.st.ghost.get('passes', ())
    if o.kind == 'raise':
        return [('C10:from_dataset-does-not-raise-by-itself', smt.F)]
    v = o.value
    ok = isinstance(v, StageV) and v.cls in ('from_dict', 'from_list') and v.args and isinstance(v.args[0], SnapshotV) \
        and v.args[0].source is d
    lost = []
    if ok and v.cls == 'from_dict':
        snap = v.args[0]
        nodup = getattr(snap, 'nodup', None)
        # a dict keeps one example per key: it may only be chosen when the pass yielded no key twice
        lost = [('C01:from_dataset-keeps-every-example(a-dict-is-chosen-only-for-unique-keys)',
                 nodup if nodup is not None else smt.F)]
    out = lost + [('C10:eager-caching-stores-a-snapshot-taken-by-passes-over-the-pipeline-at-call-time', z3.BoolVal(bool(ok))),
           ('C10:at-most-one-successful-pass(one-evaluation-per-example)', z3.BoolVal(len(passes) == 1)),
           ('C09:the-snapshot-goes-through-the-serialising-constructor',
            z3.BoolVal(bool(ok) and v.kwargs.get('immutable_warranty') is env['immutable_warranty']))]
    return out


def _cache_factory_post(lazy):
    def post(S, o):
        from contracts.factories import is_self
        d = S.eng.entry_env['self']
        if o.kind == 'raise':
            return [('cache:rejects-only-unsuitable-input',
                     z3.And(exc_is(o.exc, S.eng.hier, 'AssertionError'),
                            z3.Not(smt.IDX(d.t)) if lazy else z3.Not(z3.Or(smt.IDX(d.t), smt.ORD(d.t)))))]
        v = o.value
        if lazy:
            ok = isinstance(v, StageV) and v.cls == 'CacheDataset' and isinstance(v.args[0], DSRefV)
            return [('C10:lazy-cache-builds-CacheDataset(self, keep_mem_free or 8 GB)', z3.BoolVal(bool(ok))),
                    ('cache:input-is-self', is_self(S, v.args[0]) if ok else smt.F),
                    ('C08:construction-evaluates-nothing', z3.BoolVal(not S.st.ghost.get('log') and not S.st.ghost.get('passes')))]
        ok = isinstance(v, StageV) and v.cls == 'from_dataset' and v.args and isinstance(v.args[0], DSRefV)
        return [('C10:eager-cache-is-new(self)(a-snapshot-at-call-time)', z3.BoolVal(bool(ok))),
                ('cache:input-is-self', is_self(S, v.args[0]) if ok else smt.F)]
    return post


class FromDatasetC(FuncContract):
    mod = 'core'
    cls = None
    methods = {'from_dataset': [Variant('snapshot', params={'examples': 'ds', 'immutable_warranty': (lambda e, s: StrV('pickle')),
                                                            'name': 'none'},
                                        post=_from_dataset_post, hooks=_snap_hooks(), props=('C10', 'C09', 'C01'))]}


from contracts.factories import DatasetC as _DatasetC     # noqa


class CacheFactoryC(_DatasetC):
    methods = {'cache': [Variant('lazy', params={'lazy': 'true', 'keep_mem_free': 'none'}, post=_cache_factory_post(True),
                                 hooks=_snap_hooks(), props=('C10', 'C08')),
                         Variant('eager', params={'lazy': 'false', 'keep_mem_free': 'none'}, post=_cache_factory_post(False),
                                 hooks=_snap_hooks(), props=('C10',))]}


CONTRACTS = CONTRACTS + [FromDatasetC(), CacheFactoryC()]
