"""C17, the iteration half: DynamicBucketDataset.__iter__ against the *protocol* of a bucket class
(DynamicBucket: __init__(example, **kw) opens a bucket holding that example, maybe_append(example) -> bool adds it or
not, is_completed() -> bool, .data the list of its examples; the protocol's own bounds -- batch_size, padding rate,
max_total_size -- are the class invariant of the bucket class, proved in contracts/bucket.py for DynamicTimeSeriesBucket).

State model.  `buckets` is a python list of (bucket, creation index) pairs: (L, bid(t), cre(t)); every bucket object has an
identity (a creation counter) and a mutable size  dlen(id) = len(bucket.data)  and a completion flag done(id).
Ghost: PS(t) = sum_{t' < t} dlen(bid(t'))  (prefix sums of the buffered examples), EMITTED = examples in yielded batches.
What is proved, for every input length, every bucket class obeying the protocol and every parameter setting
(expiration >= 1 or None, max_buffered_examples >= 0 or None):
  * every yielded batch is the content of ONE bucket (or `sorted` of it), and that bucket is non-empty;
  * conservation by counting: consumed = EMITTED + buffered + dropped at every loop head, buffered_count is exactly the
    number of buffered examples, and at the end consumed = EMITTED + dropped; with drop_incomplete=False nothing is
    dropped, so every consumed example is in an emitted batch;
  * a completed bucket is always emitted (never dropped); the other three exits emit iff not drop_incomplete;
  * no open bucket is older than `expiration` examples at any loop head; at most max_buffered_examples examples are
    buffered at any loop head; maybe_append is never called on a completed bucket (its assertion cannot fire).
Not proved here: that the positions inside the buckets are pairwise distinct source positions (exactly-once as a set
statement rather than by counting) -- bounded stand-in `bounded-bucket-iter`."""
import ast

import z3

from pyvc import smt
from pyvc.smt import I
from pyvc.values import *          # noqa
from pyvc.engine import KwArgsV
from pyvc.contract import *        # noqa
from pyvc.views import AbsView, Out
from contracts.stages2 import F


class BucketsV(Val):
    kind = 'list-of-(bucket,creation-index)'

    def __init__(self, oid):
        self.oid = oid


class BucketRefV(Val):
    kind = 'bucket'

    def __init__(self, bid):
        self.bid = bid

    def subst(self, var, e):
        return BucketRefV(z3.substitute(self.bid, (var, e)))


class OptBucketV(BucketRefV):
    """`bucket` while the first-fit scan runs: None or a bucket (after havoc); None-ness is a symbolic boolean"""
    kind = 'optional-bucket'

    def __init__(self, is_none, bid):
        BucketRefV.__init__(self, bid)
        self.is_none_term = is_none


class DataV(Val):
    """bucket.data (or sorted(bucket.data, ...)) of bucket `bid`, read when the bucket held `n` examples"""
    kind = 'bucket-data'

    def __init__(self, bid, n, is_sorted=False):
        self.bid, self.n, self.is_sorted = bid, n, is_sorted


def _cells(st, eng):
    return st.heap[eng._bk_oid]


def _new_state(tag):
    c = next(smt._counter)
    DL = z3.Function('DLEN!%d' % c, smt.Int, smt.Int)
    DN = z3.Function('DONE!%d' % c, smt.Int, smt.Bool)
    return {'dlen': (lambda b: DL(b)), 'done': (lambda b: DN(b)), 'nb': smt.fresh('n_buckets_created', smt.Int)}


def _new_list(tag):
    c = next(smt._counter)
    BID = z3.Function('BID!%d' % c, smt.Int, smt.Int)
    CRE = z3.Function('CRE!%d' % c, smt.Int, smt.Int)
    PS = z3.Function('PS!%d' % c, smt.Int, smt.Int)
    return {'L': smt.fresh('n_open', smt.Int), 'bid': (lambda t: BID(t)), 'cre': (lambda t: CRE(t)), 'ps': (lambda t: PS(t))}


def _log(st, ev):
    st.ghost['exits'] = st.ghost.get('exits', ()) + (ev,)


def _hooks():
    def list_hook(eng, st, x):
        if x is None:
            oid = eng.new_oid()
            st.heap[oid] = {'L': I(0), 'bid': (lambda t: I(-1)), 'cre': (lambda t: I(-1)), 'ps': (lambda t: I(0))}
            eng._bk_oid = eng.new_oid()
            st.heap[eng._bk_oid] = {'dlen': (lambda b: I(0)), 'done': (lambda b: smt.F), 'nb': I(0)}
            eng._buckets_oid = oid
            return [(st, BucketsV(oid))]
        return None

    def any_getattr(eng, st, recv, attr):
        if isinstance(recv, BucketsV) and attr in ('append', 'pop'):
            return [(st, BoundV(recv, attr))]
        if isinstance(recv, BucketRefV) and attr in ('maybe_append', 'is_completed'):
            return [(st, BoundV(recv, attr))]
        if isinstance(recv, BucketRefV) and attr == 'data':
            bk = _cells(st, eng)
            return [(st, DataV(recv.bid, bk['dlen'](recv.bid)))]
        return None

    def any_method(eng, st, recv, name, args, kwargs):
        if isinstance(recv, BucketsV):
            cell = st.heap[recv.oid]
            bk = _cells(st, eng)
            L, bid, cre, ps = cell['L'], cell['bid'], cell['cre'], cell['ps']
            if name == 'append' and len(args) == 1 and isinstance(args[0], TupleV) and len(args[0].items) == 2 \
                    and isinstance(args[0].items[0], BucketRefV) and isinstance(args[0].items[1], IntV):
                b, c = args[0].items[0].bid, args[0].items[1].t
                st.heap[recv.oid] = {'L': L + 1,
                                     'bid': (lambda t, bid=bid, L=L, b=b: z3.If(t == L, b, bid(t))),
                                     'cre': (lambda t, cre=cre, L=L, c=c: z3.If(t == L, c, cre(t))),
                                     'ps': (lambda t, ps=ps, L=L, b=b, bk=bk: z3.If(t == L + 1, ps(L) + bk['dlen'](b), ps(t)))}
                return [(st, NONE)]
            if name == 'pop' and len(args) == 1 and isinstance(args[0], IntV):
                r = args[0].t
                res = []
                for s2, ok in eng.branch(st, z3.And(r >= -L, r < L)):
                    if not ok:
                        eng.raise_(s2, eng.new_exc(s2, 'IndexError'))
                        continue
                    rr = z3.If(r < 0, r + L, r)
                    d = bk['dlen'](bid(rr))
                    # "exactly the batches that never completed are dropped": a bucket that IS completed leaves the
                    # list only after it has been emitted (the yield just before)
                    ly = s2.ghost.get('last_yield_bid')
                    eng.oblige('pop@%s:C17:a-completed-bucket-is-emitted-before-it-leaves-the-list' % eng.where(node if False else None),
                               s2, z3.Implies(bk['done'](bid(rr)), ly.t == bid(rr) if ly is not None else smt.F), 'assert')
                    s2.heap[recv.oid] = {'L': L - 1,
                                         'bid': (lambda t, bid=bid, rr=rr: z3.If(t < rr, bid(t), bid(t + 1))),
                                         'cre': (lambda t, cre=cre, rr=rr: z3.If(t < rr, cre(t), cre(t + 1))),
                                         'ps': (lambda t, ps=ps, rr=rr, d=d: z3.If(t <= rr, ps(t), ps(t + 1) - d))}
                    res.append((s2, TupleV([BucketRefV(bid(rr)), IntV(cre(rr))])))
                return res
            return None
        if isinstance(recv, BucketRefV):
            bk = _cells(st, eng)
            b = recv.bid
            lst = st.heap[eng._buckets_oid]
            if name == 'is_completed' and not args:
                return [(st, BoolV(bk['done'](b)))]
            if name == 'maybe_append' and len(args) == 1:
                res = []
                for s2, completed in eng.branch(st, bk['done'](b)):
                    if completed:
                        # the protocol asserts `not self.is_completed()`
                        eng.raise_(s2, eng.new_exc(s2, 'AssertionError'))
                        continue
                    took = smt.fresh('appended', smt.Bool)
                    for s3, yes in eng.branch(s2, took):
                        if not yes:
                            res.append((s3, BoolV(False)))       # nothing changes
                            continue
                        nd = smt.fresh('completed_now', smt.Bool)
                        dl, dn = bk['dlen'], bk['done']
                        s3.heap[eng._bk_oid] = dict(bk, dlen=(lambda x, dl=dl, b=b: z3.If(x == b, dl(b) + 1, dl(x))),
                                                    done=(lambda x, dn=dn, b=b, nd=nd: z3.If(x == b, nd, dn(x))))
                        # the prefix sums above the slot that holds this bucket grow by one
                        SLOT = smt.fresh('slot_of_bucket', smt.Int)
                        L, bid, ps = lst['L'], lst['bid'], lst['ps']
                        s3.pc.append(z3.Implies(z3.And(SLOT >= 0, SLOT < L), bid(SLOT) == b))
                        slot = getattr(recv, 'slot', None)
                        if slot is None:
                            raise Unsupported('maybe_append on a bucket that was not read from the list')
                        s3.heap[eng._buckets_oid] = dict(lst, ps=(lambda t, ps=ps, slot=slot: z3.If(t > slot, ps(t) + 1, ps(t))))
                        res.append((s3, BoolV(True)))
                return res
        return None

    def resolve_call(eng, st, f, args, kwargs, node):
        # self.bucket_cls(example, **self.bucket_kwargs): a NEW bucket holding that one example
        if isinstance(f, OpaqueV) and f.what == 'bucket_cls' and len(args) == 1:
            bk = _cells(st, eng)
            b = bk['nb']
            dl, dn = bk['dlen'], bk['done']
            nd = smt.fresh('completed_at_creation', smt.Bool)
            st.heap[eng._bk_oid] = {'dlen': (lambda x, dl=dl, b=b: z3.If(x == b, I(1), dl(x))),
                                    'done': (lambda x, dn=dn, b=b, nd=nd: z3.If(x == b, nd, dn(x))), 'nb': b + 1}
            _log(st, ('create', b))
            return [(st, BucketRefV(b))]
        return None

    def len_hook(eng, st, x):
        if isinstance(x, BucketsV):
            return [(st, IntV(st.heap[x.oid]['L']))]
        if isinstance(x, DataV):
            return [(st, IntV(x.n))]
        return None

    def builtin_hook(eng, st, name, args, kwargs, node):
        if name == 'sorted' and len(args) == 1 and isinstance(args[0], DataV):
            return [(st, DataV(args[0].bid, args[0].n, True))]
        return None

    def iter_obj_descr(eng, st, it):
        if isinstance(it, BucketsV):
            def elem(t, it=it):
                cur = getattr(eng, 'live_state', None) or st
                cell = cur.heap[it.oid]
                ref = BucketRefV(cell['bid'](t))
                ref.slot = t
                return [Out(smt.T, value=TupleV([ref, IntV(cell['cre'](t))]))]
            return st.heap[it.oid]['L'], elem
        return None

    def havoc_value(eng, st, name, v):
        if isinstance(v, BucketsV):
            return v
        if name == 'bucket' and isinstance(v, NoneV):
            return OptBucketV(smt.fresh('bucket_is_None', smt.Bool), smt.fresh('some_bucket', smt.Int))
        if isinstance(v, BucketRefV):
            r = BucketRefV(smt.fresh('some_bucket', smt.Int))
            return r
        if isinstance(v, DataV):
            return DataV(smt.fresh('some_bucket', smt.Int), smt.fresh('some_len', smt.Int), v.is_sorted)
        return None

    def havoc_heap(eng, st, ordinal, names, mutated):
        # the outer loop, the overflow loop: the list and the bucket states are arbitrary (constrained by the invariant);
        # the two scanning loops ('0.0' first fit, '0.1' expiry) leave both untouched on the path that continues
        if ordinal in ('0', '0.2'):
            st.heap[eng._buckets_oid] = _new_list(ordinal)
            st.heap[eng._bk_oid] = _new_state(ordinal)
            for k_ in ('EMITTED',):
                st.ghost[k_] = IntV(smt.fresh('g_' + k_, smt.Int))

    def truth_hook(eng, st, v):
        if isinstance(v, BucketRefV):
            return smt.T
        return None

    def subscript_hook(eng, st, recv, idx, node):
        return None
    return dict(list_hook=list_hook, any_getattr=any_getattr, any_method=any_method, resolve_call=resolve_call,
                len_hook=len_hook, builtin_hook=builtin_hook, iter_obj_descr=iter_obj_descr, havoc_value=havoc_value,
                havoc_heap=havoc_heap, truth_hook=truth_hook, feas_timeout_ms=600)


def _fields(self, eng, st):
    exp = smt.fresh('expiration', smt.Int)
    mb = smt.fresh('max_buffered_examples', smt.Int)
    st.pc += [exp >= 1, mb >= 0]
    return {'input_dataset': DSRefV(smt.fresh('d_in', smt.DS)), 'bucket_cls': OpaqueV('bucket_cls'),
            'expiration': None, 'max_buffered_examples': None,      # filled per variant
            'drop_incomplete': BoolV(smt.fresh('drop_incomplete', smt.Bool)),
            'sort_key': None, 'reverse_sort': BoolV(smt.fresh('reverse_sort', smt.Bool)),
            'bucket_kwargs': KwArgsV({}, OpaqueV('bucket-keyword-arguments')),
            '_exp': IntV(exp), '_mb': IntV(mb)}


def _setup(with_exp, with_mb, with_sort):
    def setup(eng, st):
        me = st.heap[eng.self_oid]
        me['expiration'] = me['_exp'] if with_exp else NONE
        me['max_buffered_examples'] = me['_mb'] if with_mb else NONE
        me['sort_key'] = FnV(smt.fresh('sort_key', smt.Fn)) if with_sort else NONE
        st.ghost['EMITTED'] = IntV(I(0))
        st.ghost['last_yield_bid'] = IntV(I(-1))
    return setup


def _same_cell(a, b):
    """the same model state: every component is the very same python callable / z3 term (cells are copied on fork,
    their components are replaced -- never mutated -- by the hooks)"""
    if set(a) != set(b):
        return False
    for k in a:
        x, y = a[k], b[k]
        if z3.is_expr(x) and z3.is_expr(y):
            if not x.eq(y):
                return False
        elif x is not y:
            return False
    return True


def _untouched(S):
    e = S.entry
    return _same_cell(S.st.heap[S.eng._buckets_oid], e.st.heap[S.eng._buckets_oid]) and \
        _same_cell(S.st.heap[S.eng._bk_oid], e.st.heap[S.eng._bk_oid])


def _locals_unchanged(S, names=('buffered_count', 'dropped_count', 'total_count')):
    """the counters a scanning loop only touches on the path that leaves it"""
    e = S.entry
    cs = [S.st.ghost['EMITTED'].t == e.st.ghost['EMITTED'].t]
    for n in names:
        if n in S.st.env and n in e.st.env:
            cs.append(S.st.env[n].t == e.st.env[n].t)
    return ('counters-unchanged-while-the-scan-continues', z3.And(*cs))


def _is_none(v):
    if isinstance(v, NoneV):
        return smt.T
    t = getattr(v, 'is_none_term', None)
    return t if t is not None else smt.F


def _lst(S):
    return S.st.heap[S.eng._buckets_oid]


def _bk(S):
    return S.st.heap[S.eng._bk_oid]


def _q(S, vs, body, pats=None):
    """forall when assumed, generic instance when proved"""
    if S.proving:
        sub = [(v, smt.fresh(str(v).strip('_') + '_any', smt.Int)) for v in vs]
        return z3.substitute(body, *sub)
    def plain(p_):
        ts = p_.children() if z3.is_app(p_) and p_.decl().kind() == z3.Z3_OP_UNINTERPRETED and p_.decl().name() == 'MultiPattern' else [p_]
        try:
            n = p_.num_args() if hasattr(p_, 'num_args') and not z3.is_app(p_) else None
        except Exception:   # noqa
            n = None
        return 'if' not in p_.sexpr().replace('(ite', '(if').split('(if')[0] and '(ite' not in p_.sexpr()
    if pats and all(plain(p_) for p_ in pats):
        return z3.ForAll(vs, body, patterns=pats)
    return z3.ForAll(vs, body)


def _list_wf(S, consumed, with_exp, age_ref):
    """well-formedness of the open-bucket list with `consumed` examples consumed"""
    lst, bk = _lst(S), _bk(S)
    L, bid, cre, ps = lst['L'], lst['bid'], lst['cre'], lst['ps']
    t, t2 = z3.Ints('_bt _bt2')
    me = S.st.heap[S.eng.self_oid]
    out = [('list-length', z3.And(L >= 0, bk['nb'] >= 0)),
           ('open-buckets-are-incomplete-and-non-empty',
            _q(S, [t], z3.Implies(z3.And(t >= 0, t < L),
                                  z3.And(z3.Not(bk['done'](bid(t))), bk['dlen'](bid(t)) >= 1, bid(t) >= 0, bid(t) < bk['nb'],
                                         cre(t) >= 0, cre(t) < consumed)), [bid(t)])),
           ('open-buckets-are-distinct-and-in-creation-order',
            _q(S, [t, t2], z3.Implies(z3.And(t >= 0, t < t2, t2 < L), z3.And(bid(t) != bid(t2), cre(t) < cre(t2))),
               [z3.MultiPattern(bid(t), bid(t2))])),
           ('prefix-sums-of-the-buffered-examples',
            z3.And(ps(I(0)) == 0, _q(S, [t], z3.Implies(z3.And(t >= 0, t < L), ps(t + 1) == ps(t) + bk['dlen'](bid(t))), [ps(t + 1)])))]
    if with_exp and age_ref is not None:
        exp = me['_exp'].t
        out.append(('C17:no-open-bucket-is-older-than-expiration',
                    _q(S, [t], z3.Implies(z3.And(t >= 0, t < L), age_ref - cre(t) < exp), [cre(t)])))
    return out


def _counts(S, consumed):
    lst = _lst(S)
    v = S.v
    E = S.st.ghost['EMITTED'].t
    me = S.st.heap[S.eng.self_oid]
    drop = me['drop_incomplete'].t
    return [('C17:buffered_count-is-the-number-of-buffered-examples', v.buffered_count == lst['ps'](lst['L'])),
            ('C17:consumed=emitted+buffered+dropped', z3.And(v.total_count == consumed, consumed == E + lst['ps'](lst['L']) + v.dropped_count,
                                                           v.dropped_count >= 0, E >= 0)),
            ('C17:nothing-is-dropped-unless-drop_incomplete', z3.Implies(z3.Not(drop), v.dropped_count == 0))]


def _variant(with_exp, with_mb, with_sort):
    def inv_outer(S):
        me = S.st.heap[S.eng.self_oid]
        out = _list_wf(S, S.k, with_exp, S.k - 1) + _counts(S, S.k)
        if with_mb:
            out.append(('C17:at-most-max_buffered_examples-are-buffered',
                        z3.Implies(S.k > 0, S.v.buffered_count <= me['_mb'].t)))
        return out

    def inv_first_fit(S):
        # scanning for the first bucket that takes the example: nothing has changed while the scan continues
        same = _untouched(S)
        return [('scan-leaves-the-buckets-untouched-until-one-accepts', z3.BoolVal(bool(same))),
                ('no-bucket-chosen-yet', _is_none(S.st.env.get('bucket'))), _locals_unchanged(S)]

    def inv_expiry(S):
        me = S.st.heap[S.eng.self_oid]
        same = _untouched(S)
        lst = _lst(S)
        t = z3.Int('_bt')
        i = S.v.i
        out = [('scan-leaves-the-buckets-untouched-until-one-expires', z3.BoolVal(bool(same))), _locals_unchanged(S),
               ('buckets-scanned-so-far-are-not-expired',
                _q(S, [t], z3.Implies(z3.And(t >= 0, t < S.k), i - lst['cre'](t) < me['_exp'].t), [lst['cre'](t)]))]
        return out

    def inv_overflow(S):
        i = S.v.i
        return _list_wf(S, i + 1, with_exp, i) + _counts(S, i + 1)

    def inv_flush(S):
        lst = _lst(S)
        E = S.st.ghost['EMITTED'].t
        v = S.v
        me = S.st.heap[S.eng.self_oid]
        same = _untouched(S)
        return [('flush-leaves-the-buckets-untouched', z3.BoolVal(bool(same))), ('total-unchanged', v.total_count == S.entry.st.env['total_count'].t),
                ('C17:consumed=emitted+still-to-flush+dropped',
                 z3.And(v.total_count == E + (lst['ps'](lst['L']) - lst['ps'](S.k)) + v.dropped_count, v.dropped_count >= 0)),
                ('C17:nothing-is-dropped-unless-drop_incomplete', z3.Implies(z3.Not(me['drop_incomplete'].t), v.dropped_count == 0))]

    def on_yield(S, value):
        bk = _bk(S)
        if not isinstance(value, DataV):
            return [('C17:every-emitted-batch-is-the-content-of-one-bucket', smt.F)]
        S.st.ghost['last_batch_len'] = IntV(value.n)
        S.st.ghost['last_yield_bid'] = IntV(value.bid)
        me = S.st.heap[S.eng.self_oid]
        return [('C17:every-emitted-batch-is-the-content-of-one-bucket', value.n == bk['dlen'](value.bid)),
                ('C17:every-emitted-batch-is-non-empty', value.n >= 1),
                ('C17:batches-are-sorted-iff-a-sort_key-is-given', z3.BoolVal(value.is_sorted == with_sort)),
                ('C17:an-incomplete-bucket-is-emitted-only-without-drop_incomplete',
                 z3.Or(bk['done'](value.bid), z3.Not(me['drop_incomplete'].t)))]

    def after_yield(eng, st):
        st.ghost['EMITTED'] = IntV(st.ghost['EMITTED'].t + st.ghost['last_batch_len'].t)
        return st

    def post(S, o):
        d = AbsView(F(S)['input_dataset'].t)
        E = S.st.ghost['EMITTED'].t
        me = S.st.heap[S.eng.self_oid]
        if o.kind == 'raise':
            i = smt.fresh('i_fail', smt.Int)
            return [('C17:iteration-fails-only-with-an-exception-of-the-input(never-IndexError/AssertionError-of-its-own)',
                     z3.Exists([i], z3.And(i >= 0, i < d.n(), d.raises(i), o.exc.t == d.exc(i))))]
        v = S.v
        return [('C17:at-the-end-every-consumed-example-was-emitted-or-dropped', z3.And(v.total_count == d.n(), d.n() == E + v.dropped_count)),
                ('C17:without-drop_incomplete-every-example-is-emitted', z3.Implies(z3.Not(me['drop_incomplete'].t), E == d.n()))]
    name = 'expiration=%s,max_buffered=%s,sort_key=%s' % ('int' if with_exp else 'None', 'int' if with_mb else 'None', 'fn' if with_sort else 'None')
    return Variant(name, params={'with_key': 'false'}, generator=True, on_yield=on_yield, after_yield=after_yield, post=post,
                   loops={'0': inv_outer, '0.0': inv_first_fit, '0.1': inv_expiry, '0.2': inv_overflow, '1': inv_flush},
                   hooks=_hooks(), setup=_setup(with_exp, with_mb, with_sort), props=('C17',))


class BucketIterC(ClassContract):
    cls = 'DynamicBucketDataset'
    fields = _fields

    def view(self, eng, st):
        return None
    methods = {'__iter__': [_variant(e, m, s) for e in (False, True) for m in (False, True) for s in (False, True)]
               + [Variant('items-refused', params={'with_key': 'true'}, generator=True,
                          on_yield=lambda S, v: [('I-items:no-yield', smt.F)],
                          post=lambda S, o: [('I-items:refused-loudly', z3.BoolVal(o.kind == 'raise'))], props=('C17', 'C03'))]}


CONTRACTS = [BucketIterC()]
