"""Contracts of the single- and multi-input stages (spec views from DESIGN section 3)."""
import z3

from pyvc import smt, views
from pyvc.smt import I
from pyvc.values import *          # noqa
from pyvc.engine import SliceSpecV
from pyvc.contract import *        # noqa
from pyvc.views import View, AbsView, AX
from contracts import spec
from contracts.leaves import self_view, _std_getitem_variants, _iter_variants


def flag_variants(inline=True):
    return {
        'indexable': [Variant('flag', post=post_bool_property(lambda S: self_view(S).idx), props=('C02',),
                              inline=('indexable',))],
        'ordered': [Variant('flag', post=post_bool_property(lambda S: self_view(S).ord_), props=('C13',),
                            inline=('ordered',))],
    }


def keys_variants(loops=None, setup_cold=None, extra=()):
    return [Variant('keys', post=post_keys(self_view), requires=lambda S: self_view(S).keys, props=('C03',),
                    inline=('keys',), loops=loops or {}),
            Variant('keys-undefined', post=post_keys_undefined(), requires=lambda S: z3.Not(self_view(S).keys),
                    props=('C03',), inline=('keys',), loops=loops or {})] + list(extra)


# ------------------------------------------------------------------ SliceDataset
class SliceView(View):
    """N = len(sl); OUT(i) = xs[sl[i]]; K(i) = K(in, sl[i]).  IDX LEN; KEYS/ITEMS as the
    input's keys() (items needs the input's key tuple); needs IDX(in)."""

    def __init__(self, inp, length, sl, tag):
        self.inp = inp
        self.length = length
        self.sl = sl
        self.idx = smt.T
        self.len_ = smt.T
        self.keys = inp.keys
        self.items = inp.keys
        self.ord_ = inp.ord_
        self.name = 'slice(%s)' % inp.name
        self.SPOS = spec.memo(('SPOS', tag), lambda: z3.Function('SPOS!%s' % tag, smt.Key, smt.Int))

    def n(self):
        return self.length

    def raises(self, i):
        return self.inp.raises(self.sl(i))

    def val(self, i):
        return self.inp.val(self.sl(i))

    def exc(self, i):
        return self.inp.exc(self.sl(i))

    def key(self, i):
        k = self.inp.key(self.sl(i))
        p = self.SPOS(k)
        d = self.inp
        # a key of an in-range position of the slice is found in the slice
        AX.add(z3.Implies(z3.And(i >= 0, i < self.length),
                          z3.And(p >= 0, p < self.length, d.key(self.sl(p)) == k)))
        return k

    def kpos(self, k):
        """Position inside the *selection* (not inside the input): -1 when the selection
        does not contain k, even if the input does."""
        p = self.SPOS(k)
        j = z3.Int('_spj')
        AX.add(z3.And(p >= -1, p < self.length))
        AX.add(z3.Implies(p >= 0, self.inp.key(self.sl(p)) == k))
        AX.add(z3.Implies(p < 0, z3.ForAll([j], z3.Implies(z3.And(j >= 0, j < self.length),
                                                            smt.KEY(self.inp.d, self.sl(j)) != k),
                                            patterns=[self.sl(j)])))
        return p


class SliceDatasetC(ClassContract):
    cls = 'SliceDataset'

    def fields(self, eng, st):
        d = smt.fresh('d_in', smt.DS)
        L = smt.fresh('slice_len', smt.Int)
        SL = z3.Function('SL!%d' % next(smt._counter), smt.Int, smt.Int)
        j = smt.fresh('sj', smt.Int)
        jj = z3.Int('_slj')
        # class invariant (established by __init__): input indexable, every index of the
        # normalised selection is a valid non-negative position of the input
        st.pc.append(L >= 0)
        st.pc.append(smt.IDX(d))
        st.pc.append(z3.ForAll([jj], z3.Implies(z3.And(jj >= 0, jj < L), z3.And(SL(jj) >= 0, SL(jj) < smt.N(d))),
                               patterns=[SL(jj)]))
        self._SL = SL
        return {'_slice': SliceSpecV(smt.fresh('slice_spec', smt.Obj), ['slice']),
                'slice': SymSeqV(L, lambda e: IntV(SL(e)), 'ndarray'),
                'input_dataset': DSRefV(d), '_keys': NONE}

    def view(self, eng, st):
        f = st.heap[eng.self_oid]
        sl = f['slice']
        return SliceView(AbsView(f['input_dataset'].t), sl.length, lambda i: sl.at(i).t, 'slice')

    methods = dict(
        __len__=[Variant('len', post=post_len(self_view), props=('C02',))],
        __getitem__=_std_getitem_variants(),
        __iter__=_iter_variants(loops={'0': lambda S: S.out_n == S.k, '1': lambda S: S.out_n == S.k}),
        keys=keys_variants(),
        **flag_variants())


def _split_refusal(variants, input_of):
    """case split of `items-refused`: the input has no keys at all (keys() -> NotImplementedError: the stage must answer
    with the ItemsNotDefined signal) versus keys that exist but are refused (duplicate keys of a concatenation:
    AssertionError travels through -- listed finding F28)"""
    import copy
    out = []
    for v in variants:
        if v.name != 'items-refused':
            out.append(v)
            continue
        req0 = v.requires
        a = copy.copy(v)
        a.requires = lambda S, req0=req0: z3.And(req0(S), smt.KEYS_UNIMPL(input_of(S)))
        b = copy.copy(v)
        b.name = 'items-refused,input-keys-exist-but-are-refused'
        b.requires = lambda S, req0=req0: z3.And(req0(S), z3.Not(smt.KEYS_UNIMPL(input_of(S))))
        out += [a, b]
    return out


SliceDatasetC.methods['__iter__'] = _split_refusal(SliceDatasetC.methods['__iter__'], lambda S: S.st.heap[S.eng.self_oid]['input_dataset'].t)


# ------------------------------------------------------------ ConcatenateDataset
class ConcatView(View):
    """N = PRE_N(m); OUT(i) = OUT(d_j, i - PRE_N(j)) for PRE_N(j) <= i < PRE_N(j+1);
    IDX/LEN/ITEMS = conjunction over the parts; KEYS iff all parts have keys and the keys
    are pairwise distinct."""

    def __init__(self, owner, m):
        self.owner = owner
        self.m = m
        self.S = spec.sum_n(owner)
        smt.FOLDS.note_index(m)
        self.idx = spec.all_inputs(owner, m, smt.IDX)
        self.len_ = spec.all_inputs(owner, m, smt.LEN)
        self.items = spec.all_inputs(owner, m, smt.ITEMS)
        self.ord_ = spec.all_inputs(owner, m, smt.ORD)
        self.UNIQ = spec.memo(('UNIQ', owner), lambda: smt.fresh('keys_unique', smt.Bool))
        self.keys = z3.And(spec.all_inputs(owner, m, smt.KEYS), self.UNIQ)
        self.name = 'concatenate'
        self.CPOS = spec.memo(('CPOS', owner), lambda: z3.Function('CPOS!%d' % owner, smt.Key, smt.Int))

    def n(self):
        return self.S(self.m)

    def _loc(self, i):
        j = spec.part(self.owner, self.m, i)
        return spec.IN(self.owner, j), i - self.S(j)

    def raises(self, i):
        d, o = self._loc(i)
        return smt.RAISES(d, o)

    def val(self, i):
        d, o = self._loc(i)
        return ObjV(smt.VAL(d, o))

    def exc(self, i):
        d, o = self._loc(i)
        return smt.EXC(d, o)

    def key(self, i):
        d, o = self._loc(i)
        return AbsView(d).key(o)

    def key_q(self, p):
        """key at position p as a term over a bound variable (no ground instances are created; the
        PART axiom is stated quantified here because p is bound)"""
        P = spec.memo(('PART', self.owner), lambda: z3.Function('PART!%d' % self.owner, smt.Int, smt.Int))
        return smt.KEY(spec.IN(self.owner, P(p)), p - self.S(P(p)))

    def kpos(self, k):
        p = self.CPOS(k)
        AX.add(z3.And(p >= -1, p < self.n()))
        d, o = self._loc(p)
        AX.add(z3.Implies(p >= 0, smt.KEY(d, o) == k))
        # absent from the concatenation <=> absent from every part
        j = z3.Int('_cpj')
        AX.add(z3.Implies(p < 0, z3.ForAll([j], z3.Implies(z3.And(j >= 0, j < self.m),
                                                            smt.KPOS(spec.IN(self.owner, j), k) < 0),
                                            patterns=[smt.KPOS(spec.IN(self.owner, j), k)])))
        AX.add(z3.Implies(p >= 0, AbsView(d).key(o) == k))
        # with unique keys: a key found in part j sits at offset PRE_N(j) + its position in the part
        AX.add(z3.ForAll([j], z3.Implies(z3.And(j >= 0, j < self.m, smt.KPOS(spec.IN(self.owner, j), k) >= 0, self.keys),
                                         z3.And(p == self.S(j) + smt.KPOS(spec.IN(self.owner, j), k))),
                         patterns=[smt.KPOS(spec.IN(self.owner, j), k)]))
        return p


class ConcatenateDatasetC(ClassContract):
    cls = 'ConcatenateDataset'

    def fields(self, eng, st):
        m = smt.fresh('m', smt.Int)
        st.pc.append(m >= 0)
        return {'input_datasets': DSTupleV(eng.self_oid, m), '_keys': NONE}

    def view(self, eng, st):
        f = st.heap[eng.self_oid]
        return ConcatView(eng.self_oid, f['input_datasets'].m)

    @staticmethod
    def _norm(S):
        v = self_view(S)
        it = S.old.item
        return z3.If(it < 0, it + v.n(), it)

    @staticmethod
    def _keys_inv(S):
        """keys accumulated so far == keys of the first k parts, in order"""
        v = self_view(S)
        ks = S.val.keys
        if isinstance(ks, ListV):
            return z3.And(z3.Length(ks.seq) == 0, S.k == 0)
        if not isinstance(ks, SymSeqV):
            return smt.F
        if getattr(S, 'proving', True):
            p = smt.fresh('kp', smt.Int)          # generic position (universal introduction)
            el = ks.at(p)
            if not isinstance(el, KeyV):
                return smt.F
            return z3.And(ks.length == v.S(S.k), spec.all_inputs(v.owner, S.k, smt.KEYS),
                          z3.Implies(z3.And(p >= 0, p < ks.length), el.t == v.key(p)))
        p = z3.Int('_kp')
        el = ks.at(p)
        body = z3.Implies(z3.And(p >= 0, p < ks.length), el.t == v.key_q(p))
        return z3.And(ks.length == v.S(S.k), spec.all_inputs(v.owner, S.k, smt.KEYS),
                      z3.ForAll([p], body, patterns=[el.t]))

    @staticmethod
    def _keys_hooks():
        def havoc_value(eng, st, name, cur):
            if name == 'keys':
                ln = smt.fresh('keys_len', smt.Int)
                fn = z3.Function('KEYS_SO_FAR!%d' % next(smt._counter), smt.Int, smt.Key)
                st.pc.append(ln >= 0)
                return SymSeqV(ln, lambda e: KeyV(fn(e)), 'list')
            return None

        def builtin_hook(eng, st, name, args, kwargs, node):
            if name == 'set' and len(args) == 1 and isinstance(args[0], SymSeqV):
                from pyvc.engine import SetV
                v = eng.ctx.self_view(eng, st)
                c = smt.fresh('card', smt.Int)
                st.pc += [c >= 0, c <= args[0].length, (c == args[0].length) == v.UNIQ]
                return [(st, SetV(c))]
            if name == 'collections.Counter':
                return [(st, OpaqueV('counter'))]
            return None

        def any_method(eng, st, recv, name, args, kwargs):
            if isinstance(recv, OpaqueV) and recv.what == 'counter' and name == 'items':
                return [(st, OpaqueV('counter-items'))]
            return None

        def iter_obj_descr(eng, st, v):
            from pyvc.views import Out
            if isinstance(v, OpaqueV) and v.what == 'counter-items':
                n = smt.fresh('n_dup', smt.Int)
                st.pc.append(n >= 0)
                return n, (lambda k: [Out(smt.T, value=TupleV([KeyV(smt.fresh('dupkey', smt.Key)), IntV(smt.fresh('cnt', smt.Int))]))])
            return None
        return dict(havoc_value=havoc_value, builtin_hook=builtin_hook, any_method=any_method, iter_obj_descr=iter_obj_descr)

    @staticmethod
    def _str_inv(S):
        o = S.eng.self_oid
        k = S.old.item
        j = z3.Int('_gsj')
        return z3.ForAll([j], z3.Implies(z3.And(j >= 0, j < S.k), smt.KPOS(spec.IN(o, j), k) < 0),
                         patterns=[smt.KPOS(spec.IN(o, j), k)])

    methods = dict(
        __len__=[Variant('len', post=post_len(self_view), props=('C02',))],
        __getitem__=_std_getitem_variants(
            with_key=False,
            loops={'0': lambda S: z3.And(S.v.item == ConcatenateDatasetC._norm(S) - self_view(S).S(S.k),
                                         S.v.item >= 0)}),
        __iter__=_iter_variants(loops={
            '0': lambda S: S.out_n == self_view(S).S(S.k),
            '0.0': lambda S: S.out_n == self_view(S).S(S.ks['0']) + S.k},
            loops_refused={
            # an input whose with_key iteration ends normally has items
            '0': lambda S: z3.And(S.out_n == self_view(S).S(S.k),
                                  spec.all_inputs(S.eng.self_oid, S.k, smt.ITEMS)),
            '0.0': lambda S: z3.And(S.out_n == self_view(S).S(S.ks['0']) + S.k,
                                    spec.all_inputs(S.eng.self_oid, S.ks['0'], smt.ITEMS))}),
        **flag_variants())


def _concat_extra():
    C = ConcatenateDatasetC
    kv = keys_variants(loops={'0': C._keys_inv})
    for v in kv:
        v.hooks = C._keys_hooks()
    C.methods['keys'] = kv
    sv = Variant('str', params={'item': 'key'}, requires=lambda S: self_view(S).keys,
                 post=post_getitem_key(self_view), props=('C03', 'C14'), loops={'1': C._str_inv}, hooks=C._keys_hooks())
    C.methods['__getitem__'] = list(C.methods['__getitem__']) + [sv]


_concat_extra()


# -------------------------------------------------------------------- ZipDataset
class ZipView(View):
    """N = N(d_0) (all lengths equal); OUT(i) = (V(d_0,i), ..., V(d_{m-1},i)); the first
    input that raises at i determines the exception.  No keys.  IDX = conjunction; LEN."""

    def __init__(self, owner, m):
        self.owner = owner
        self.m = m
        self.fr = spec.first_raiser(owner, m, 'zip')
        self.idx = spec.all_inputs(owner, m, smt.IDX)
        self.len_ = smt.T
        self.ord_ = spec.all_inputs(owner, m, smt.ORD)
        self.name = 'zip'

    def n(self):
        return smt.N(spec.IN(self.owner, I(0)))

    def raises(self, i):
        return self.fr.any(i)

    def val(self, i):
        return SymSeqV(self.m, lambda j: ObjV(smt.VAL(spec.IN(self.owner, j), i)), 'tuple')

    def exc(self, i):
        return smt.EXC(spec.IN(self.owner, self.fr.first(i)), i)


def zip_model(eng, st, t):
    """Assumed contract of builtin zip(*inputs), stated for inputs of equal length: that
    precondition is an obligation at the call site.  Element k is the tuple of the k-th
    elements; the first input (in order) that raises at k determines the exception."""
    o, m = t.owner, t.m
    eng.oblige('zip:inputs-have-equal-lengths', st,
               spec.all_inputs(o, m, lambda d: smt.N(d) == smt.N(spec.IN(o, I(0)))), 'assert')
    fr = spec.first_raiser(o, m, 'zip')

    def val(k):
        return SymSeqV(m, lambda j: ObjV(smt.VAL(spec.IN(o, j), k)), 'tuple')
    n = z3.If(m > 0, smt.N(spec.IN(o, I(0))), I(0))
    sv = views.StreamView(n, fr.any, val, lambda k: smt.EXC(spec.IN(o, fr.first(k)), k), desc='zip(*inputs)')
    return [(st, StreamV(sv, False))]


class ZipDatasetC(ClassContract):
    cls = 'ZipDataset'

    def fields(self, eng, st):
        m = smt.fresh('m', smt.Int)
        o = eng.self_oid
        st.pc.append(m >= 1)
        # class invariant from __init__: every input has a length and all lengths are equal
        st.pc.append(spec.all_inputs(o, m, smt.LEN))
        st.pc.append(spec.all_inputs(o, m, lambda d: smt.N(d) == smt.N(spec.IN(o, I(0)))))
        return {'input_datasets': DSTupleV(o, m)}

    def view(self, eng, st):
        return ZipView(eng.self_oid, st.heap[eng.self_oid]['input_datasets'].m)

    methods = dict(
        __len__=[Variant('len', post=post_len(self_view), props=('C02',))],
        __getitem__=_std_getitem_variants(with_key=False),
        __iter__=_iter_variants(loops={'0': lambda S: S.out_n == S.k}, hooks={'zip_model': zip_model}),
        **flag_variants())


# ----------------------------------------------------------------- KeyZipDataset
class KeyZipView(View):
    """N = N(d_0); K = K(d_0, .); OUT(i) = the tuple of d_j[K(i)].  KEYS ITEMS ORD LEN;
    IDX = conjunction."""

    def __init__(self, owner, m):
        self.owner = owner
        self.m = m
        self.d0 = AbsView(spec.IN(owner, I(0)))
        self.fr = spec.first_raiser(owner, m, 'keyzip', pos=self._pos)
        self.idx = spec.all_inputs(owner, m, smt.IDX)
        self.len_ = smt.LEN(spec.IN(owner, I(0)))
        self.keys = smt.T
        self.items = smt.T
        self.ord_ = smt.T
        self.name = 'key_zip'

    def _pos(self, j, i):
        # position in input j of the key that input 0 has at position i
        return smt.KPOS(spec.IN(self.owner, j), smt.KEY(spec.IN(self.owner, I(0)), i))

    def n(self):
        return self.d0.n()

    def key(self, i):
        return self.d0.key(i)

    def kpos(self, k):
        return self.d0.kpos(k)

    def raises(self, i):
        return self.fr.any(i)

    def val(self, i):
        return SymSeqV(self.m, lambda j: ObjV(smt.VAL(spec.IN(self.owner, j), self._pos(j, i))), 'tuple')

    def exc(self, i):
        f = self.fr.first(i)
        return smt.EXC(spec.IN(self.owner, f), self._pos(f, i))


class KeyZipDatasetC(ClassContract):
    cls = 'KeyZipDataset'

    def fields(self, eng, st):
        m = smt.fresh('m', smt.Int)
        o = eng.self_oid
        st.pc.append(m >= 2)
        # class invariant from __init__: every input has keys, and all key sets are equal
        st.pc.append(spec.all_inputs(o, m, smt.KEYS))
        k = z3.Const('_kzk', smt.Key)
        j = z3.Int('_kzj')
        st.pc.append(z3.ForAll([j, k], z3.Implies(
            z3.And(j >= 0, j < m),
            (smt.KPOS(spec.IN(o, j), k) >= 0) == (smt.KPOS(spec.IN(o, I(0)), k) >= 0)),
            patterns=[smt.KPOS(spec.IN(o, j), k)]))
        return {'input_datasets': DSTupleV(o, m), '_keys': NONE}

    def view(self, eng, st):
        return KeyZipView(eng.self_oid, st.heap[eng.self_oid]['input_datasets'].m)

    methods = dict(
        __len__=[Variant('len', post=post_len(self_view), props=('C02',))],
        __getitem__=_std_getitem_variants(),
        __iter__=_iter_variants(loops={'0': lambda S: S.out_n == S.k, '1': lambda S: S.out_n == S.k}),
        keys=keys_variants(),
        **flag_variants())


# ------------------------------------------------------------------ ItemsDataset
class ItemsView(View):
    """OUT(i) = (K(in,i), V(in,i)); K forwarded; capabilities forwarded."""

    def __init__(self, inp):
        self.inp = inp
        self.idx = inp.idx
        self.len_ = inp.len_
        self.keys = inp.keys
        self.items = inp.items
        self.ord_ = inp.ord_
        self.iter_ok = inp.items
        self.name = 'items(%s)' % inp.name

    def n(self):
        return self.inp.n()

    def raises(self, i):
        return self.inp.raises(i)

    def val(self, i):
        return TupleV([KeyV(self.inp.key(i)), self.inp.val(i)])

    def exc(self, i):
        return self.inp.exc(i)

    def key(self, i):
        return self.inp.key(i)

    def kpos(self, k):
        return self.inp.kpos(k)

    def refusal(self):
        return self.inp.refusal()


def _items_iter_variants():
    vs = _iter_variants(loops={'0': lambda S: S.out_n == S.k})
    # values iteration of ds.items() needs the input's with_key iteration
    vs[0].requires = lambda S: self_view(S).items
    oy, _ = iter_clauses(self_view, False)
    vs.append(Variant('values-refused', params={'with_key': 'false'}, generator=True, on_yield=oy,
                      post=lambda S, o: [('I-items:refused-loudly', z3.BoolVal(o.kind == 'raise'))],
                      requires=lambda S: z3.Not(self_view(S).items), props=('C03',)))
    return vs


class ItemsDatasetC(ClassContract):
    cls = 'ItemsDataset'

    def fields(self, eng, st):
        return {'input_dataset': DSRefV(smt.fresh('d_in', smt.DS))}

    def view(self, eng, st):
        return ItemsView(AbsView(st.heap[eng.self_oid]['input_dataset'].t))

    methods = dict(
        __len__=[Variant('len', post=post_len(self_view), props=('C02',))],
        __getitem__=_std_getitem_variants(req_idx=lambda S: z3.And(self_view(S).idx, self_view(S).keys),
                                          req_key=lambda S: z3.And(self_view(S).idx, self_view(S).keys)),
        __iter__=_items_iter_variants(),
        keys=keys_variants(),
        **flag_variants())


CONTRACTS = [SliceDatasetC(), ConcatenateDatasetC(), ZipDatasetC(), KeyZipDatasetC(), ItemsDatasetC()]

from contracts.copying import copy_variants  # noqa
for _c in CONTRACTS:
    if 'copy' not in _c.methods:
        _c.methods = dict(_c.methods, copy=copy_variants())  # add_copy
