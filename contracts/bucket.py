"""C17: the bucket classes of dynamic bucket batching.  Representation invariant BUCKET(b)
of DynamicTimeSeriesBucket (over the reals, A-FLOAT; 0 <= rate < 1, lengths > 0):

   1 <= len(data);  for every element x of data:
   lower_bound <= LEN(x) <= upper_bound,  lower_bound >= LEN(x)(1-rate),
   upper_bound <= LEN(x)/(1-rate),  max_len >= LEN(x);   max_len is attained.

Established by __init__, preserved by maybe_append (which requires `not is_completed()`),
proved at generic elements.  Consequences: shortest >= longest*(1-rate) (padding bound),
len(data) <= batch_size, non-empty.  DynamicBucketDataset.__iter__ (nested loops over a list
of mutable bucket objects) is covered by a bounded native stand-in only."""
import z3

from pyvc import smt
from pyvc.smt import I
from pyvc.values import *          # noqa
from pyvc.engine import NumFnV, NUMV
from pyvc.contract import *        # noqa
from contracts.stages2 import F

G1, G2 = z3.Int('g1'), z3.Int('g2')     # generic element indices


def _fields(total):
    def fields(self, eng, st):
        lk = smt.fresh('len_key', smt.Fn)
        rate = smt.fresh('max_padding_rate', smt.Real)
        bs = smt.fresh('batch_size', smt.Int)
        lo, up, mx = smt.fresh('lower_bound', smt.Real), smt.fresh('upper_bound', smt.Real), smt.fresh('max_len', smt.Real)
        data = smt.fresh('data', smt.ObjSeq)
        st.pc += [rate >= 0, rate < 1, bs >= 1]
        x = z3.Const('_bx', smt.Obj)
        st.pc.append(z3.ForAll([x], NUMV(lk, x) > 0, patterns=[NUMV(lk, x)]))      # lengths are positive
        f = {'data': ListV(data), 'batch_size': IntV(bs), 'len_key': NumFnV(lk), 'max_padding_rate': RealV(rate),
             'max_total_size': RealV(smt.fresh('max_total_size', smt.Real)) if total else NONE,
             'lower_bound': RealV(lo), 'upper_bound': RealV(up), 'max_len': RealV(mx)}
        return f
    return fields


def bucket_inv(fl, gens=(G1, G2)):
    data = fl['data'].seq
    lk, rate = fl['len_key'].t, fl['max_padding_rate'].t
    lo, up, mx = fl['lower_bound'].t, fl['upper_bound'].t, fl['max_len'].t
    n = z3.Length(data)
    cs = [n >= 1]
    for g in gens:
        L = NUMV(lk, data[g])
        cs.append(z3.Implies(z3.And(g >= 0, g < n),
                             z3.And(lo <= L, L <= up, lo >= L * (1 - rate), up * (1 - rate) <= L, mx >= L)))
    return z3.And(*cs)


def bucket_inv_clauses(fl, gens=(G1, G2)):
    """the invariant as separate small goals (nonlinear real arithmetic: keep queries small)"""
    data = fl['data'].seq
    lk, rate = fl['len_key'].t, fl['max_padding_rate'].t
    lo, up, mx = fl['lower_bound'].t, fl['upper_bound'].t, fl['max_len'].t
    n = z3.Length(data)
    out = [('non-empty', n >= 1)]
    for gi, g in enumerate(gens):
        L = NUMV(lk, data[g])
        inr = z3.And(g >= 0, g < n)
        out += [('g%d:lower<=len' % gi, z3.Implies(inr, lo <= L)), ('g%d:len<=upper' % gi, z3.Implies(inr, L <= up)),
                ('g%d:lower>=len(1-rate)' % gi, z3.Implies(inr, lo >= L * (1 - rate))),
                ('g%d:upper(1-rate)<=len' % gi, z3.Implies(inr, up * (1 - rate) <= L)),
                ('g%d:max_len>=len' % gi, z3.Implies(inr, mx >= L))]
    return out


def _req(S):
    return bucket_inv(F(S))


def _init_post(total):
    def post(S, o):
        if o.kind == 'raise':
            return [('bucket-init:does-not-raise', smt.F)]
        fl = S.st.heap[S.eng.self_oid]
        ok = all(k in fl for k in ('data', 'lower_bound', 'upper_bound', 'max_len', 'len_key', 'max_padding_rate'))
        if not ok or not isinstance(fl['data'], ListV):
            return [('bucket-init:fields', smt.F)]
        return [('C17:__init__-establishes-the-bucket-invariant', bucket_inv(fl)),
                ('C17:a-new-bucket-holds-exactly-the-first-example',
                 z3.And(z3.Length(fl['data'].seq) == 1, fl['data'].seq[0] == S.old.init_example))]
    return post


def _maybe_append_post(total):
    def post(S, o):
        fl0 = S.eng.entry_heap[S.eng.self_oid]
        fl = S.st.heap[S.eng.self_oid]
        n0 = z3.Length(fl0['data'].seq)
        hier = S.eng.hier
        if o.kind == 'raise':
            # only the assertion `not self.is_completed()`
            done = n0 >= fl0['batch_size'].t
            if total:
                done = z3.Or(done, (z3.ToReal(n0) + 1) * fl0['max_len'].t > fl0['max_total_size'].t)
            return [('C17:maybe_append-only-refuses-a-completed-bucket', z3.And(done, exc_is(o.exc, hier, 'AssertionError')))]
        data = fl['data'].seq
        n = z3.Length(data)
        x = S.old.example
        lk, rate = fl['len_key'].t, fl['max_padding_rate'].t
        out = [('C17:bucket-invariant-preserved:' + nm, g) for nm, g in bucket_inv_clauses(fl, gens=(G1,))]
        out += [('C17:at-most-batch_size-examples', n <= fl['batch_size'].t),
               ('C17:appends-exactly-the-offered-example-or-nothing',
                z3.If(o.value.t, z3.And(n == n0 + 1, data == z3.Concat(fl0['data'].seq, z3.Unit(x))), data == fl0['data'].seq)),
               ('C17:padding-rate-bound-between-any-two-examples',
                z3.Implies(z3.And(G1 >= 0, G1 < n, G2 >= 0, G2 < n), NUMV(lk, data[G1]) >= NUMV(lk, data[G2]) * (1 - rate)))]
        if total:
            out.append(('C17:total-size-bound-for-batches-of-more-than-one-example',
                        z3.Implies(n > 1, z3.ToReal(n) * fl['max_len'].t <= fl['max_total_size'].t)))
        return out
    return post


def _req_append(total):
    def rq(S):
        fl = F(S)
        n = z3.Length(fl['data'].seq)
        # the invariant at the two generic indices and at the last element, max_len attained
        inv = z3.And(bucket_inv(fl), bucket_inv(fl, gens=(n - 1,)))
        if total:
            inv = z3.And(inv, fl['max_total_size'].t > 0,
                         z3.Implies(n > 1, z3.ToReal(n) * fl['max_len'].t <= fl['max_total_size'].t),
                         fl['max_len'].t <= fl['upper_bound'].t)
        return inv
    return rq


def _mk(total):
    class C(ClassContract):
        cls = 'DynamicTimeSeriesBucket'
        fields = _fields(total)

        def view(self, eng, st):
            return None
    tag = 'max_total_size' if total else 'no-max_total_size'

    def mk_init_params():
        return {'init_example': 'obj', 'batch_size': 'int', 'len_key': (lambda e, s: NumFnV(smt.fresh('len_key', smt.Fn))),
                'max_padding_rate': (lambda e, s: RealV(smt.fresh('rate', smt.Real))),
                'max_total_size': ((lambda e, s: RealV(smt.fresh('mts', smt.Real))) if total else 'none')}

    def init_req(S):
        r = S.old.max_padding_rate
        lk = S.eng.entry_env['len_key'].t
        x = z3.Const('_bx2', smt.Obj)
        return z3.And(r >= 0, r < 1, S.old.batch_size >= 1, z3.ForAll([x], NUMV(lk, x) > 0, patterns=[NUMV(lk, x)]))
    C.methods = {
        '__init__': [Variant(tag, params=mk_init_params(), requires=init_req, post=_init_post(total), props=('C17',))],
        'maybe_append': [Variant(tag, params={'example': 'obj'}, requires=_req_append(total),
                                 post=_maybe_append_post(total), props=('C17',))],
    }
    return C()


CONTRACTS = [_mk(False), _mk(True)]
