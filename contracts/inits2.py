"""More constructors: leaves (DictDataset establishes `_keys == tuple(examples.keys())`, ListDataset accepts
list / tuple / UserList only), ParMapDataset (num_workers >= 1), ApplyDataset, DiskCacheDataset (indexable
input), _BatchMapWrapper (applies the function to every example of the batch, in order)."""
import z3

from pyvc import smt
from pyvc.smt import I
from pyvc.values import *          # noqa
from pyvc.contract import *        # noqa
from pyvc.engine import SymDictV
from contracts.effects import evals, _init_post


class _Init(ClassContract):
    def view(self, eng, st):
        return None


def _noeval(S):
    return ('C08:construction-evaluates-no-example-and-applies-no-callable', z3.BoolVal(not evals(S)))


# ---- DictDataset
def _dict_init_post(S, o):
    env = S.eng.entry_env
    ex = env['examples']
    if o.kind == 'raise':
        return [('dict-init:a-dict-is-never-rejected', smt.F)]
    me = S.st.heap[S.eng.self_oid]
    keys = me.get('_keys')
    eq = veq(keys, ex.keys_seq('tuple')) if keys is not None else None
    return [('init:field-examples-holds-the-given-dict', z3.BoolVal(me.get('examples') is ex)),
            ('C03:DictDataset-invariant:_keys-is-the-key-tuple-of-examples', eq if eq is not None else smt.F),
            _noeval(S)]


class DictInitC(_Init):
    cls = 'DictDataset'
    methods = {'__init__': [Variant('dict', params={'examples': (lambda e, s: SymDictV('examples')), 'name': 'none'},
                                    post=_dict_init_post, props=('C03', 'C01', 'C08')),
                            Variant('not-a-dict', params={'examples': (lambda e, s: ListV(smt.fresh('xs', smt.ObjSeq))), 'name': 'none'},
                                    post=lambda S, o: [('dict-init:anything-but-a-dict-is-rejected',
                                                        exc_is(o.exc, S.eng.hier, 'AssertionError') if o.kind == 'raise' else smt.F)],
                                    props=('C03',))]}


# ---- ListDataset
def _list_init_post(S, o):
    env = S.eng.entry_env
    if o.kind == 'raise':
        return [('list-init:a-list-is-never-rejected', smt.F)]
    me = S.st.heap[S.eng.self_oid]
    return [('init:field-examples-holds-the-given-sequence', z3.BoolVal(me.get('examples') is env['examples'])), _noeval(S)]


class ListInitC(_Init):
    cls = 'ListDataset'
    methods = {'__init__': [Variant('list', params={'examples': (lambda e, s: ListV(smt.fresh('xs', smt.ObjSeq))), 'name': 'none'},
                                    post=_list_init_post, props=('C01', 'C02', 'C08')),
                            Variant('not-a-sequence', params={'examples': (lambda e, s: SymDictV('examples')), 'name': 'none'},
                                    post=lambda S, o: [('list-init:a-dict-is-rejected',
                                                        exc_is(o.exc, S.eng.hier, 'AssertionError') if o.kind == 'raise' else smt.F)],
                                    props=('C01',))]}


# ---- ParMapDataset
def _parmap_init_post(S, o):
    env = S.eng.entry_env
    nw = S.old.num_workers
    if o.kind == 'raise':
        return [('C06:ParMapDataset-rejects-only-a-worker-count-below-one', z3.And(nw < 1, exc_is(o.exc, S.eng.hier, 'AssertionError')))]
    me = S.st.heap[S.eng.self_oid]
    flds = [('map_function', 'map_function'), ('input_dataset', 'input_dataset'), ('num_workers', 'num_workers'),
            ('buffer_size', 'buffer_size'), ('backend', 'backend')]
    return [('C06:ParMapDataset-invariant:at-least-one-worker', nw >= 1)] + \
        [('init:field-%s' % f, z3.BoolVal(me.get(f) is env[p])) for f, p in flds] + [_noeval(S)]


class ParMapInitC(_Init):
    cls = 'ParMapDataset'
    methods = {'__init__': [Variant('construct', params={'map_function': 'fn', 'input_dataset': 'ds', 'num_workers': 'int',
                                                         'buffer_size': 'int', 'backend': (lambda e, s: StrV('t'))},
                                    post=_parmap_init_post, props=('C06', 'C08', 'C04', 'C07'))]}


# ---- ApplyDataset
class ApplyInitC(_Init):
    cls = 'ApplyDataset'
    methods = {'__init__': [Variant('construct', params={'apply_function': 'fn', 'input_dataset': 'ds'}, post=_init_post,
                                    props=('C08', 'C13'))]}


# ---- _BatchMapWrapper
def _bm_call_post(S, o):
    f = S.st.heap[S.eng.self_oid]['map_fn']
    xs = S.eng.entry_env['batch']
    n = z3.Length(xs.seq)
    j = smt.fresh('j', smt.Int)
    inr = z3.And(j >= 0, j < n)
    if o.kind == 'raise':
        # the first failing example's exception; all earlier ones succeeded
        fr = z3.And(inr, smt.APP_R(f.t, xs.seq[j]), o.exc.t == smt.APP_E(f.t, xs.seq[j]))
        return [('C08:batch_map-fails-only-with-the-function-own-exception', z3.Exists([j], fr))]
    v = o.value
    if isinstance(v, SymSeqV):
        return [('C08:batch_map-keeps-the-batch-length', v.length == n),
                ('C08:batch_map-applies-the-function-to-each-example-in-place-order',
                 z3.Implies(inr, z3.And(z3.Not(smt.APP_R(f.t, xs.seq[j])), v.at(j).t == smt.APP_V(f.t, xs.seq[j])))),
                ('C08:batch_map-returns-a-list', z3.BoolVal(v.pytype == 'list'))]
    return [('batch_map:returns-a-list', smt.F)]


class BatchMapWrapperC(_Init):
    cls = '_BatchMapWrapper'

    def fields(self, eng, st):
        return {'map_fn': FnV(smt.fresh('map_fn', smt.Fn))}
    methods = {'__call__': [Variant('batch', params={'batch': (lambda e, s: ListV(smt.fresh('batch', smt.ObjSeq)))},
                                    post=_bm_call_post, props=('C08', 'C04', 'C01'))]}


class BatchMapWrapperInitC(_Init):
    cls = '_BatchMapWrapper'
    methods = {'__init__': [Variant('construct', params={'map_fn': 'fn'},
                                    post=lambda S, o: [('init:field-map_fn', z3.BoolVal(
                                        o.kind != 'raise' and S.st.heap[S.eng.self_oid].get('map_fn') is S.eng.entry_env['map_fn'])),
                                        _noeval(S)], props=('C08',))]}


CONTRACTS = [DictInitC(), ListInitC(), ParMapInitC(), ApplyInitC(), BatchMapWrapperC(), BatchMapWrapperInitC()]
