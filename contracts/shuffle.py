"""C12 / C13: shuffles.  Assumed RNG contract (DESIGN 2.8/2.9): `rng.shuffle(a)` rearranges the
array in place by a bijection SIGMA of its index range (a function of the generator state);
the draw is logged with the generator that made it.  A permutation array is carried as
(content f, inverse inv); "every input example exactly once" is  BIJ(f, n):
     0 <= i < n  =>  0 <= f(i) < n  and  inv(f(i)) = i ;   0 <= v < n  =>  f(inv(v)) = v.
"""
import z3

from pyvc import smt, views
from pyvc.smt import I
from pyvc.values import *          # noqa
from pyvc.values import eqv, veq   # noqa
from pyvc.engine import NdArrV, RngV, SliceSpecV
from pyvc.contract import *        # noqa
from pyvc.views import View, AbsView, AX
from contracts.stages2 import F
from contracts.copying import copy_variants, post_copy
from contracts.factories import DatasetC, selfd, is_self


def mk_perm_array(eng, st, n, tag='perm'):
    f = z3.Function('%s_f!%d' % (tag, next(smt._counter)), smt.Int, smt.Int)
    g = z3.Function('%s_inv!%d' % (tag, next(smt._counter)), smt.Int, smt.Int)
    oid = eng.new_oid()
    st.heap[oid] = {'n': n, 'f': (lambda i: f(i)), 'inv': (lambda v: g(v))}
    i = z3.Int('_pi')
    st.pc.append(z3.ForAll([i], z3.Implies(z3.And(i >= 0, i < n), z3.And(f(i) >= 0, f(i) < n, g(f(i)) == i)), patterns=[f(i)]))
    st.pc.append(z3.ForAll([i], z3.Implies(z3.And(i >= 0, i < n), z3.And(g(i) >= 0, g(i) < n, f(g(i)) == i)), patterns=[g(i)]))
    return NdArrV(oid)


def bij_clauses(cell, tag):
    """BIJ(f, n) at generic skolems"""
    n, f, inv = cell['n'], cell['f'], cell.get('inv')
    if inv is None:
        return [('%s:is-a-bijection(no inverse known)' % tag, smt.F)]
    i = smt.fresh('bi', smt.Int)
    v = smt.fresh('bv', smt.Int)
    return [('%s:indices-in-range-and-distinct' % tag, z3.Implies(z3.And(i >= 0, i < n), z3.And(f(i) >= 0, f(i) < n, inv(f(i)) == i))),
            ('%s:every-index-occurs' % tag, z3.Implies(z3.And(v >= 0, v < n), z3.And(inv(v) >= 0, inv(v) < n, f(inv(v)) == v)))]


def rng_hooks(interference=None):
    def do_shuffle(eng, st, rng, arr):
        if not isinstance(arr, NdArrV):
            raise Unsupported('shuffle of %r' % (arr,))
        cell = st.heap[arr.oid]
        n = cell['n']
        SIG = z3.Function('SIGMA!%d' % next(smt._counter), smt.Int, smt.Int)
        ISIG = z3.Function('ISIGMA!%d' % next(smt._counter), smt.Int, smt.Int)
        i = z3.Int('_si')
        st.pc.append(z3.ForAll([i], z3.Implies(z3.And(i >= 0, i < n), z3.And(SIG(i) >= 0, SIG(i) < n, ISIG(SIG(i)) == i)),
                               patterns=[SIG(i)]))
        st.pc.append(z3.ForAll([i], z3.Implies(z3.And(i >= 0, i < n), z3.And(ISIG(i) >= 0, ISIG(i) < n, SIG(ISIG(i)) == i)),
                               patterns=[ISIG(i)]))
        f0, inv0 = cell['f'], cell.get('inv')
        st.heap[arr.oid] = dict(cell, f=(lambda k: f0(SIG(k))), inv=((lambda v: ISIG(inv0(v))) if inv0 else None))
        st.ghost['draws'] = st.ghost.get('draws', ()) + (('shuffle', rng, arr.oid),)
        return [(st, NONE)]

    def rng_method(eng, st, recv, name, args, kwargs):
        if name == 'shuffle' and len(args) == 1:
            if isinstance(args[0], ListV):
                # shuffling a python list keeps its multiset of elements (length in particular)
                hold = [n for n, v in st.env.items() if v is args[0]]
                if len(hold) != 1:
                    raise Unsupported('shuffle of an aliased list')
                new = smt.fresh('shuffled', smt.ObjSeq)
                st.pc.append(z3.Length(new) == z3.Length(args[0].seq))
                st.env[hold[0]] = ListV(new)
                st.ghost['draws'] = st.ghost.get('draws', ()) + (('shuffle-list', recv, None),)
                return [(st, NONE)]
            return do_shuffle(eng, st, recv, args[0])
        if name == 'choice' and len(args) == 1 and isinstance(args[0], IntV) and not kwargs:
            c = smt.fresh('choice', smt.Int)
            st.pc.append(z3.And(c >= 0, c < args[0].t))
            st.ghost['draws'] = st.ghost.get('draws', ()) + (('choice', recv, None),)
            return [(st, IntV(c))]
        return None

    def builtin_hook(eng, st, name, args, kwargs, node):
        if name == 'numpy.arange' and len(args) == 1 and isinstance(args[0], IntV):
            n = z3.If(args[0].t < 0, 0, args[0].t)
            oid = eng.new_oid()
            st.heap[oid] = {'n': n, 'f': (lambda i: i), 'inv': (lambda v: v)}
            return [(st, NdArrV(oid))]
        return None

    def getattr_hook(eng, st, recv, attr, node):
        if isinstance(recv, ModuleV) and recv.name == 'numpy' and attr == 'random':
            return [(st, RngV(z3.Const('GLOBAL_RNG', smt.Rng), True))]
        return None
    h = dict(rng_method=rng_method, builtin_hook=builtin_hook, getattr_hook=getattr_hook)
    return h


# ---------------------------------------------------------------- ReShuffleDataset
def _rs_fields(self, eng, st):
    d = smt.fresh('d_in', smt.DS)
    st.pc.append(smt.LEN(d))
    arr = mk_perm_array(eng, st, smt.N(d))
    return {'input_dataset': DSRefV(d), 'rng': RngV(smt.fresh('rng', smt.Rng)), '_permutation': arr}


def _rs_iter_variant(with_key, interleaved):
    """One iteration yields input[A(k)] for k = 0..n-1 where A is the permutation drawn at the start of
    THIS iteration -- a bijection that must stay the array's content for the whole iteration."""
    def on_yield(S, value):
        fl = F(S)
        d = AbsView(fl['input_dataset'].t)
        cell = S.st.heap[fl['_permutation'].oid]
        k = S.k_loop if hasattr(S, 'k_loop') else S.ks['0' if with_key else '1']
        start = S.st.ghost.get('perm_at_iteration_start')
        same = start is not None and cell['f'] is start
        idx = cell['f'](k)
        exp = TupleV([KeyV(d.key(idx)), d.val(idx)]) if with_key else d.val(idx)
        return [('C12:the-permutation-of-this-iteration-is-still-the-one-drawn-at-its-start', z3.BoolVal(bool(same))),
                ('C12:yield-is-input[perm[k]]', z3.And(S.out_n == k, eqv(value, exp)))]

    def post(S, o):
        fl = F(S)
        d = AbsView(fl['input_dataset'].t)
        cell = S.st.heap[fl['_permutation'].oid]
        out = []
        if o.kind in ('normal', 'return'):
            out.append(('C02/C12:one-iteration-yields-len(input)-examples', S.out_n == d.n()))
            out += bij_clauses(cell, 'C12:iteration-permutation')
            draws = S.st.ghost.get('draws', ())
            out.append(('C13:exactly-one-draw-from-the-stage-own-generator',
                        z3.BoolVal(len(draws) == 1 and draws[0][1] is fl['rng'])))
        elif o.kind == 'raise':
            out.append(('C12:only-an-input-exception-ends-the-iteration-early', smt.T))
        return out

    def inv(S):
        return S.out_n == S.k

    def hook_capture():
        h = rng_hooks()
        base = h['rng_method']

        def rng_method(eng, st, recv, name, args, kwargs):
            r = base(eng, st, recv, name, args, kwargs)
            if name == 'shuffle' and r is not None and isinstance(args[0], NdArrV):
                st.ghost['perm_at_iteration_start'] = st.heap[args[0].oid]['f']
            return r
        h['rng_method'] = rng_method
        return h

    def after_yield(eng, st):
        if not interleaved:
            return st
        # interference: between two next() calls another iterator over the SAME object starts and
        # reshuffles the one shared array in place (rely: its content is some bijection)
        fl = st.heap[eng.self_oid]
        arr = fl['_permutation']
        cell = st.heap[arr.oid]
        f2 = z3.Function('other_iter_f!%d' % next(smt._counter), smt.Int, smt.Int)
        st.heap[arr.oid] = dict(cell, f=(lambda i: f2(i)), inv=None)
        return st
    hooks = hook_capture()
    if interleaved:
        # sound loop cutting: what interference may change between two iterations is havocked at the loop head too
        hooks['havoc_heap'] = lambda eng, st, ordinal, names, mutated: after_yield(eng, st)
    name = ('items' if with_key else 'values') + (',interleaved-iterators' if interleaved else '')
    return Variant(name, params={'with_key': 'true' if with_key else 'false'}, generator=True, on_yield=on_yield,
                   post=post, loops={'0': inv, '1': inv}, hooks=hooks, after_yield=after_yield,
                   requires=(lambda S: z3.And(smt.IDX(F(S)['input_dataset'].t), smt.KEYS(F(S)['input_dataset'].t)))
                   if with_key else (lambda S: smt.IDX(F(S)['input_dataset'].t)),
                   inline=('permutation',), props=('C12', 'C13') if not interleaved else ('C12',))


def _rs_copy_post(S, o):
    fl = S.eng.entry_heap[S.eng.self_oid]
    fz = S.old.freeze
    out = []
    if o.kind != 'return':
        return [('copy:returns', smt.F)]
    v = o.value
    if isinstance(v, StageV) and v.cls == 'ReShuffleDataset':
        out.append(('copy:not-frozen-branch', z3.Not(fz)))
        out += post_copy(S, o)
    elif isinstance(v, StageV) and v.cls == 'SliceDataset':
        # frozen: input.copy(freeze=True)[permutation]: one draw from the stage's own generator
        draws = S.st.ghost.get('draws', ())
        arr = v.args[0]
        out.append(('C13:freeze-returns-a-slice-by-one-fresh-permutation-of-the-own-generator',
                    z3.BoolVal(isinstance(arr, NdArrV) and len(draws) == 1 and draws[0][1] is fl['rng'])))
        out.append(('copy:frozen-branch', fz))
        if isinstance(arr, NdArrV):
            out += bij_clauses(S.st.heap[arr.oid], 'C12:frozen-permutation')
    else:
        out.append(('copy:result-shape', smt.F))
    return out


def _rs_copy_hooks():
    h = rng_hooks()

    def ds_getitem_other(eng, st, view, item):
        if isinstance(item, NdArrV):
            return [(st, StageV('SliceDataset', [item, DSRefV(view.d)], {}))]
        return None
    h['ds_getitem_other'] = ds_getitem_other
    return h


def _rs_refusal():
    # key iteration over an input without keys: refused with the library's own signal before anything is drawn or yielded
    from contracts.stages import _split_refusal
    _, por = items_refused_clauses(lambda S: None)
    v = Variant('items-refused', params={'with_key': 'true'}, generator=True,
                on_yield=lambda S, value: [('I-items:nothing-is-yielded-before-the-refusal', smt.F)], post=por,
                requires=lambda S: z3.And(smt.IDX(F(S)['input_dataset'].t), z3.Not(smt.KEYS(F(S)['input_dataset'].t))),
                loops={'0': lambda S: smt.T, '1': lambda S: smt.T}, hooks=rng_hooks(), inline=('permutation',), props=('C03', 'C01', 'C10'))
    return _split_refusal([v], lambda S: F(S)['input_dataset'].t)


class ReShuffleDatasetC(ClassContract):
    cls = 'ReShuffleDataset'
    fields = _rs_fields

    def view(self, eng, st):
        return None
    methods = {
        '__iter__': [_rs_iter_variant(False, False), _rs_iter_variant(True, False), _rs_iter_variant(False, True)] + _rs_refusal(),
        '__len__': [Variant('len', post=lambda S, o: [('C02:len-is-the-input-length',
                                                      z3.And(z3.BoolVal(o.kind == 'return'), o.value.t == smt.N(F(S)['input_dataset'].t))
                                                      if o.kind == 'return' else smt.F)], props=('C02',))],
        'copy': [Variant('freeze=any', params={'freeze': 'bool'}, post=_rs_copy_post, hooks=_rs_copy_hooks(),
                         inline=('permutation',), props=('C13', 'C12'))],
        'ordered': [Variant('flag', post=post_bool_property(lambda S: smt.F), props=('C13',), inline=('ordered',))],
        'indexable': [Variant('flag', post=post_bool_property(lambda S: smt.F), props=('C02',), inline=('indexable',))],
    }


# ---------------------------------------------------------------- LocalShuffleDataset
def _ls_fields(self, eng, st):
    b = smt.fresh('buffer_size', smt.Int)
    st.pc.append(b >= 1)
    return {'input_dataset': DSRefV(smt.fresh('d_in', smt.DS)), 'buffer_size': IntV(b),
            'rng': RngV(smt.fresh('rng', smt.Rng))}


def _ls_iter():
    """count clause (C02: the length it reports is the number it yields) and generator identity
    (C13): every draw uses the stage's own generator.  The multiset / displacement clauses of C12
    are covered by the bounded native stand-in only."""
    def on_yield(S, value):
        return []

    def post(S, o):
        fl = F(S)
        d = AbsView(fl['input_dataset'].t)
        draws = S.st.ghost.get('draws', ())
        out = [('C13:every-draw-uses-the-stage-own-generator', z3.BoolVal(all(x[1] is fl['rng'] for x in draws)))]
        if o.kind in ('normal', 'return'):
            out.append(('C02:yields-exactly-len(input)-examples', S.out_n == d.n()))
        return out

    def inv_main(S):
        b = F(S)['buffer_size'].t
        ln = z3.Length(S.v.buffer)
        return z3.And(S.out_n + ln == S.k, ln < b, ln >= 0)

    def inv_flush(S):
        e = S.entry
        return S.out_n == e.out_n + S.k
    return Variant('values', params={'with_key': 'false'}, generator=True, on_yield=on_yield, post=post,
                   loops={'0': inv_main, '1': inv_flush}, hooks=rng_hooks(), props=('C02', 'C12', 'C13'),
                   requires=lambda S: smt.T)


class LocalShuffleDatasetC(ClassContract):
    cls = 'LocalShuffleDataset'
    fields = _ls_fields

    def view(self, eng, st):
        return None
    methods = {
        '__iter__': [_ls_iter()],
        'copy': copy_variants(hooks=rng_hooks()),
        'ordered': [Variant('flag', post=post_bool_property(lambda S: smt.F), props=('C13',), inline=('ordered',))],
    }


# ---------------------------------------------------------------- Dataset.shuffle
def _shuffle_once_post(S, o):
    d = selfd(S)
    if o.kind == 'raise':
        return [('shuffle:needs-a-length', z3.Not(smt.LEN(d)))]
    v = o.value
    if not (isinstance(v, StageV) and v.cls == 'SliceDataset' and isinstance(v.args[0], NdArrV)):
        return [('shuffle:returns-self[permutation]', smt.F)]
    cell = S.st.heap[v.args[0].oid]
    draws = S.st.ghost.get('draws', ())
    rng = S.eng.entry_env['rng']
    return [('shuffle:input-is-self', is_self(S, v.args[1])), ('C12:permutation-covers-the-dataset', cell['n'] == smt.N(d))] \
        + bij_clauses(cell, 'C12:one-time-shuffle') \
        + [('C13:the-draw-uses-the-given-generator', z3.BoolVal(len(draws) == 1 and draws[0][1] is rng))]


def _shuffle_stage_post(cls):
    def post(S, o):
        env = S.eng.entry_env
        v = o.value
        if o.kind != 'return' or not (isinstance(v, StageV) and v.cls == cls):
            return [('shuffle:returns-%s' % cls, smt.F)]
        kw = v.kwargs
        out = [('shuffle:input-is-self', is_self(S, v.args[0])),
               ('C13:passes-the-given-generator', z3.BoolVal(kw.get('rng') is env['rng']))]
        if cls == 'LocalShuffleDataset':
            out.append(('shuffle:passes-buffer_size', z3.BoolVal(kw.get('buffer_size') is env['buffer_size'])))
        out.append(('C08:construction-evaluates-nothing', z3.BoolVal(not S.st.ghost.get('log'))))
        return out
    return post


def _rng_param(eng, st):
    return RngV(smt.fresh('rng_arg', smt.Rng))


class ShuffleFactoryC(DatasetC):
    methods = {
        'shuffle': [
            Variant('one-time', params={'reshuffle': 'false', 'rng': _rng_param, 'buffer_size': 'none'},
                    post=_shuffle_once_post, hooks=_rs_copy_hooks(), props=('C12', 'C13')),
            Variant('reshuffle', params={'reshuffle': 'true', 'rng': _rng_param, 'buffer_size': 'none'},
                    post=_shuffle_stage_post('ReShuffleDataset'), hooks=_rs_copy_hooks(), props=('C12', 'C13', 'C08')),
            Variant('local', params={'reshuffle': 'true', 'rng': _rng_param, 'buffer_size': 'int'},
                    post=_shuffle_stage_post('LocalShuffleDataset'), hooks=_rs_copy_hooks(), props=('C12', 'C13', 'C08')),
        ]}


CONTRACTS = [ReShuffleDatasetC(), LocalShuffleDatasetC(), ShuffleFactoryC()]


# ---------------------------------------------------------------- random_choice (C12)
class ChoiceV(Val):
    kind = 'choice'

    def __init__(self, n, size, replace, rng):
        self.n, self.size, self.replace, self.rng = n, size, replace, rng


def _choice_hooks():
    h = _rs_copy_hooks()
    base = h['rng_method']

    def rng_method(eng, st, recv, name, args, kwargs):
        if name == 'choice' and len(args) == 1 and ('size' in kwargs or 'replace' in kwargs):
            c = ChoiceV(args[0], kwargs.get('size'), kwargs.get('replace'), recv)
            st.ghost['draws'] = st.ghost.get('draws', ()) + (('choice', recv, None),)
            return [(st, c)]
        return base(eng, st, recv, name, args, kwargs)

    def ds_getitem_other(eng, st, view, item):
        if isinstance(item, (ChoiceV, NdArrV)):
            return [(st, StageV('SliceDataset', [item, DSRefV(view.d)], {}))]
        return None
    h['rng_method'] = rng_method
    h['ds_getitem_other'] = ds_getitem_other
    return h


def _random_choice_post(S, o):
    """sampling is exactly one rng.choice(len(self), size, replace) -- whose assumed contract gives
    distinct indices for replace=False -- and the dataset is sliced by that very result"""
    env = S.eng.entry_env
    d = selfd(S)
    if o.kind == 'raise':
        return [('random_choice:needs-a-length', z3.Not(smt.LEN(d)))]
    v = o.value
    ok = isinstance(v, StageV) and v.cls == 'SliceDataset' and isinstance(v.args[0], ChoiceV)
    if not ok:
        return [('C12:random_choice-slices-by-the-direct-result-of-rng.choice', smt.F)]
    c = v.args[0]
    draws = S.st.ghost.get('draws', ())
    return [('C12:random_choice-slices-by-the-direct-result-of-rng.choice', smt.T),
            ('C12:choice-over-the-whole-dataset', z3.And(c.n.t == smt.N(d)) if isinstance(c.n, IntV) else smt.F),
            ('C12:replace-and-size-are-passed-through', z3.BoolVal(c.replace is env['replace'] and c.size is env['size'])),
            ('C13:one-draw-from-the-given-generator', z3.BoolVal(len(draws) == 1 and c.rng is env['rng_state'])),
            ('random_choice:input-is-self', is_self(S, v.args[1]))]


ShuffleFactoryC.methods['random_choice'] = [
    Variant('sample', params={'size': 'int', 'replace': 'bool', 'rng_state': _rng_param}, post=_random_choice_post,
            hooks=_choice_hooks(), props=('C12', 'C13'))]


# ---------------------------------------------------------------- ApplyDataset (C13)
APPLYDS = z3.Function('APPLYDS', smt.Fn, smt.DS, smt.DS)      # the dataset a lazily applied function returns


def _apply_hooks():
    def resolve_call(eng, st, f, args, kwargs, node):
        if isinstance(f, FnV) and len(args) == 1 and isinstance(args[0], DSRefV):
            return [(st, DSRefV(APPLYDS(f.t, args[0].t)))]
        return None
    return {'resolve_call': resolve_call}


def _apply_copy_post(S, o):
    fl = S.eng.entry_heap[S.eng.self_oid]
    f, d = fl['apply_function'].t, fl['input_dataset'].t
    if o.kind != 'return':
        return [('copy:returns', smt.F)]
    v = o.value
    fz = S.old.freeze
    copies = dict(S.st.ghost.get('copies', ()))
    if isinstance(v, DSRefV):
        t = z3.simplify(v.t)
        ok = z3.is_app(t) and t.decl().name() == 'CP' and t.arg(0).eq(APPLYDS(f, d))
        frozen = copies.get(t.arg(1).as_long()) if ok else None
        return [('C13:freezing-a-lazy-apply-freezes-the-RESULT-of-the-function', z3.BoolVal(bool(ok))),
                ('copy:frozen-branch', z3.And(fz, frozen) if frozen is not None else smt.F)]
    return [('copy:not-frozen-branch', z3.Not(fz))] + post_copy(S, o)


def _apply_frozen_view(S):
    fl = S.eng.entry_heap[S.eng.self_oid]
    return AbsView(smt.CP(APPLYDS(fl['apply_function'].t, fl['input_dataset'].t), I(0)))


def _apply_iter(with_key):
    """one epoch of a lazy apply = the stream of ONE frozen copy of apply_function(input): exactly its
    examples in its order, its exception at its position"""
    on_yield, post0 = iter_clauses(_apply_frozen_view, with_key)

    def post(S, o):
        copies = dict(S.st.ghost.get('copies', ()))
        return post0(S, o) + [('C13:one-epoch-iterates-one-frozen-copy-of-the-function-result',
                               z3.And(z3.BoolVal(len(copies) == 1 and 0 in copies), copies.get(0, smt.F)))]

    def inv(S):
        return S.out_n == S.k
    v = _apply_frozen_view
    return Variant('items' if with_key else 'values', params={'with_key': 'true' if with_key else 'false'}, generator=True,
                   on_yield=on_yield, post=post, loops={'0': inv},
                   requires=(lambda S: smt.ITEMS(_apply_frozen_view(S).d)) if with_key else None,
                   hooks=_apply_hooks(), props=('C13', 'C01'), inline=('copy',))


class ApplyDatasetC(ClassContract):
    cls = 'ApplyDataset'

    def fields(self, eng, st):
        return {'apply_function': FnV(smt.fresh('apply_fn', smt.Fn)), 'input_dataset': DSRefV(smt.fresh('d_in', smt.DS))}

    def view(self, eng, st):
        return None
    methods = {
        'copy': [Variant('freeze=any', params={'freeze': 'bool'}, post=_apply_copy_post, hooks=_apply_hooks(), props=('C13',))],
        '__iter__': [_apply_iter(False), _apply_iter(True)],
        'ordered': [Variant('flag', post=post_bool_property(lambda S: smt.F), props=('C13',), inline=('ordered',), hooks=_apply_hooks())],
    }


# ---- Dataset.apply / diskcache / dynamic-bucket factories
def _apply_factory_post(kind):
    def post(S, o):
        env = S.eng.entry_env
        if kind == 'none':
            return [('apply:None-returns-self-unchanged', z3.BoolVal(o.kind == 'return') if o.kind != 'return' else is_self(S, o.value))]
        if kind == 'lazy':
            v = o.value if o.kind == 'return' else None
            ok = isinstance(v, StageV) and v.cls == 'ApplyDataset' and len(v.args) == 2 and v.args[0] is env['apply_fn']
            return [('C13:lazy-apply-builds-ApplyDataset(apply_fn,self)', z3.And(z3.BoolVal(bool(ok)), is_self(S, v.args[1]) if ok else smt.F)),
                    ('C08:lazy-apply-does-not-call-the-function', z3.BoolVal(not S.st.ghost.get('log')))]
        # eager: the function's own result on self
        v = o.value if o.kind == 'return' else None
        return [('apply:eager-returns-apply_fn(self)',
                 z3.BoolVal(isinstance(v, DSRefV)) if not isinstance(v, DSRefV) else v.t == APPLYDS(env['apply_fn'].t, selfd(S)))]
    return post


ShuffleFactoryC.methods['apply'] = [
    Variant('None', params={'apply_fn': 'none', 'lazy': 'bool'}, post=_apply_factory_post('none'), props=('C13',)),
    Variant('lazy', params={'apply_fn': 'fn', 'lazy': 'true'}, post=_apply_factory_post('lazy'), props=('C13', 'C08')),
    Variant('eager', params={'apply_fn': 'fn', 'lazy': 'false'}, post=_apply_factory_post('eager'), hooks=_apply_hooks(), props=('C13',)),
]

CONTRACTS = [ReShuffleDatasetC(), LocalShuffleDatasetC(), ShuffleFactoryC(), ApplyDatasetC()]
