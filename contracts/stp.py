"""Shared-memory path of C04-C07: `parallel_utils.single_thread_prefetch`.

The two thread bodies are compiled from the current source by pyvc.cfg2 into control-flow
graphs of atomic steps.  One *global inductive invariant* over (pc_worker, pc_consumer,
shared state, ghost counters) is checked for initiation and for consecution over every
edge of either thread (Owicki-Gries with a global invariant: consecution *is* interference
freedom).  The invariant is phrased over node classes computed from the graph (which nodes
hold an un-put item, which come after the source ended, which come after `shutdown = True`)
not over line numbers.  Properties are consequences of the invariant:

  C04  the k-th yield hands out source item k; a normal end delivered every item
  C05  no deadlock for every buffer_size >= 1 and stop point; exit only after join;
       a ranking function decreases on every step once the consumer has set shutdown
  C06  whatever the source raises reaches the consumer after the preceding items
  C07  pulled - delivered <= buffer_size + 2 at every reachable state

Assumed: queue.Queue is a linearisable bounded FIFO, Thread.join returns iff the target
finished, one shared access per atomic step (GIL), weak fairness, one source `next` terminates.
"""
import time

import z3

from pyvc import smt
from pyvc.cfg2 import (compile_single_thread_prefetch, NORMAL, RETURN, BREAK)
from pyvc.values import Unsupported

I = z3.IntVal
PEND_RAISE = 100
# exception kinds in flight
E_NONE, E_SRC_EXC, E_SRC_BASE, E_GENEXIT, E_EMPTY, E_STORED = range(6)


class Model:
    def __init__(self, gw, gc, qinit):
        self.gw, self.gc, self.qinit = gw, gc, qinit
        self.bounded = qinit == 'bounded'
        names = ['pcw', 'pcc', 'put_n', 'get_n', 'pulled', 'item_w', 'item_c', 'pend_w', 'pend_c', 'exc_w', 'exc_c',
                 'exc_kind', 'delivered', 'sent', 'inhand', 'pexc_w', 'pexc_c', 'out_w', 'out_c']
        bools = ['shutdown', 'exc_set', 'src_end', 'brk', 'closed']
        self.v = {n: z3.Int(n) for n in names}
        self.v.update({n: z3.Bool(n) for n in bools})
        self.v['ELEM'] = z3.Array('ELEM', z3.IntSort(), z3.IntSort())
        self.B = z3.Int('B')
        self.N = z3.Int('N_src')
        self.RK = z3.Int('RK')       # how the source ends after N items: 0 exhausted, 1 Exception, 2 BaseException
        self.params = [self.B >= 1, self.N >= 0, self.RK >= 0, self.RK <= 2]
        self.vis_w = self._visible(gw)
        self.vis_c = self._visible(gc)
        self.edges = self._macro(gw, 'w') + self._macro(gc, 'c')

    # ---- graph helpers
    @staticmethod
    def _out(g, n):
        return [(p, d) for (s, p, d) in g.edges if s == n]

    def _visible(self, g):
        vis = set()
        for n, node in g.nodes.items():
            if node.kind != 'local':
                vis.add(n)
        vis.add(g.end)
        return vis

    def entry(self, g, vis):
        """first visible node reached from g.start through local steps that need no state"""
        n = g.start
        seen = set()
        while n not in vis:
            if n in seen:
                raise Unsupported('local cycle at thread start')
            seen.add(n)
            outs = self._out(g, n)
            if len(outs) != 1 or outs[0][0][0] != 'nop':
                raise Unsupported('thread body starts with a data-dependent local step')
            n = outs[0][1]
        return n

    def worker_catches(self, kind):
        """some `except` clause of the worker matches an exception of this kind"""
        names = {p[2] for (s_, p, d) in self.gw.edges if p[0] == 'test' and p[1] == 'exc-matches'}
        return z3.Or(*[self.handler_matches(n, kind) for n in sorted(names, key=str)]) if names else z3.BoolVal(False)

    def handler_matches(self, hname, exc):
        """z3 Bool: `except <hname>` catches the exception kind in flight"""
        if hname in ('Exception',):
            return z3.Or(exc == E_SRC_EXC, exc == E_EMPTY)
        if hname in ('BaseException', None):
            return z3.BoolVal(True)
        if hname == 'queue.Empty':
            return exc == E_EMPTY
        if hname == 'GeneratorExit':
            return exc == E_GENEXIT
        raise Unsupported('handler type %s' % hname)

    def apply(self, t, payload, s):
        """one raw edge: (guard, new state dict) under current symbolic state s"""
        s = dict(s)
        P = 'pend_' + t
        X = 'exc_' + t
        kind = payload[0]
        if kind == 'nop':
            return z3.BoolVal(True), s
        if kind == 'set':
            _, name, val = payload
            if name == 'outcome':
                s['out_' + t] = s[X] if val == 'exc' else I(E_NONE)
                return z3.BoolVal(True), s
            if val == 'raise':
                s[P] = I(PEND_RAISE)
                s['pexc_' + t] = s[X]       # the pending exception survives handled inner exceptions
            else:
                s[P] = I(val)
            return z3.BoolVal(True), s
        if kind == 'test':
            _, what, arg = payload
            if what == 'pend':
                if arg == 'raise':
                    g = s[P] == PEND_RAISE
                    s[X] = s['pexc_' + t]
                    return g, s
                g = s[P] == arg
                s[P] = I(NORMAL) if arg != PEND_RAISE else s[P]
                return g, s
            if what == 'item-is-sentinel':
                g = (s['item_c'] == -1) if arg else (s['item_c'] != -1)
                if arg:
                    s['brk'] = z3.BoolVal(True)
                return g, s
            if what == 'exc-matches':
                g = self.handler_matches(arg, s[X])
                return g, s
            if what == 'exc-not-matches':
                return z3.Not(self.handler_matches(arg, s[X])), s
            raise Unsupported('test %s' % what)
        _, act, det = payload
        qlen = s['put_n'] - s['get_n']
        T = z3.BoolVal(True)
        if act in ('read-true', 'read-false'):
            var = {'shutdown': s['shutdown'], 'exc_info': s['exc_set']}[det]
            return (var if act == 'read-true' else z3.Not(var)), s
        if act == 'write':
            name, const = det
            if name != 'shutdown' or const is not True:
                raise Unsupported('write %s = %r' % (name, const))
            s['shutdown'] = T
            return T, s
        if act == 'pull-item':
            g = z3.And(s['pulled'] < self.N, z3.Not(s['src_end']))
            s['item_w'] = s['pulled']
            s['pulled'] = s['pulled'] + 1
            s['inhand'] = I(1)
            return g, s
        if act in ('pull-end', 'pull-raise-exc', 'pull-raise-base'):
            rk = {'pull-end': 0, 'pull-raise-exc': 1, 'pull-raise-base': 2}[act]
            g = z3.And(s['pulled'] == self.N, self.RK == rk, z3.Not(s['src_end']))
            s['src_end'] = T
            if rk:
                s[X] = I(E_SRC_EXC if rk == 1 else E_SRC_BASE)
            return g, s
        if act in ('put-item', 'put-sentinel'):
            g = (qlen < self.B) if self.bounded else T
            s['ELEM'] = z3.Store(s['ELEM'], s['put_n'], s['item_w'] if act == 'put-item' else I(-1))
            s['put_n'] = s['put_n'] + 1
            if act == 'put-sentinel':
                s['sent'] = I(1)
            else:
                s['inhand'] = I(0)
            return g, s
        if act == 'get':
            name = det[0] if det else None
            g = qlen > 0
            if name == 'item':
                s['item_c'] = z3.Select(s['ELEM'], s['get_n'])
            s['get_n'] = s['get_n'] + 1
            return g, s
        if act == 'get_nowait':
            s['get_n'] = s['get_n'] + 1
            return qlen > 0, s
        if act == 'get_nowait-empty':
            s[X] = I(E_EMPTY)
            return qlen <= 0, s
        if act == 'join':
            return s['pcw'] == self.gw.end, s
        if act == 'exc_info()':
            s['exc_set'] = T
            s['exc_kind'] = s[X]
            return T, s
        if act == 'yield':
            # the consumer resumes the generator: the item at the yield node had been handed out
            s['delivered'] = s['delivered'] + 1
            return T, s
        if act == 'yield-close':
            s['delivered'] = s['delivered'] + 1
            s[X] = I(E_GENEXIT)
            s['closed'] = T
            return T, s
        if act == 'raise-stored':
            s[X] = I(E_STORED)
            return T, s
        raise Unsupported('action %s' % act)

    def _macro(self, g, t):
        """collapse local nodes: edges between visible nodes = one shared action + local steps"""
        vis = self.vis_w if t == 'w' else self.vis_c
        out = []
        pc = 'pc' + t
        for v in sorted(vis):
            if v == g.end:
                continue
            for payload, dst in self._out(g, v):
                s0 = dict(self.v)
                guard, s1 = self.apply(t, payload, s0)
                stack = [(dst, [guard], s1, [payload], set())]
                while stack:
                    n, gs, s, path, seen = stack.pop()
                    if n in vis:
                        s = dict(s)
                        s[pc] = I(n)
                        out.append({'thread': t, 'src': v, 'dst': n, 'guard': z3.And(*gs), 'post': s,
                                    'label': ' ; '.join(str(p[1:]) if p[0] == 'act' else str(p) for p in path)})
                        continue
                    if n in seen:
                        raise Unsupported('local cycle without a shared action')
                    for p2, d2 in self._out(g, n):
                        g2, s2 = self.apply(t, p2, s)
                        stack.append((d2, gs + [g2], s2, path + [p2], seen | {n}))
        return out

    # ---- node classes (computed from the raw graph)
    def reach(self, g, starts, stop_acts=(), stop_nodes=()):
        seen = set()
        todo = list(starts)
        while todo:
            n = todo.pop()
            if n in seen or n in stop_nodes:
                continue
            seen.add(n)
            for p, d in self._out(g, n):
                if p[0] == 'act' and p[1] in stop_acts:
                    continue
                todo.append(d)
        return seen

    def classes(self):
        gw, gc = self.gw, self.gc
        c = {}
        pulls = {n for n, nd in gw.nodes.items() if nd.kind == 'pull'}
        c['W_FIN'] = self.reach(gw, gw.fin_entries) & self.vis_w
        hold_starts = [d for (s, p, d) in gw.edges if p[0] == 'act' and p[1] == 'pull-item']
        c['W_MID'] = (self.reach(gw, hold_starts, stop_acts=('put-item',), stop_nodes=pulls | self.reach(gw, gw.fin_entries))
                      & self.vis_w)
        c['W_PUTITEM'] = {n for n, nd in gw.nodes.items() if nd.kind == 'put-item'}
        c['W_PUTSENT'] = {n for n, nd in gw.nodes.items() if nd.kind == 'put-sentinel'}
        c['W_PUT'] = c['W_PUTITEM'] | c['W_PUTSENT']
        c['W_PULL'] = set(pulls)
        end_starts = [d for (s, p, d) in gw.edges
                      if p[0] == 'act' and p[1].startswith('pull-') and p[1] != 'pull-item']
        c['W_HANDLER'] = (self.reach(gw, end_starts, stop_nodes=self.reach(gw, gw.fin_entries)) & self.vis_w)
        wr = [d for (s, p, d) in gc.edges if p[0] == 'act' and p[1] == 'write']
        c['C_POST'] = self.reach(gc, wr) & self.vis_c
        c['C_PRE'] = self.vis_c - c['C_POST']
        c['C_YIELD'] = {n for n, nd in gc.nodes.items() if nd.kind == 'yield'}
        c['C_GET'] = {n for n, nd in gc.nodes.items() if nd.kind == 'get'}
        c['C_WRITE'] = {n for n, nd in gc.nodes.items() if nd.kind == 'write-shutdown'}
        c['C_JOIN'] = {n for n, nd in gc.nodes.items() if nd.kind == 'join'}
        c['C_DRAIN'] = {n for n, nd in gc.nodes.items() if nd.kind == 'get_nowait'}
        after_join = [d for (s, p, d) in gc.edges if p[0] == 'act' and p[1] == 'join']
        c['C_AFTERJOIN'] = (self.reach(gc, after_join) & self.vis_c) | {gc.end}
        c['C_REREAD'] = c['C_AFTERJOIN'] - {gc.end}
        c['C_RERAISE'] = {n for n, nd in gc.nodes.items() if nd.kind == 'reraise'}
        for need in ('W_PUTITEM', 'W_PUTSENT', 'C_YIELD', 'C_GET', 'C_WRITE', 'C_JOIN'):
            if not c[need]:
                raise Unsupported('no node of class %s in the extracted graph' % need)
        return c


def table(pc, tab):
    e = I(0)
    for n, val in sorted(tab.items()):
        e = z3.If(pc == n, I(val), e)
    return e


def ahead(M, kinds):
    """for every worker node: the largest number of actions of the given kinds the worker can still perform
    before it next READS the shutdown flag (computed on the extracted graph; a cycle without such a read
    counts as unbounded)"""
    UNB = 10 ** 6
    out_edges = {}
    for e in M.edges:
        if e['thread'] == 'w':
            out_edges.setdefault(e['src'], []).append(e)
    memo = {}

    def go(n, stack):
        if n == M.gw.end:
            return 0
        if n in memo:
            return memo[n]
        if n in stack:
            return UNB
        best = 0
        for e in out_edges.get(n, []):
            first = e['label'].split(' ; ')[0]
            if "'shutdown'" in first and 'read-' in first:
                continue                      # the flag is read first: nothing happens before that
            cnt = 1 if any(k in first for k in kinds) else 0
            best = max(best, min(UNB, cnt + go(e['dst'], stack | {n})))
        memo[n] = best
        return best
    return {n: go(n, frozenset()) for n in M.vis_w}


def member(pc, nodes):
    nodes = sorted(nodes)
    return z3.Or(*[pc == n for n in nodes]) if nodes else z3.BoolVal(False)


def invariant(M, v, C, with_readahead=True, with_join=True):
    """The global invariant (DESIGN Appendix A), phrased over node classes."""
    gw, gc = M.gw, M.gc
    pcw, pcc = v['pcw'], v['pcc']
    put_n, get_n, pulled, deliv, sent, inhand = v['put_n'], v['get_n'], v['pulled'], v['delivered'], v['sent'], v['inhand']
    items_put = put_n - sent
    qlen = put_n - get_n
    WEND = gw.end
    t = z3.Int('_it')
    mid = member(pcw, C['W_MID'])
    fin = member(pcw, C['W_FIN'])
    pre = member(pcc, C['C_PRE'])
    post = member(pcc, C['C_POST'])
    at_yield = member(pcc, C['C_YIELD'])
    at_get = member(pcc, C['C_GET'])
    at_write = member(pcc, C['C_WRITE'])
    at_join = member(pcc, C['C_JOIN'])
    pendput = table(pcw, ahead(M, ("'put-item'", "'put-sentinel'")))      # puts still possible before the next flag read
    pullsoon = table(pcw, ahead(M, ("'pull-item'",)))
    held = z3.If(at_yield, 1, 0)          # an item handed out at the suspended yield
    conj = [
        # 1 ranges
        member(pcw, M.vis_w), member(pcc, M.vis_c), get_n >= 0, get_n <= put_n, deliv >= 0, pulled >= 0,
        z3.Or(sent == 0, sent == 1), z3.Or(inhand == 0, inhand == 1), pulled <= M.N,
        (qlen <= M.B) if M.bounded else z3.BoolVal(True),
        z3.Or(v['pend_w'] == NORMAL, v['pend_w'] == RETURN, v['pend_w'] == PEND_RAISE),
        z3.Or(v['pend_c'] == NORMAL, v['pend_c'] == RETURN, v['pend_c'] == PEND_RAISE),
        # 2 queue content: the t-th thing ever put is source item t, the sentinel comes last
        z3.ForAll([t], z3.Implies(z3.And(t >= 0, t < items_put), z3.Select(v['ELEM'], t) == t)),
        z3.Implies(sent == 1, z3.Select(v['ELEM'], items_put) == -1),
        # 3 the worker holds at most one pulled-but-not-put item
        pulled == items_put + inhand,
        z3.Implies(mid, z3.And(inhand == 1, v['item_w'] == items_put, sent == 0, z3.Not(v['src_end']))),
        z3.Implies(z3.And(inhand == 1, z3.Not(mid)), z3.And(v['shutdown'], fin)),
        # 4 end of source / sentinel / the finally region
        z3.Implies(sent == 1, z3.And(pcw == WEND, v['src_end'], inhand == 0)),
        z3.Implies(v['src_end'], z3.And(z3.Or(fin, member(pcw, C['W_HANDLER'])), pulled == M.N, inhand == 0)),
        z3.Implies(member(pcw, C['W_HANDLER']), v['src_end']),
        z3.Implies(z3.And(fin, pcw != WEND), z3.Or(v['src_end'], v['shutdown'])),
        z3.Implies(member(pcw, C['W_PUTSENT']), z3.And(v['src_end'], sent == 0, inhand == 0)),
        z3.Implies(member(pcw, C['W_PUTITEM']), mid),
        # 5 a worker that finished without the sentinel saw shutdown
        z3.Implies(z3.And(pcw == WEND, sent == 0), v['shutdown']),
        # the stored exception is the source's (kind codes of exceptions coincide with RK)
        z3.Implies(v['exc_set'], z3.And(v['src_end'], M.RK != 0, v['exc_kind'] == M.RK)),
        z3.Implies(member(pcw, C['W_HANDLER']), z3.And(M.RK != 0, v['exc_w'] == M.RK)),
        # 6 consumer
        z3.Implies(pre, z3.Not(v['shutdown'])), z3.Implies(post, v['shutdown']),
        deliv + held <= get_n, deliv + held <= items_put,
        z3.Implies(pre, get_n == deliv + held + z3.If(v['brk'], 1, 0)),
        z3.Implies(at_get, z3.And(deliv == get_n, z3.Not(v['brk']), z3.Not(v['closed']), get_n <= items_put)),
        z3.Implies(at_yield, z3.And(get_n == deliv + 1, v['item_c'] == deliv, deliv < items_put, z3.Not(v['brk']),
                                    z3.Not(v['closed']))),
        z3.Implies(z3.And(z3.Not(v['brk']), z3.Or(at_write, post)), v['closed']),
        z3.Implies(z3.And(at_write, z3.Not(v['brk'])), get_n == deliv),
        # 7 the consumer saw the sentinel: everything was delivered
        z3.Implies(v['brk'], z3.And(sent == 1, deliv == items_put, z3.Not(v['closed']), z3.Or(at_write, post))),
        z3.Implies(z3.And(v['src_end'], fin, M.RK != 0, M.worker_catches(M.RK)), v['exc_set']),
        z3.Implies(member(pcc, C['C_RERAISE']), v['exc_set']),
        z3.Implies(z3.And(v['closed'], pcc != gc.end), z3.And(v['pend_c'] == PEND_RAISE, v['pexc_c'] == E_GENEXIT)),
        z3.Implies(z3.And(v['closed'], pcc == gc.end), v['out_c'] == E_GENEXIT),
        z3.Implies(z3.And(v['brk'], pcc != gc.end, z3.Not(member(pcc, C['C_AFTERJOIN']))), v['pend_c'] == NORMAL),
        z3.Implies(z3.And(pcc == gc.end, z3.Not(v['closed'])),
                   z3.And(v['brk'], v['out_c'] == z3.If(v['exc_set'], I(E_STORED), I(E_NONE)))),
        z3.Implies(member(pcc, C['C_REREAD']), z3.And(v['brk'], z3.Not(v['closed']))),
        # 8 worker finished while the consumer still waits for data: the sentinel is queued
        z3.Implies(z3.And(pcw == WEND, at_get), sent == 1),
        # 9 at the join nothing can block the worker's last put
        z3.Implies(at_join, qlen + pendput <= 1) if with_join else z3.BoolVal(True),
        z3.Implies(member(pcc, C['C_AFTERJOIN']), pcw == WEND),
        # 10 read-ahead (C07)
        (pulled + pullsoon <= deliv + held + M.B + 2)
        if (M.bounded and with_readahead) else z3.BoolVal(True),
    ]
    return z3.And(*conj)


def init_state(M):
    s = dict(M.v)
    eqs = [s['pcw'] == M.entry(M.gw, M.vis_w), s['pcc'] == M.entry(M.gc, M.vis_c), s['put_n'] == 0, s['get_n'] == 0,
           s['pulled'] == 0, s['delivered'] == 0, s['sent'] == 0, s['inhand'] == 0, z3.Not(s['shutdown']),
           z3.Not(s['exc_set']), z3.Not(s['src_end']), z3.Not(s['brk']), z3.Not(s['closed']),
           s['pend_w'] == NORMAL, s['pend_c'] == NORMAL, s['exc_w'] == E_NONE, s['exc_c'] == E_NONE,
           s['exc_kind'] == E_NONE, s['pexc_w'] == E_NONE, s['pexc_c'] == E_NONE, s['out_w'] == E_NONE,
           s['out_c'] == E_NONE]
    return z3.And(*eqs)


def obligations(M, prop=None):
    """-> list of (name, assumptions, goal)"""
    C = M.classes()
    obs = []
    P = M.params
    ra = prop in (None, 'C07')
    jn = prop in (None, 'C05')
    inv0 = invariant(M, M.v, C, ra, jn)
    obs.append(('init', P + [init_state(M)], inv0))
    for i, e in enumerate(M.edges):
        pc = M.v['pc' + e['thread']]
        post = invariant(M, e['post'], C, ra, jn)
        nm = 'consecution[%s:%s->%s #%d %s]' % (e['thread'], M.gw.nodes[e['src']].kind if e['thread'] == 'w'
                                               else M.gc.nodes[e['src']].kind, e['dst'], i, e['label'][:60])
        obs.append((nm, P + [inv0, pc == e['src'], e['guard']], post))
    return obs, C


def steps_left(M, g, vis, forbidden_acts, only_from=None):
    """longest path (in macro edges) from each visible node to the end, ignoring edges whose
    first action is in forbidden_acts and self loops; raises if cyclic"""
    t = g.thread
    succ = {}
    for e in M.edges:
        if e['thread'] != t:
            continue
        first = e['label'].split(' ; ')[0]
        if any(a in first for a in forbidden_acts) or e['src'] == e['dst']:
            continue
        if only_from is not None and e['src'] not in only_from:
            continue
        succ.setdefault(e['src'], set()).add(e['dst'])
    memo = {}

    def go(n, stack):
        if n == g.end:
            return 0
        if n in memo:
            return memo[n]
        if n in stack:
            return 10 ** 6      # a cycle that does not read the flag: no bound (the ranking obligations then fail)
        best = 0
        for d in succ.get(n, ()):
            best = max(best, min(10 ** 6, 1 + go(d, stack | {n})))
        memo[n] = best
        return best
    return {n: go(n, frozenset()) for n in vis}


def table(pc, tab):
    e = I(0)
    for n, val in sorted(tab.items()):
        e = z3.If(pc == n, I(val), e)
    return e


def consequences(M, C, prop=None):
    """property clauses that follow from the invariant alone: (prop, name, assumptions, goal)"""
    v = M.v
    gw, gc = M.gw, M.gc
    inv = invariant(M, v, C, prop in (None, 'C07'), prop in (None, 'C05'))
    P = M.params + [inv]
    pcw, pcc = v['pcw'], v['pcc']
    deliv = v['delivered']
    held = z3.If(member(pcc, C['C_YIELD']), 1, 0)
    out = []
    out.append(('C04', 'order:the-item-at-the-yield-is-source-item-number-delivered',
                P + [member(pcc, C['C_YIELD'])], z3.And(v['item_c'] == deliv, v['item_c'] < M.N, v['item_c'] >= 0)))
    out.append(('C04', 'completeness:normal-end-delivered-every-item-and-the-source-ended-normally',
                P + [pcc == gc.end, v['out_c'] == E_NONE], z3.And(deliv == M.N, M.RK == 0)))
    out.append(('C04', 'exactly-once:delivered-never-exceeds-source-length', P, deliv + held <= M.N))
    out.append(('C06', 'error-delivery:a-failing-source-raises-in-the-consumer-after-the-preceding-items',
                P + [pcc == gc.end, z3.Not(v['closed']), M.RK != 0],
                z3.And(v['out_c'] == E_STORED, v['exc_kind'] == M.RK, deliv == M.N)))
    out.append(('C06', 'no-spurious-error:exhausted-source-ends-normally',
                P + [pcc == gc.end, z3.Not(v['closed']), M.RK == 0], z3.And(v['out_c'] == E_NONE, deliv == M.N)))
    if M.bounded:
        out.append(('C07', 'read-ahead:pulled-beyond-handed-out<=buffer_size+2', P,
                    v['pulled'] <= deliv + held + M.B + 2))
    else:
        out.append(('C07', 'read-ahead:the-hand-over-queue-is-bounded-by-buffer_size', [], z3.BoolVal(False)))
    # C05 deadlock freedom: whenever the consumer has not finished some step is enabled
    en = [z3.And(v['pc' + e['thread']] == e['src'], e['guard']) for e in M.edges]
    out.append(('C05', 'deadlock-freedom:some-thread-can-step-until-the-consumer-has-returned',
                P + [pcc != gc.end], z3.Or(*en)))
    out.append(('C05', 'threads-exited:the-consumer-returns-only-after-the-worker-finished',
                P + [pcc == gc.end], pcw == gw.end))
    # C05 finite time: ranking function, strictly decreasing on every step once shutdown is set
    sw = steps_left(M, gw, M.vis_w, ("'read-false', 'shutdown'",))
    sc = steps_left(M, gc, M.vis_c, (), only_from=C['C_POST'] | C['C_WRITE'])
    qlen = v['put_n'] - v['get_n']

    def rank(s):
        return 10 * table(s['pcc'], sc) + (s['put_n'] - s['get_n']) + 2 * table(s['pcw'], sw)
    for i, e in enumerate(M.edges):
        pc = v['pc' + e['thread']]
        out.append(('C05', 'termination-after-stop:rank-decreases[%s:%d->%d #%d]' % (e['thread'], e['src'], e['dst'], i),
                    P + [v['shutdown'], pc == e['src'], e['guard']],
                    z3.And(rank(e['post']) < rank(v), rank(v) >= 0)))
    return out


# ------------------------------------------------------------------ plumbing
from pyvc.contract import Variant, FuncContract          # noqa
from pyvc.verify import VariantResult                     # noqa


def _run(prop):
    def custom(src, hier, variant):
        t0 = time.time()
        qual = 'parallel_utils:single_thread_prefetch'
        res = VariantResult(qual, variant.name, variant.props)
        try:
            fn = src.func(qual)
            res.source_hash = src.source_hash(qual)
            gw, gc, qinit = compile_single_thread_prefetch(fn)
            M = Model(gw, gc, qinit)
            obs, C = obligations(M, prop)
            todo = [('single_thread_prefetch[%s]:%s' % (prop, n), a, g, 'inv') for n, a, g in obs]
            todo += [('single_thread_prefetch[%s]:%s' % (prop, n), a, g, 'post')
                     for p, n, a, g in consequences(M, C, prop) if p == prop]
            # vacuity: the invariant is satisfiable together with every node pair's reachability is not
            # claimed; the initial state satisfies it (init obligation) and each edge guard is coverable
            r, _ = smt.check_sat(M.params + [init_state(M)], timeout_ms=5000)
            res.covers, res.cover_sat = 1, int(r == 'sat')
            if r != 'sat':
                res.status = 'fault'
                res.reason = 'initial state unsatisfiable'
                return res
            res.paths = len(M.edges)
            for name, a, g, kind in todo:
                pr = smt.prove(a, g)
                d = {'name': name, 'kind': kind, 'status': pr.status, 'backend': pr.backend, 'seconds': round(pr.seconds, 4)}
                if pr.status == 'sat' and pr.model is not None:
                    m = pr.model
                    d['model'] = {str(x): str(m[x]) for x in m.decls() if x.arity() == 0 and not str(x).startswith('_')
                                  and str(x) != 'ELEM'}
                res.obligations.append(d)
        except Unsupported as e:
            res.status = 'undecided'
            res.reason = 'extraction: %s' % e
        except Exception as e:     # noqa
            import traceback
            res.status = 'fault'
            res.reason = 'checker exception: %s\n%s' % (e, traceback.format_exc()[-1200:])
        res.seconds = round(time.time() - t0, 3)
        return res
    return custom


def _variants():
    vs = []
    for p in ('C04', 'C05', 'C06', 'C07'):
        v = Variant('two-thread-invariant/%s' % p, props=(p,))
        v.custom = _run(p)
        vs.append(v)
    return vs


class SingleThreadPrefetchC(FuncContract):
    mod = 'parallel_utils'
    cls = None
    methods = {'single_thread_prefetch': _variants()}


CONTRACTS = [SingleThreadPrefetchC()]
