"""IntersperseDataset.__init__ establishes ORDER, the class invariant the method contracts assume
(contracts/intersperse.py):  m >= 1, every input sized and non-empty, `order` has sum_j N(d_j) entries (_, D(p), E(p)) with
0 <= D(p) < m, 0 <= E(p) < N(d_D(p)) and  E(p) = #{q < p : D(q) = D(p)}.

order = sorted([((e + 1) / N_d, d, e) for d, N_d in enumerate(lengths) for e in range(N_d)])

  * the nested comprehension is the engine's pair bijection (A-NESTED),
  * `sorted` (assumed contract): a permutation PI of its argument, lexicographically non-decreasing,
  * float division is treated as exact rational division (the argument only uses that (e+1)/N is strictly
    increasing in e for N > 0; IEEE division is non-decreasing and ties are broken by the later components (d, e)).
The counting clause needs an induction over the positions p; it is split into explicit lemma obligations:
  L2  POS(d, .) is strictly increasing  (POS(d,e) = the position of the pair (d,e) in `order`)
  J   J(p): for every d, exactly the examples e < CNTD(d,p) of d lie before p   -- base J(0), step J(p) => J(p+1)
  and the clause E(p) = CNTD(D(p), p) follows from forall p. J(p) (the induction conclusion is an explicit hypothesis
  of that last obligation; the schema itself is the only meta-step)."""
import z3

from pyvc import smt
from pyvc.smt import I
from pyvc.values import *          # noqa
from pyvc.engine import NestedSeqV
from pyvc.contract import *        # noqa
from pyvc.views import AX
from contracts import spec
from contracts.effects import evals
from contracts.inits import _inputs
from contracts.intersperse import CNTD


def _lexle(a, b):
    (f1, d1, e1), (f2, d2, e2) = a, b
    return z3.Or(f1 < f2, z3.And(f1 == f2, z3.Or(d1 < d2, z3.And(d1 == d2, e1 <= e2))))


def _hooks():
    def builtin_hook(eng, st, name, args, kwargs, node):
        if name == 'sorted' and len(args) == 1 and not kwargs and isinstance(args[0], NestedSeqV):
            seq = args[0]
            el = seq.at(z3.Int('_q'))
            if not (isinstance(el, TupleV) and len(el.items) == 3 and isinstance(el.items[0], RealV)
                    and isinstance(el.items[1], IntV) and isinstance(el.items[2], IntV)):
                return None
            c = next(smt._counter)
            PI = z3.Function('SORT_PI!%d' % c, smt.Int, smt.Int)
            PINV = z3.Function('SORT_PINV!%d' % c, smt.Int, smt.Int)
            L = seq.length
            p, q, x = z3.Ints('_sp _sq _sx')

            def key(i):
                t = seq.at(i)
                return tuple(v.t for v in t.items)
            st.pc += [
                z3.ForAll([p], z3.Implies(z3.And(p >= 0, p < L), z3.And(PI(p) >= 0, PI(p) < L, PINV(PI(p)) == p)), patterns=[PI(p)]),
                z3.ForAll([x], z3.Implies(z3.And(x >= 0, x < L), z3.And(PINV(x) >= 0, PINV(x) < L, PI(PINV(x)) == x)), patterns=[PINV(x)]),
                z3.ForAll([p, q], z3.Implies(z3.And(p >= 0, p < q, q < L), _lexle(key(PI(p)), key(PI(q)))), patterns=[z3.MultiPattern(PI(p), PI(q))]),
            ]
            r = SymSeqV(L, lambda i: seq.at(PI(i)), 'list')
            eng._sorted = dict(seq=seq, PI=PI, PINV=PINV, L=L)
            return [(st, r)]
        return None
    return dict(builtin_hook=builtin_hook, feas_timeout_ms=400)


def _post(S, o):
    eng = S.eng
    t = eng.entry_env['input_datasets']
    m, ow = t.m, t.owner
    me = S.st.heap[eng.self_oid]
    noeval = ('C08:construction-evaluates-no-example', z3.BoolVal(not [e for e in evals(S) if e[0] in ('get', 'app', 'pull', 'getkey')]))
    if o.kind == 'raise':
        return [noeval]
    order = me.get('order')
    srt = getattr(eng, '_sorted', None)
    if not isinstance(order, SymSeqV) or srt is None:
        return [('C01:IntersperseDataset-invariant:order-is-a-sorted-list', smt.F)]
    seq, PI, PINV, L = srt['seq'], srt['PI'], srt['PINV'], srt['L']
    D = lambda p: order.at(p).items[1].t     # noqa
    E = lambda p: order.at(p).items[2].t     # noqa
    Nd = lambda d: smt.N(spec.IN(ow, d))     # noqa
    POS = lambda d, e: PINV(seq.FLAT(d, e))  # noqa
    C = CNTD(ow)
    Ssum = spec.sum_n(ow)
    smt.FOLDS.note_index(m)
    p = smt.fresh('p', smt.Int)
    d = smt.fresh('d', smt.Int)
    e = smt.fresh('e', smt.Int)
    e2 = smt.fresh('e2', smt.Int)
    inr = z3.And(p >= 0, p < L)
    out = [('C01:IntersperseDataset-invariant:at-least-one-input', m >= 1),
           ('C01:IntersperseDataset-invariant:every-input-is-sized-and-non-empty',
            z3.Implies(z3.And(d >= 0, d < m), z3.And(smt.LEN(spec.IN(ow, d)), Nd(d) > 0))),
           ('C01:IntersperseDataset-invariant:order-has-one-entry-per-example', order.length == Ssum(m)),
           ('C01:IntersperseDataset-invariant:entries-name-an-example-of-an-input',
            z3.Implies(inr, z3.And(D(p) >= 0, D(p) < m, E(p) >= 0, E(p) < Nd(D(p))))),
           ('init:field-input_datasets', z3.BoolVal(me.get('input_datasets') is t)), noeval]
    # ---- the interleaving itself: entries are ordered by the relative position (E+1)/N of the example inside its
    #      input, ties by input index (this fixes the order uniquely: it is the reference semantics of intersperse)
    q = smt.fresh('q', smt.Int)
    FR = lambda x: order.at(x).items[0].t     # noqa
    keyp = lambda x: (z3.ToReal(E(x) + 1) / z3.ToReal(Nd(D(x))), D(x), E(x))     # noqa
    out += [('C01:intersperse-order:the-sort-key-is-(E+1)/N(D)', z3.Implies(inr, FR(p) == keyp(p)[0])),
            ('C01:intersperse-order:entries-are-sorted-by-relative-position-then-input-index',
             z3.Implies(z3.And(p >= 0, p < q, q < L), _lexle(keyp(p), keyp(q))))]
    # ---- the counting clause by induction over p
    dq, eq, eq2 = z3.Ints('_jd _je _je2')

    HINT = z3.Function('HINT', smt.Int, smt.Bool)      # a term seeded into the e-graph (no meaning)

    def mono(quant):
        body = lambda a, b, c: z3.Implies(z3.And(a >= 0, a < m, b >= 0, b < c, c < Nd(a)), POS(a, b) < POS(a, c))    # noqa
        return z3.ForAll([dq, eq, eq2], body(dq, eq, eq2),
                         patterns=[z3.MultiPattern(seq.FLAT(dq, eq), seq.FLAT(dq, eq2))]) if quant else body(d, e, e2)

    def J(pp, quant):
        def body(a, b):
            c = C(a, pp)
            return z3.Implies(z3.And(a >= 0, a < m),
                              z3.And(c >= 0, c <= Nd(a),
                                     z3.Implies(z3.And(b >= 0, b < c), POS(a, b) < pp),
                                     z3.Implies(z3.And(b >= c, b < Nd(a)), POS(a, b) >= pp)))
        return z3.ForAll([dq, eq], body(dq, eq), patterns=[seq.FLAT(dq, eq)]) if quant else body(d, e)
    # CNTD unfolding at 0 and at the generic p
    j = z3.Int('_cdj')
    unfold = [z3.ForAll([j], C(j, I(0)) == 0), z3.ForAll([j], C(j, p + 1) == C(j, p) + z3.If(D(p) == j, 1, 0))]
    pos_inv = z3.Implies(inr, z3.And(POS(D(p), E(p)) == p))
    pq = z3.Int('_jp')
    allJ = z3.ForAll([pq], z3.Implies(z3.And(pq >= 0, pq <= L), J(pq, True)))
    out += [
        ('lemma:position-of-an-entry-is-the-inverse-of-order', pos_inv),
        ('lemma:L2:examples-of-one-input-appear-in-increasing-order', mono(False)),
        ('lemma:J:induction-base', z3.Implies(z3.And(*unfold), J(I(0), False))),
        ('lemma:J:induction-step', z3.Implies(z3.And(inr, J(p, True), mono(True), pos_inv, E(p) == C(D(p), p), *unfold),
                                              J(p + 1, False))),
        # from J(p) (induction conclusion, explicit hypothesis): the entry at p is example number CNTD(D(p), p) of its input
        ('C01:IntersperseDataset-invariant:an-entry-takes-the-next-unused-example-of-its-input',
         z3.Implies(z3.And(inr, J(p, True), mono(True), pos_inv, HINT(seq.FLAT(D(p), C(D(p), p))), HINT(seq.FLAT(D(p), E(p)))),
                    E(p) == C(D(p), p))),
    ]
    return out


class IntersperseInitC(ClassContract):
    cls = 'IntersperseDataset'

    def view(self, eng, st):
        return None
    methods = {'__init__': [Variant('construct', params={'input_datasets': _inputs}, post=_post, hooks=_hooks(),
                                    props=('C01', 'C02', 'C08'))]}


CONTRACTS = [IntersperseInitC()]
