"""C18, the grouping half: Dataset.groupby(group_fn) returns {group id: self[indices of that group]} where the index
lists PARTITION the dataset and keep the dataset order:
   (a) every index in the list of group k is a position 0 <= i < len(self) whose example has group id k,
       and each list is strictly increasing (relative order kept, nothing twice),
   (b) every position i lies in the list of ITS group id  G(i) = group_fn(self[i])  (nothing lost),
   (c) the returned dict has exactly the non-empty groups as keys and self[<that list>] as values.
If an example or group_fn raises, that exception propagates (nothing is returned).

Modelled library pieces (assumed contracts):
  itertools.groupby(seq, key)  = consecutive non-empty runs [RS(r), RS(r+1)) covering the sequence, all elements of a
                                 run have the key of its first element; the run object yields exactly those elements
  collections.defaultdict(list)= a dict whose missing entries read as a new empty list that is inserted
  dict key equality of group ids = equality of the id values (ids are hashable, ==/hash consistent)
The loop over the runs carries the invariant (a)+(b) restricted to the positions below RS(r)."""
import ast

import z3

from pyvc import smt
from pyvc.smt import I
from pyvc.values import *          # noqa
from pyvc.engine import GenStreamV, KwArgsV
from pyvc.contract import *        # noqa
from pyvc.views import Out, AbsView
from contracts.factories import DatasetC, selfd, is_self


class GroupsV(Val):
    kind = 'defaultdict(list)'

    def __init__(self, oid):
        self.oid = oid


class GroupListV(Val):
    """groups[k] read for an in-place extension: the stored list (length old_len) plus what is appended"""
    kind = 'grouplist'

    def __init__(self, groups, key, old_len, appended=None):
        self.groups, self.key, self.old_len, self.appended = groups, key, old_len, appended


class RunsV(Val):
    kind = 'itertools.groupby'

    def __init__(self, n, K, base_elem, R, RS):
        self.n, self.K, self.base_elem, self.R, self.RS = n, K, base_elem, R, RS


class ItemsOfV(Val):
    kind = 'groups.items()'

    def __init__(self, groups):
        self.groups = groups


class ResultDictV(Val):
    kind = 'result-dict'

    def __init__(self, cell, kg, key_val, value_val):
        self.cell, self.kg, self.key_val, self.value_val = cell, kg, key_val, value_val


def _new_cell(tag):
    c = next(smt._counter)
    DOM = z3.Function('G_DOM!%d' % c, smt.Obj, smt.Bool)
    LEN = z3.Function('G_LEN!%d' % c, smt.Obj, smt.Int)
    AT = z3.Function('G_AT!%d' % c, smt.Obj, smt.Int, smt.Int)
    WIT = z3.Function('G_WIT!%d' % c, smt.Int, smt.Int)
    return {'dom': lambda k: DOM(k), 'len': lambda k: LEN(k), 'at': lambda k, t: AT(k, t), 'wit': lambda i: WIT(i)}


def _hooks():
    def resolve_call(eng, st, f, args, kwargs, node):
        if isinstance(f, BoundV) and isinstance(f.recv, DSRefV) and f.name == 'map':
            return eng.inline_call('core:Dataset.map', [f.recv] + list(args), kwargs, st)
        return None

    def list_hook(eng, st, x):
        # list(self.map(f)): the examples of self, f applied to each in order; the first failure propagates
        if isinstance(x, StageV) and x.cls == 'MapDataset' and len(x.args) == 2 and isinstance(x.args[0], FnV) \
                and isinstance(x.args[1], DSRefV):
            f, d = x.args
            n, base = eng.iter_descr(d, st)

            def elem(k):
                outs = []
                for o in base(k):
                    if o.exc is not None:
                        outs.append(o)
                        continue
                    xv = o.value.t
                    outs.append(Out(z3.And(o.cond, z3.Not(smt.APP_R(f.t, xv))), value=ObjV(smt.APP_V(f.t, xv)), facts=o.facts))
                    outs.append(Out(z3.And(o.cond, smt.APP_R(f.t, xv)), exc=ExcV(smt.APP_E(f.t, xv), None), facts=o.facts))
                return outs
            g = GenStreamV(n, elem, 'map-stage')
            node = ast.parse('[_e for _e in _it]', mode='eval').body
            ast.fix_missing_locations(node)
            s2 = st.fork()
            s2.env = dict(st.env, _it=g)
            res = []
            for s3, v in eng.comprehension(node, s2, 'list'):
                s3.env.pop('_it', None)
                s3.env.pop('_e', None)
                res.append((s3, v))
            return res
        return None

    def builtin_hook(eng, st, name, args, kwargs, node):
        if name == 'collections.defaultdict' and len(args) == 1 and isinstance(args[0], BuiltinV) and args[0].name == 'list':
            oid = eng.new_oid()
            st.heap[oid] = {'dom': lambda k: smt.F, 'len': lambda k: I(0), 'at': lambda k, t: I(0), 'wit': lambda i: I(0)}
            return [(st, GroupsV(oid))]
        if name == 'itertools.groupby' and len(args) == 2 and isinstance(args[1], ClosureV):
            n, base = eng.iter_descr(args[0], st)
            gi = smt.fresh('gi', smt.Int)
            outs = [o for o in base(gi) if o.exc is None]
            if len(outs) != 1 or [o for o in base(gi) if o.exc is not None]:
                raise Unsupported('itertools.groupby over a stream that may raise')
            r = eng.call_closure(args[1], [outs[0].value], {}, st.fork())
            if len(r) != 1 or not isinstance(r[0][1], ObjV):
                raise Unsupported('groupby key function')
            kt = r[0][1].t
            c = next(smt._counter)
            R = smt.fresh('n_runs', smt.Int)
            RS = z3.Function('RUN_START!%d' % c, smt.Int, smt.Int)
            st.pc += [R >= 0, RS(I(0)) == 0, RS(R) == n, z3.Implies(n > 0, R > 0)]
            eng._groupby_runs = RunsV(n, lambda i: z3.substitute(kt, (gi, i)), base, R, RS)
            return [(st, eng._groupby_runs)]
        return None

    def iter_obj_descr(eng, st, it):
        if isinstance(it, RunsV):
            def elem(r):
                lo, hi = it.RS(r), it.RS(r + 1)
                i = z3.Int('_run_i')
                facts = [lo >= 0, lo < hi, hi <= it.n,
                         z3.ForAll([i], z3.Implies(z3.And(i >= lo, i < hi), it.K(i) == it.K(lo)))]
                sub = GenStreamV(hi - lo, lambda j: it.base_elem(lo + j), 'run')
                return [Out(smt.T, value=TupleV([ObjV(it.K(lo)), sub]), facts=facts)]
            return it.R, elem
        return None

    def subscript_hook(eng, st, recv, idx, node):
        if isinstance(recv, GroupsV) and isinstance(idx, ObjV):
            cell = st.heap[recv.oid]
            return [(st, GroupListV(recv, idx.t, cell['len'](idx.t)))]
        return None

    def binop_hook(eng, st, op, a, b, node):
        if isinstance(op, ast.Add) and isinstance(a, GroupListV) and a.appended is None and isinstance(b, SymSeqV) \
                and isinstance(b.at(z3.Int('_q')), IntV):
            return [(st, GroupListV(a.groups, a.key, a.old_len, b))]
        return None

    def store_subscript(eng, st, recv, idx, v, node):
        if isinstance(recv, GroupsV) and isinstance(idx, ObjV) and isinstance(v, SymSeqV) and isinstance(v.at(z3.Int('_q')), IntV):
            # plain assignment: the stored list is replaced
            v = GroupListV(recv, idx.t, I(0), v)
        if isinstance(recv, GroupsV) and isinstance(idx, ObjV) and isinstance(v, GroupListV) and v.groups is recv \
                and v.appended is not None and z3.simplify(v.key == idx.t).eq(smt.T):
            cell = st.heap[recv.oid]
            k0, ol, ind = idx.t, v.old_len, v.appended
            d0, l0, a0, w0 = cell['dom'], cell['len'], cell['at'], cell['wit']
            # the appended list as consecutive integers [off, off + len): the ghost witness of each new position
            j = z3.Int('_gj')
            off = z3.simplify(ind.at(I(0)).t)
            consecutive = z3.is_true(z3.simplify(ind.at(j).t - j - off == 0))
            if consecutive:
                wit = lambda i: z3.If(z3.And(i >= off, i < off + ind.length), ol + (i - off), w0(i))     # noqa
            else:
                WU = z3.Function('G_WIT_unknown!%d' % next(smt._counter), smt.Int, smt.Int)
                wit = lambda i: WU(i)      # noqa
            st.heap[recv.oid] = {
                'dom': lambda k: z3.If(k == k0, smt.T, d0(k)),
                'len': lambda k: z3.If(k == k0, ol + ind.length, l0(k)),
                'at': lambda k, t: z3.If(z3.And(k == k0, t >= ol), ind.at(t - ol).t, a0(k, t)),
                'wit': wit}
            return [st]
        return None

    def havoc_value(eng, st, name, v):
        if isinstance(v, GroupsV):
            st.heap[v.oid] = _new_cell(name)
            return v
        return None

    def any_method(eng, st, recv, name, args, kwargs):
        if isinstance(recv, GroupsV) and name == 'items' and not args:
            return [(st, ItemsOfV(recv))]
        return None

    def any_getattr(eng, st, recv, attr):
        if isinstance(recv, GroupsV) and attr == 'items':
            return [(st, BoundV(recv, attr))]
        return None

    def dict_comp(eng, st, node):
        g = node.generators[0]
        if len(node.generators) != 1 or g.ifs:
            return None
        res = []
        for s2, it in eng.eval(g.iter, st):
            if not isinstance(it, ItemsOfV):
                raise Unsupported('dict comprehension over %r' % (it,))
            cell = s2.heap[it.groups.oid]
            kg = smt.fresh('k_generic', smt.Obj)
            s3 = s2.fork(cell['dom'](kg))
            lst = SymSeqV(cell['len'](kg), lambda t: IntV(cell['at'](kg, t)), 'list')
            for s4 in eng.assign(g.target, TupleV([ObjV(kg), lst]), s3):
                for s5, kv in eng.eval(node.key, s4):
                    for s6, vv in eng.eval(node.value, s5):
                        s7 = s6.fork()
                        s7.pc = [c for c in s7.pc if not c.eq(cell['dom'](kg))]     # kg stays generic outside
                        res.append((s7, ResultDictV(cell, kg, kv, vv)))
        return res

    def ds_getitem_other(eng, st, view, item):
        if isinstance(item, SymSeqV) and item.pytype == 'list':
            return [(st, StageV('SliceDataset', [item, DSRefV(view.d)], {}))]
        return None
    return dict(resolve_call=resolve_call, list_hook=list_hook, builtin_hook=builtin_hook, iter_obj_descr=iter_obj_descr,
                subscript_hook=subscript_hook, binop_hook=binop_hook, store_subscript=store_subscript,
                havoc_value=havoc_value, any_method=any_method, any_getattr=any_getattr, dict_comp=dict_comp, ds_getitem_other=ds_getitem_other)


def _G(S):
    f = S.eng.entry_env['group_fn'].t
    d = selfd(S)
    return lambda i: smt.APP_V(f, smt.VAL(d, i))


def _runs(S):
    return getattr(S.eng, '_groupby_runs', None)


def _cell(S):
    g = S.st.env.get('groups')
    return S.st.heap[g.oid] if isinstance(g, GroupsV) else None


def partition_clauses(cell, G, bound, proving, tag):
    """(a)+(b) for the positions below `bound` -- at a generic key/offset/position when proving, quantified when assumed"""
    if proving:
        k = smt.fresh('k_any', smt.Obj)
        t = smt.fresh('t_any', smt.Int)
        i = smt.fresh('i_any', smt.Int)
        q = lambda vs, body, pats=None: body        # noqa
    else:
        k = z3.Const('_gk', smt.Obj)
        t = z3.Int('_gt')
        i = z3.Int('_gi2')
        q = lambda vs, body, pats=None: z3.ForAll(vs, body, patterns=pats) if pats else z3.ForAll(vs, body)    # noqa
    ln, at, dom, wit = cell['len'], cell['at'], cell['dom'], cell['wit']
    a1 = q([k, t], z3.Implies(z3.And(t >= 0, t < ln(k)), z3.And(at(k, t) >= 0, at(k, t) < bound, G(at(k, t)) == k)))
    a2 = q([k, t], z3.Implies(z3.And(t >= 0, t + 1 < ln(k)), at(k, t) < at(k, t + 1)))
    a3 = q([k], z3.And(ln(k) >= 0, dom(k) == (ln(k) > 0)))
    b = q([i], z3.Implies(z3.And(i >= 0, i < bound),
                          z3.And(dom(G(i)), wit(i) >= 0, wit(i) < ln(G(i)), at(G(i), wit(i)) == i)))
    return [(tag + ':listed-indices-are-positions-of-their-group', a1), (tag + ':lists-are-strictly-increasing', a2),
            (tag + ':exactly-the-non-empty-groups-are-keys', a3), (tag + ':every-position-is-listed-in-its-group', b)]


def _inv(S):
    runs, cell = _runs(S), _cell(S)
    if runs is None or cell is None:
        return smt.F
    return z3.And(*[c for _, c in partition_clauses(cell, _G(S), runs.RS(S.k), S.proving, 'inv')])


def _post(S, o):
    d = selfd(S)
    f = S.eng.entry_env['group_fn'].t
    if o.kind == 'raise':
        i = smt.fresh('i_fail', smt.Int)
        own = z3.Or(z3.And(smt.RAISES(d, i), o.exc.t == smt.EXC(d, i)),
                    z3.And(z3.Not(smt.RAISES(d, i)), smt.APP_R(f, smt.VAL(d, i)), o.exc.t == smt.APP_E(f, smt.VAL(d, i))))
        return [('C18:groupby-fails-only-with-the-exception-of-an-example-or-of-group_fn',
                 z3.Exists([i], z3.And(i >= 0, i < smt.N(d), own)))]
    v = o.value
    if not isinstance(v, ResultDictV):
        return [('C18:groupby-returns-a-dict-of-sub-datasets', smt.F)]
    cell, kg = v.cell, v.kg
    out = [('C18:groups' + n[len('post'):], c) for n, c in partition_clauses(cell, _G(S), smt.N(d), True, 'post')]
    val = v.value_val
    ok = isinstance(val, StageV) and val.cls == 'SliceDataset' and len(val.args) == 2 and isinstance(val.args[0], SymSeqV)
    t = smt.fresh('t_any', smt.Int)
    out += [('C18:the-dict-key-is-the-group-id', z3.BoolVal(isinstance(v.key_val, ObjV) and v.key_val.t.eq(kg))),
            ('C18:the-value-of-a-group-is-self[its-index-list]',
             z3.And(val.args[0].length == cell['len'](kg),
                    z3.Implies(z3.And(t >= 0, t < cell['len'](kg)), val.args[0].at(t).t == cell['at'](kg, t)),
                    is_self(S, val.args[1])) if ok else smt.F)]
    return out


class GroupByC(DatasetC):
    methods = {'groupby': [Variant('partition', params={'group_fn': 'fn'}, post=_post, hooks=_hooks(), loops={'0': _inv},
                                   requires=lambda S: AbsView(selfd(S)).iter_ok, props=('C18',))]}


CONTRACTS = [GroupByC()]
