"""C13 (faithful copy): copy(freeze) of every stage returns a new object of the same class
whose every configuration field equals the original's, inputs replaced by their
copy(freeze).  The list of configuration fields and the constructor-parameter each one is
fed from are read mechanically from the assignments in the class's __init__ (through
super().__init__ calls); fields declared derived-state in DERIVED are exempt."""
import ast

import z3

from pyvc import smt, views
from pyvc.smt import I
from pyvc.values import *          # noqa
from pyvc.contract import *        # noqa

DERIVED = {'_keys', '_permutation', '_do_cache'}


def init_field_map(src, mod, cls):
    """{field: param} from `self.field = param` in __init__ (following super().__init__)."""
    q = src.mro_lookup(mod, cls, '__init__')
    if q is None:
        return {}, []
    fn = src.func(q)
    owner = q.split(':')[1].rsplit('.', 1)[0]
    params = [a.arg for a in fn.args.args[1:]]
    fmap = {}
    for node in ast.walk(fn):
        if isinstance(node, ast.Assign) and len(node.targets) == 1:
            t = node.targets[0]
            if isinstance(t, ast.Attribute) and isinstance(t.value, ast.Name) and t.value.id == 'self':
                if isinstance(node.value, ast.Name) and node.value.id in params + ([fn.args.vararg.arg] if fn.args.vararg else []) + ([fn.args.kwarg.arg] if fn.args.kwarg else []):
                    fmap[t.attr] = node.value.id
                else:
                    fmap.setdefault(t.attr, ('expr', node.value))
        if isinstance(node, ast.Call) and isinstance(node.func, ast.Attribute) and node.func.attr == '__init__' \
                and isinstance(node.func.value, ast.Call) and isinstance(node.func.value.func, ast.Name) \
                and node.func.value.func.id == 'super':
            bases = src.class_bases('%s:%s' % (mod, owner))
            bmap, bparams = init_field_map(src, mod, bases[0])
            # base param -> our expression
            binding = {}
            for bp, a in zip(bparams, node.args):
                binding[bp] = a
            for kw in node.keywords:
                binding[kw.arg] = kw.value
            for f, bp in bmap.items():
                if isinstance(bp, str) and bp in binding and isinstance(binding[bp], ast.Name):
                    fmap.setdefault(f, binding[bp].id)
    return fmap, params


def bind_stage(src, mod, stage):
    """Bind a StageV's args to the parameter names of the class's __init__."""
    q = src.mro_lookup(mod, stage.cls, '__init__')
    fn = src.func(q)
    params = [a.arg for a in fn.args.args[1:]]
    bound = {}
    pos = list(stage.args)
    star = [a for a in pos if isinstance(a, tuple) and a[0] == '*']
    if star:
        if fn.args.vararg is None or len(pos) != 1:
            return None
        bound[fn.args.vararg.arg] = star[0][1]
    else:
        for p, a in zip(params, pos):
            bound[p] = a
        if len(pos) > len(params):
            if fn.args.vararg is None:
                return None
            bound[fn.args.vararg.arg] = TupleV(pos[len(params):])
    for k, v in stage.kwargs.items():
        if k == '**':
            bound['**'] = v
        else:
            bound[k] = v
    defaults = dict(zip(params[len(params) - len(fn.args.defaults):], fn.args.defaults))
    return bound, defaults


def is_copy_of(actual, expected, S):
    """z3 Bool / python bool: `actual` is the copy(freeze=<param freeze>) of input `expected`."""
    copies = dict(S.st.ghost.get('copies', ()))
    want = S.eng.entry_env['freeze']

    def copy_term_ok(t, d):
        if not (z3.is_app(t) and t.decl().name() == 'CP' and t.arg(0).eq(d)):
            return smt.F
        c = t.arg(1).as_long()
        if c not in copies:
            return smt.F
        return copies[c] == want.t
    if isinstance(expected, DSRefV):
        if not isinstance(actual, DSRefV):
            return smt.F
        return copy_term_ok(z3.simplify(actual.t), expected.t)
    if isinstance(expected, DSTupleV):
        if isinstance(actual, tuple) and actual[0] == '*':
            actual = actual[1]
        if not isinstance(actual, SymSeqV):
            return smt.F
        j = smt.fresh('cpj', smt.Int)
        el = actual.at(j)
        if not isinstance(el, DSRefV):
            return smt.F
        ok = copy_term_ok(z3.simplify(el.t), smt.IN(I(expected.owner), j))
        return z3.And(actual.length == expected.m, ok)
    return None


def same(actual, expected, S):
    r = is_copy_of(actual, expected, S)
    if r is not None:
        return r
    if actual is expected:
        return smt.T
    e = veq(actual, expected)
    if e is None:
        return smt.F
    return e


def post_copy(S, o):
    eng = S.eng
    if o.kind != 'return':
        return [('copy:returns', smt.F)]
    me = eng.entry_heap[eng.self_oid]
    cls = eng.cls
    v = o.value
    out = []
    if isinstance(v, StageV):
        out.append(('copy:same-class', z3.BoolVal(v.cls == cls)))
        fmap, params = init_field_map(eng.src, eng.mod, cls)
        b = bind_stage(eng.src, eng.mod, v)
        if b is None:
            return out + [('copy:constructor-arguments-bind', smt.F)]
        bound, defaults = b
        for f, expected in me.items():
            if f in DERIVED:
                continue
            p = fmap.get(f)
            if not isinstance(p, str):
                out.append(('copy:field-%s-traceable-to-a-constructor-parameter' % f, smt.F))
                continue
            if p in bound:
                out.append(('copy:field-%s-preserved' % f, same(bound[p], expected, S)))
            elif '**' in bound and isinstance(bound['**'], type(expected)) and False:
                pass
            elif p in defaults:
                # parameter omitted: the copy gets the default, which must equal the field
                eng.sinks.append([])
                r = eng.eval(defaults[p], S.st.fork())
                eng.sinks.pop()
                out.append(('copy:field-%s-preserved(parameter omitted, default used)' % f,
                            same(r[0][1], expected, S)))
            else:
                out.append(('copy:field-%s-preserved' % f, smt.F))
        return out
    if isinstance(v, InstV) and v.oid != eng.self_oid:
        out.append(('copy:same-class', z3.BoolVal(v.cls == cls)))
        new = S.st.heap[v.oid]
        for f, expected in me.items():
            if f in DERIVED:
                continue
            if f not in new:
                out.append(('copy:field-%s-preserved' % f, smt.F))
            else:
                out.append(('copy:field-%s-preserved' % f, same(new[f], expected, S)))
        return out
    return [('copy:returns-a-new-object', smt.F)]


def copy_variants(**kw):
    return [Variant('freeze=any', params={'freeze': 'bool'}, post=post_copy, props=('C13',), **kw)]
