"""C19, the JSON-backed half: JsonDatabase.data / __reduce__ / __init__ and DictDatabase.__init__.
  * data: loaded once -- when `_data` is set it is returned as is and no file is read; otherwise every path is read
    (in the given order), parsed, the parts are merged by _merge_database_dicts in that order, and the result is kept
  * __reduce__: forces the load and returns (JsonDatabase, (paths,), {'_data': <the loaded data>}): the unpickled
    database is rebuilt from the same paths and carries the same description, hence answers identically
  * __init__: a list / tuple of paths or several paths; an empty list is rejected; never reads a file
Assumed (external): pathlib.Path / read_text / json.loads are functions of their argument that may raise."""
import z3

from pyvc import smt
from pyvc.smt import I
from pyvc.values import *          # noqa
from pyvc.engine import DictV
from pyvc.contract import *        # noqa

PATHS = z3.Function('JSON_PATH', smt.Int, smt.Obj)
MKPATH = z3.Function('Path_of', smt.Obj, smt.Obj)
TEXT = z3.Function('read_text_of', smt.Obj, smt.Obj)
PARSED = z3.Function('json_loads_of', smt.Obj, smt.Obj)
P_R = z3.Function('Path_raises', smt.Obj, smt.Bool)
P_E = z3.Function('Path_exc', smt.Obj, smt.Exc)
T_R = z3.Function('read_text_raises', smt.Obj, smt.Bool)
T_E = z3.Function('read_text_exc', smt.Obj, smt.Exc)
J_R = z3.Function('json_loads_raises', smt.Obj, smt.Bool)
J_E = z3.Function('json_loads_exc', smt.Obj, smt.Exc)
ISDICT = z3.Function('is_a_dict', smt.Obj, smt.Bool)


class MergedV(Val):
    kind = 'merged-description'

    def __init__(self, seq):
        self.seq = seq


def _log(st, ev):
    st.ghost['io'] = st.ghost.get('io', ()) + (ev,)


def _paths(eng, st):
    n = smt.fresh('n_paths', smt.Int)
    st.pc.append(n >= 1)
    return SymSeqV(n, lambda e: ObjV(PATHS(e)), 'list')


def _hooks():
    def resolve_call(eng, st, f, args, kwargs, node):
        if isinstance(f, ClassV) and f.name == 'Path' and len(args) == 1 and isinstance(args[0], ObjV):
            p = args[0].t
            res = []
            for s2, side in eng.branch(st, P_R(p)):
                if side:
                    s2.pc.append(smt.CLS(P_E(p)) == eng.hier.const('TypeError'))     # Path(x) of a non-path: TypeError
                    eng.raise_(s2, ExcV(P_E(p), 'TypeError'))
                else:
                    res.append((s2, ObjV(MKPATH(p))))
            return res
        return None

    def builtin_hook(eng, st, name, args, kwargs, node):
        if name == 'json.loads' and len(args) == 1 and isinstance(args[0], ObjV):
            t = args[0].t
            res = []
            for s2, side in eng.branch(st, J_R(t)):
                if side:
                    eng.raise_(s2, ExcV(J_E(t), None))
                else:
                    res.append((s2, ObjV(PARSED(t))))
            return res
        if name == 'repo._merge_database_dicts' and len(args) == 1 and isinstance(args[0], tuple) and args[0][0] == '*':
            _log(st, ('merge', args[0][1]))
            return [(st, MergedV(args[0][1]))]
        return None

    def any_method(eng, st, recv, name, args, kwargs):
        if isinstance(recv, ObjV) and name == 'expanduser' and not args:
            return [(st, recv)]
        if isinstance(recv, ObjV) and name == 'read_text' and not args:
            p = recv.t
            _log(st, ('read', p))
            res = []
            for s2, side in eng.branch(st, T_R(p)):
                if side:
                    eng.raise_(s2, ExcV(T_E(p), None))
                else:
                    res.append((s2, ObjV(TEXT(p))))
            return res
        return None

    def isinstance_hook(eng, st, v, cname):
        if isinstance(v, ObjV) and cname == 'dict':
            return ISDICT(v.t)
        return None
    return dict(builtin_hook=builtin_hook, any_method=any_method, isinstance_hook=isinstance_hook, resolve_call=resolve_call)


class _C(ClassContract):
    mod = 'database'
    cls = 'JsonDatabase'

    def view(self, eng, st):
        return None


def _loaded_fields(self, eng, st):
    return {'_data': OpaqueV('loaded-description'), '_json_path': _paths(eng, st), '_dataset_weak_ref_dict': OpaqueV('weakdict')}


def _unloaded_fields(self, eng, st):
    return {'_data': NONE, '_json_path': _paths(eng, st), '_dataset_weak_ref_dict': OpaqueV('weakdict')}


def _data_loaded_post(S, o):
    me0 = S.eng.entry_heap[S.eng.self_oid]
    me = S.st.heap[S.eng.self_oid]
    return [('C19:a-loaded-description-is-returned-as-is', z3.BoolVal(o.kind == 'return' and o.value is me0['_data'])),
            ('C19:a-loaded-description-is-not-read-again', z3.BoolVal(not S.st.ghost.get('io') and me['_data'] is me0['_data']))]


def _order_clause(S, seq):
    me0 = S.eng.entry_heap[S.eng.self_oid]
    paths = me0['_json_path']
    j = smt.fresh('j', smt.Int)
    el = seq.at(j)
    return z3.And(seq.length == paths.length,
                  z3.Implies(z3.And(j >= 0, j < paths.length),
                             el.t == PARSED(TEXT(MKPATH(paths.at(j).t))) if isinstance(el, ObjV) else smt.F))


def _data_unloaded_post(S, o):
    me = S.st.heap[S.eng.self_oid]
    io = S.st.ghost.get('io', ())
    if o.kind == 'raise':
        # a path that cannot be read / parsed: loud failure, nothing half-loaded is kept
        return [('C19:a-failing-load-keeps-no-half-loaded-description', z3.BoolVal(isinstance(me['_data'], NoneV)))]
    v = o.value
    ok = isinstance(v, MergedV) and isinstance(v.seq, SymSeqV)
    return [('C19:the-description-is-the-merge-of-all-parsed-files-in-path-order', _order_clause(S, v.seq) if ok else smt.F),
            ('C19:the-loaded-description-is-kept-for-later-requests', z3.BoolVal(me['_data'] is v)),
            ('C19:one-merge-per-load', z3.BoolVal(len([e for e in io if e[0] == 'merge']) == 1))]


def _reduce_post(S, o):
    me0 = S.eng.entry_heap[S.eng.self_oid]
    me = S.st.heap[S.eng.self_oid]
    if o.kind == 'raise':
        return [('C19:pickling-fails-only-when-the-load-fails', z3.BoolVal(isinstance(me0['_data'], NoneV)))]
    v = o.value
    ok = isinstance(v, TupleV) and len(v.items) == 3
    if not ok:
        return [('C19:__reduce__-returns-(class,args,state)', smt.F)]
    cls_, args, state = v.items
    a_ok = isinstance(args, TupleV) and len(args.items) == 1 and args.items[0] is me['_json_path']
    s_ok = isinstance(state, DictV) and list(S.st.heap[state.oid].keys()) == ['_data'] and S.st.heap[state.oid]['_data'] is me['_data']
    return [('C19:the-pickled-database-is-rebuilt-from-the-same-paths',
             z3.BoolVal(bool(isinstance(cls_, ClassV) and cls_.name == 'JsonDatabase' and a_ok))),
            ('C19:the-pickled-database-carries-the-loaded-description', z3.BoolVal(bool(s_ok) and not isinstance(me['_data'], NoneV))),
            ('C19:pickling-does-not-change-the-paths', z3.BoolVal(me['_json_path'] is me0['_json_path']))]


class JsonLoadedC(_C):
    fields = _loaded_fields
    methods = {'data': [Variant('loaded', post=_data_loaded_post, hooks=_hooks(), props=('C19',), inline=('data',))],
               '__reduce__': [Variant('loaded', post=_reduce_post, hooks=_hooks(), props=('C19',), inline=('data', '__reduce__'))]}


class JsonUnloadedC(_C):
    fields = _unloaded_fields
    methods = {'data': [Variant('not-loaded', post=_data_unloaded_post, hooks=_hooks(), props=('C19',), inline=('data',))],
               '__reduce__': [Variant('not-loaded', post=_reduce_post, hooks=_hooks(), props=('C19',), inline=('data', '__reduce__'))]}


CONTRACTS = [JsonLoadedC(), JsonUnloadedC()]


# ---------------------------------------------------------------- constructors
def _init_hooks():
    h = _hooks()
    b0 = h['builtin_hook']

    def builtin_hook(eng, st, name, args, kwargs, node):
        if name == 'weakref.WeakValueDictionary':
            o = OpaqueV('WeakValueDictionary')
            st.ghost['memos_created'] = st.ghost.get('memos_created', ()) + (o,)
            return [(st, o)]
        return b0(eng, st, name, args, kwargs, node)
    def binop_hook(eng, st, op, a, b, node):
        import ast
        # [x] + list(rest): a NEW python list of the same objects
        if isinstance(op, ast.Add) and isinstance(a, ListV) and isinstance(b, TupleV) and b.is_list:
            sa = z3.simplify(a.seq)
            if z3.is_app(sa) and sa.decl().kind() == z3.Z3_OP_SEQ_UNIT:
                return [(st, TupleV([ObjV(sa.arg(0))] + list(b.items), is_list=True))]
        return None
    h['builtin_hook'] = builtin_hook
    h['binop_hook'] = binop_hook
    return h


def _objs(n, tag):
    return [ObjV(smt.fresh(tag, smt.Obj)) for _ in range(n)]


def _memo_clause(S):
    me = S.st.heap[S.eng.self_oid]
    made = S.st.ghost.get('memos_created', ())
    return ('C19:each-database-has-its-own-dataset-memo', z3.BoolVal(len(made) == 1 and me.get('_dataset_weak_ref_dict') is made[0]))


def _seq_is(v, expect):
    """v (TupleV list) holds exactly the objects `expect`, in order"""
    return isinstance(v, TupleV) and len(v.items) == len(expect) and \
        all(isinstance(a, ObjV) and isinstance(b, ObjV) and a.t.eq(b.t) for a, b in zip(v.items, expect))


def _dict_init_post(first_kind, n_first, n_extra):
    def post(S, o):
        env = S.eng.entry_env
        first, extra = env['database_dict'], env['database_dicts']
        io = S.st.ghost.get('io', ())
        if first_kind == 'seq':
            expect = list(first.items)
            must_reject = n_extra > 0 or n_first == 0
        else:
            expect = [first] + list(extra.items)
            must_reject = False
        if o.kind == 'raise':
            return [('C19:DictDatabase-rejects-only-an-empty-or-ambiguous-argument-list',
                     z3.And(z3.BoolVal(must_reject), exc_is(o.exc, S.eng.hier, 'AssertionError'))),
                    ('C19:a-rejected-construction-merges-nothing', z3.BoolVal(not io))]
        me = S.st.heap[S.eng.self_oid]
        merges = [e for e in io if e[0] == 'merge']
        return [('C19:an-empty-or-ambiguous-argument-list-is-rejected', z3.BoolVal(not must_reject)),
                ('C19:the-description-is-the-merge-of-the-given-dicts-in-the-given-order',
                 z3.BoolVal(len(merges) == 1 and _seq_is(merges[0][1], expect) and isinstance(me.get('_data'), MergedV)
                            and me['_data'].seq is merges[0][1])),
                _memo_clause(S)]
    return post


def _mk_dict_init():
    out = []
    for first_kind, n_first, n_extra in (('dict', 1, 0), ('dict', 1, 2), ('seq', 2, 0), ('seq', 1, 0), ('seq', 0, 0), ('seq', 2, 1)):
        def first(eng, st, k=first_kind, n=n_first):
            return ObjV(smt.fresh('description', smt.Obj)) if k == 'dict' else TupleV(_objs(n, 'description'), is_list=True)

        def extra(eng, st, n=n_extra):
            return TupleV(_objs(n, 'more'))
        name = '%s%s' % ('one dict' if first_kind == 'dict' else 'a list of %d' % n_first, ' + %d more' % n_extra if n_extra else '')
        hooks = _init_hooks()
        if first_kind == 'dict':
            hooks['isinstance_hook'] = lambda eng, st, v, cname: (False if isinstance(v, ObjV) and cname in ('list', 'tuple') else None)
        out.append(Variant(name, params={'database_dict': first, 'database_dicts': extra}, post=_dict_init_post(first_kind, n_first, n_extra),
                           hooks=hooks, props=('C19',)))
    return out


class DictDatabaseInitC(ClassContract):
    mod = 'database'
    cls = 'DictDatabase'

    def view(self, eng, st):
        return None
    methods = {'__init__': _mk_dict_init()}


def _json_init_post(first_kind, n_first, n_extra):
    def post(S, o):
        env = S.eng.entry_env
        first, extra = env['json_path'], env['json_paths']
        io = S.st.ghost.get('io', ())
        if first_kind == 'seq':
            expect = list(first.items)
            must_reject = n_extra > 0 or n_first == 0
        else:
            expect = [first] + list(extra.items)
            must_reject = False
        if o.kind == 'raise':
            return [('C19:JsonDatabase-rejects-only-an-empty-or-ambiguous-path-list',
                     z3.And(z3.BoolVal(must_reject), exc_is(o.exc, S.eng.hier, 'AssertionError'))),
                    ('C19:construction-reads-no-file', z3.BoolVal(not io))]
        me = S.st.heap[S.eng.self_oid]
        jp = me.get('_json_path')
        return [('C19:an-empty-or-ambiguous-path-list-is-rejected', z3.BoolVal(not must_reject)),
                ('C19:the-paths-are-kept-in-the-given-order-in-a-new-list',
                 z3.BoolVal(_seq_is(jp, expect) and jp.is_list and jp is not first)),
                ('C19:construction-reads-no-file-and-loads-nothing', z3.BoolVal(not io and '_data' not in me)),
                _memo_clause(S)]
    return post


def _mk_json_init():
    out = []
    for first_kind, n_first, n_extra in (('path', 1, 0), ('path', 1, 2), ('seq', 2, 0), ('seq', 0, 0), ('seq', 2, 1)):
        def first(eng, st, k=first_kind, n=n_first):
            return ObjV(smt.fresh('path', smt.Obj)) if k == 'path' else TupleV(_objs(n, 'path'), is_list=True)

        def extra(eng, st, n=n_extra):
            return TupleV(_objs(n, 'more'))
        name = '%s%s' % ('one path' if first_kind == 'path' else 'a list of %d' % n_first, ' + %d more' % n_extra if n_extra else '')
        hooks = _init_hooks()
        if first_kind == 'path':
            hooks['isinstance_hook'] = lambda eng, st, v, cname: (False if isinstance(v, ObjV) and cname in ('list', 'tuple') else None)
        out.append(Variant(name, params={'json_path': first, 'json_paths': extra}, post=_json_init_post(first_kind, n_first, n_extra),
                           hooks=hooks, props=('C19',)))
    return out


class JsonDatabaseInitC(ClassContract):
    mod = 'database'
    cls = 'JsonDatabase'

    def view(self, eng, st):
        return None
    methods = {'__init__': _mk_json_init()}


CONTRACTS = CONTRACTS + [DictDatabaseInitC(), JsonDatabaseInitC()]
