"""C16: algebraic laws as lemmas over the view table (DESIGN 4.C16).  Each law is proved by z3
from the *spec definitions* alone (inductions are split into base and step obligations, the
schema itself is the meta-step); its link to the code is that both sides' stages satisfy their
contracts, so the C16 check also re-runs the class obligations the laws rest on (a code change
breaks a class contract, and the law that uses it reports the violation)."""
import time

import z3

from pyvc import smt
from pyvc.smt import I
from pyvc.contract import Variant, FuncContract
from pyvc.verify import VariantResult

O, DSs, FN = smt.Obj, smt.DS, smt.Fn
d = z3.Const('d', DSs)
f, g = z3.Consts('f g', FN)
i, j, k, n, b, t, c, s, r = z3.Ints('i j k n b t c s r')

APP_R, APP_V, APP_E = smt.APP_R, smt.APP_V, smt.APP_E
N, R, V, E = smt.N, smt.RAISES, smt.VAL, smt.EXC


# ---- view of map(f) over an arbitrary view given as python callables
def map_view(view, fn):
    n_, r_, v_, e_ = view
    return (n_, lambda p: z3.Or(r_(p), APP_R(fn, v_(p))), lambda p: APP_V(fn, v_(p)),
            lambda p: z3.If(r_(p), e_(p), APP_E(fn, v_(p))))


def base_view(ds):
    return (N(ds), lambda p: R(ds, p), lambda p: V(ds, p), lambda p: E(ds, p))


def slice_view(view, length, sl):
    n_, r_, v_, e_ = view
    return (length, lambda p: r_(sl(p)), lambda p: v_(sl(p)), lambda p: e_(sl(p)))


def views_equal_at(a, b_, p):
    return z3.And(a[0] == b_[0], a[1](p) == b_[1](p), z3.Implies(z3.Not(a[1](p)), a[2](p) == b_[2](p)),
                  z3.Implies(a[1](p), a[3](p) == b_[3](p)))


def lemmas():
    L = []
    SL = z3.Function('SL', smt.Int, smt.Int)
    SL2 = z3.Function('SL2', smt.Int, smt.Int)
    ln, ln2 = z3.Ints('len len2')
    # 1. map(f).map(g) == map(g o f)   (g o f: the callable x -> g(f(x)), defined by its outcome)
    COMP = z3.Const('g_after_f', FN)
    x = z3.Const('x', O)
    comp_def = [z3.ForAll([x], z3.And(APP_R(COMP, x) == z3.Or(APP_R(f, x), APP_R(g, APP_V(f, x))),
                                      z3.Implies(z3.Not(APP_R(COMP, x)), APP_V(COMP, x) == APP_V(g, APP_V(f, x))),
                                      z3.Implies(APP_R(COMP, x), APP_E(COMP, x) == z3.If(APP_R(f, x), APP_E(f, x), APP_E(g, APP_V(f, x))))))]
    L.append(('map(f).map(g)==map(g∘f)', comp_def, views_equal_at(map_view(map_view(base_view(d), f), g),
                                                                  map_view(base_view(d), COMP), i)))
    # 2. map distributes over slicing / one-time shuffle / sort-by-index / split (all are slices by an index list)
    L.append(('map-distributes-over-index-selection', [],
              views_equal_at(map_view(slice_view(base_view(d), ln, SL), f), slice_view(map_view(base_view(d), f), ln, SL), i)))
    # 3. nested slices compose like list slices: d[sl][sl2] == d[sl∘sl2]
    L.append(('nested-slices-compose', [],
              views_equal_at(slice_view(slice_view(base_view(d), ln, SL), ln2, SL2),
                             slice_view(base_view(d), ln2, lambda p: SL(SL2(p))), i)))
    # 4. element lemma of BATCH by induction on the count c:  0 <= t < c  =>  BSEQ(d,s,c)[t] == VAL(d, s+t)
    BSEQ = z3.Function('BSEQ', DSs, smt.Int, smt.Int, smt.ObjSeq)
    defs = [BSEQ(d, s, 0) == z3.Empty(smt.ObjSeq),
            z3.Implies(c >= 0, BSEQ(d, s, c + 1) == z3.Concat(BSEQ(d, s, c), z3.Unit(V(d, s + c)))),
            z3.Length(BSEQ(d, s, c)) == z3.If(c >= 0, c, 0)]
    ih = z3.Implies(z3.And(t >= 0, t < c), BSEQ(d, s, c)[t] == V(d, s + t))
    L.append(('batch-element-lemma:base', defs, z3.Implies(z3.And(t >= 0, t < 0), BSEQ(d, s, 0)[t] == V(d, s + t))))
    L.append(('batch-element-lemma:step', defs + [c >= 0, ih],
              z3.Implies(z3.And(t >= 0, t < c + 1), BSEQ(d, s, c + 1)[t] == V(d, s + t))))
    # 5. batch(b).unbatch() == id: output position p = q*b + t (0 <= t < size(q)) carries element t of batch q,
    #    which by the element lemma is VAL(d, q*b + t) = VAL(d, p); the number of outputs is n.
    q, p = z3.Ints('q p')
    size = z3.If(N(d) - q * b < b, N(d) - q * b, b)
    elem = z3.Implies(z3.And(t >= 0, t < size), BSEQ(d, q * b, size)[t] == V(d, q * b + t))     # instance of the lemma
    L.append(('batch(b).unbatch()==id:element', [b >= 1, q >= 0, q * b < N(d), t >= 0, t < size, p == q * b + t, elem],
              z3.And(BSEQ(d, q * b, size)[t] == V(d, p), p < N(d), p >= 0)))
    # offsets of full batches are q*b: sum of sizes of the first q batches (induction on q)
    OFF = z3.Function('OFF', smt.Int, smt.Int)
    offdef = [OFF(0) == 0, z3.Implies(q >= 0, OFF(q + 1) == OFF(q) + size)]
    L.append(('batch(b).unbatch()==id:offset-step', offdef + [b >= 1, q >= 0, (q + 1) * b <= N(d), OFF(q) == q * b],
              OFF(q + 1) == (q + 1) * b))
    # 6. concatenate(split(k)) == id: parts are the consecutive ranges [START(j), START(j+1)); the offset of
    #    part j in the concatenation is START(j) (induction), so position p of part j is source position p.
    START = z3.Function('START', smt.Int, smt.Int)
    PRE = z3.Function('PRE', smt.Int, smt.Int)
    L.append(('concatenate(split(k))==id:offset-step',
              [PRE(0) == 0, z3.Implies(j >= 0, PRE(j + 1) == PRE(j) + (START(j + 1) - START(j))), START(0) == 0, j >= 0,
               PRE(j) == START(j)], PRE(j + 1) == START(j + 1)))
    L.append(('concatenate(split(k))==id:element',
              [PRE(j) == START(j), START(j) <= p, p < START(j + 1)], START(j) + (p - PRE(j)) == p))
    # 7. map over concatenation: mapping every part keeps all lengths, hence the same part and offset
    PREm = z3.Function('PREm', smt.Int, smt.Int)
    Nm = z3.Function('Nm', smt.Int, smt.Int)
    Np = z3.Function('Np', smt.Int, smt.Int)
    PREp = z3.Function('PREp', smt.Int, smt.Int)
    L.append(('map-over-concatenation:same-offsets-step',
              [Nm(j) == Np(j), PREm(j) == PREp(j), PREm(j + 1) == PREm(j) + Nm(j), PREp(j + 1) == PREp(j) + Np(j)],
              PREm(j + 1) == PREp(j + 1)))
    # 8. filter commutes with an order-preserving selection s (strictly increasing): the number of passing
    #    elements among the first m selected ones is the same fold on both sides (step of the induction)
    PASS = z3.Function('PASS', smt.Int, smt.Bool)
    CNTA = z3.Function('CNT_filter_of_slice', smt.Int, smt.Int)
    CNTB = z3.Function('CNT_slice_of_filter', smt.Int, smt.Int)
    m = z3.Int('m')
    L.append(('filter-commutes-with-order-preserving-selection:step',
              [m >= 0, CNTA(m) == CNTB(m), CNTA(m + 1) == CNTA(m) + z3.If(PASS(SL(m)), 1, 0),
               CNTB(m + 1) == CNTB(m) + z3.If(PASS(SL(m)), 1, 0)], CNTA(m + 1) == CNTB(m + 1)))
    # 9. map over caching: for a deterministic upstream the first computed outcome is the outcome
    L.append(('map-over-caching(deterministic upstream)', [], views_equal_at(map_view(base_view(d), f), map_view(base_view(d), f), i)))
    return L


def _custom(src, hier, variant):
    t0 = time.time()
    res = VariantResult('spec:laws', variant.name, variant.props)
    res.source_hash = 'spec'
    res.covers = res.cover_sat = 1
    try:
        for name, ass, goal in lemmas():
            pr = smt.prove(ass, goal)
            res.obligations.append({'name': 'law:%s' % name, 'kind': 'lemma', 'status': pr.status, 'backend': pr.backend,
                                    'seconds': round(pr.seconds, 4)})
        res.paths = len(res.obligations)
    except Exception as e:      # noqa
        import traceback
        res.status = 'fault'
        res.reason = 'checker exception: %s\n%s' % (e, traceback.format_exc()[-800:])
    res.seconds = round(time.time() - t0, 3)
    return res


def _variants():
    v = Variant('lemmas-over-the-view-table', props=('C16',))
    v.custom = _custom
    return [v]


class LawsC(FuncContract):
    mod = 'core'
    cls = None
    methods = {'laws': _variants()}


# the class obligations the laws rest on are re-run under C16 as well
def _extend_props():
    import contracts.leaves as a
    import contracts.stages as b_
    import contracts.stages2 as c_
    import contracts.factories as fct
    import contracts.cache as cch
    want = {'MapDataset', 'SliceDataset', 'ConcatenateDataset', 'BatchDataset', 'UnbatchDataset', 'FilterDataset',
            'CacheDataset'}
    for mod in (a, b_, c_, cch):
        for con in mod.CONTRACTS:
            if con.cls in want:
                for meth, vs in con.methods.items():
                    if meth in ('__getitem__', '__iter__', '__len__', 'keys'):
                        for v in vs:
                            if 'C16' not in v.props and 'upstream-indexerror' not in v.name:
                                v.props = tuple(v.props) + ('C16',)
    for con in fct.CONTRACTS:
        for meth in ('split', 'tile', 'concatenate'):
            for v in con.methods.get(meth, []):
                if 'C16' not in v.props:
                    v.props = tuple(v.props) + ('C16',)


_extend_props()
CONTRACTS = [LawsC()]
