"""Contracts: batch, unbatch, lazy filter, catch, cycle (spec views DESIGN section 3)."""
import z3

from pyvc import smt, views
from pyvc.smt import I
from pyvc.values import *          # noqa
from pyvc.values import eqv, veq   # noqa
from pyvc.contract import *        # noqa
from pyvc.views import View, AbsView, AX
from contracts import spec
from contracts.leaves import self_view, _std_getitem_variants, _iter_variants
from contracts.stages import flag_variants


def F(S):
    return S.st.heap[S.eng.self_oid]


# ------------------------------------------------------------------ BatchDataset
class BatchView(View):
    """N = ceil(n/b) (floor with drop_last), stated as the unique q with
    (q-1)b < n <= qb, resp. qb <= n < (q+1)b;  OUT(i) = BATCH(in, i*b, min(b, n - i*b));
    the first raising element of the range determines the exception.  IDX forwarded; LEN."""

    def __init__(self, inp, b, drop):
        self.inp = inp
        self.b = b
        self.drop = drop
        self.idx = inp.idx
        self.len_ = inp.len_
        self.ord_ = inp.ord_
        self.name = 'batch(%s)' % inp.name
        self.rr = spec.range_raiser(inp.d, 'batch')
        self.NB = spec.memo(('NB', str(inp.d)), lambda: smt.fresh('NB', smt.Int))
        n = inp.n()
        AX.add(self.NB >= 0)
        AX.add(z3.If(drop, z3.And(self.NB * b <= n, n < (self.NB + 1) * b),
                     z3.And((self.NB - 1) * b < n, n <= self.NB * b)))

    def n(self):
        return self.NB

    def size(self, i):
        r = self.inp.n() - i * self.b
        return z3.If(r < self.b, r, self.b)

    def raises(self, i):
        return self.rr.any(i * self.b, self.size(i))

    def val(self, i):
        return ListV(spec.bseq(self.inp.d, i * self.b, self.size(i)))

    def exc(self, i):
        return smt.EXC(self.inp.d, self.rr.first(i * self.b, self.size(i)))


def _no_upstream_indexerror(S):
    """Case split of BatchDataset.__getitem__: the examples of the input do not raise an
    IndexError (the exception the method itself uses as its end-of-data signal)."""
    d = F(S)['input_dataset'].t
    i = z3.Int('_bi')
    return z3.ForAll([i], z3.Not(z3.And(smt.RAISES(d, i),
                                        smt.SUB(smt.CLS(smt.EXC(d, i)), S.eng.hier.const('IndexError')))),
                     patterns=[smt.EXC(d, i)])


def _batch_getitem_inv(S):
    v = self_view(S)
    d = v.inp.d
    it = S.old.item
    itn = z3.If(it < 0, it + v.n(), it)
    s = itn * v.b
    k = S.k
    avail = v.inp.n() - s
    c = z3.If(avail < 0, 0, z3.If(k < avail, k, avail))
    t = z3.Int('_bt')
    return z3.And(S.v.item == itn, itn >= 0, S.v.input_index == s,
                  S.v.current_batch == spec.bseq(d, s, c),
                  z3.Implies(z3.Or(avail <= 0, z3.And(S.f.drop_last, avail < k)), k == 0),
                  z3.ForAll([t], z3.Implies(z3.And(t >= s, t < s + c), z3.Not(smt.RAISES(d, t))),
                            patterns=[smt.RAISES(d, t)]))


def _batch_iter_inv(S):
    v = self_view(S)
    d = v.inp.d
    cur = S.v.current_batch
    ln = z3.Length(cur)
    t = z3.Int('_bt')
    return z3.And(S.k == S.out_n * v.b + ln, ln < v.b, S.out_n >= 0,
                  cur == spec.bseq(d, S.out_n * v.b, ln),
                  z3.ForAll([t], z3.Implies(z3.And(t >= S.out_n * v.b, t < S.k), z3.Not(smt.RAISES(d, t))),
                            patterns=[smt.RAISES(d, t)]))


def _batch_iter_post(S, o):
    """I-iter for batch; the input is consumed completely, so an exception of an example in
    the dropped tail (drop_last) still surfaces, after the NB complete batches."""
    v = self_view(S)
    if o.kind in ('normal', 'return'):
        return [('I-iter:end-count', S.out_n == v.n())]
    if o.kind == 'raise':
        return [('I-iter:exception-position',
                 z3.And(S.out_n * v.b < v.inp.n(), v.raises(S.out_n), o.exc.t == v.exc(S.out_n)))]
    return [('I-iter:outcome', smt.F)]


def _batch_getitem_post(S, o):
    """I-idx for batch, strictly: an index outside [-len, len) is an IndexError and evaluates nothing (for drop_last the
    examples of the incomplete tail are not loaded: repo fix F29; the earlier refinement that let an exception of such an
    example surface instead of the IndexError is gone)."""
    return post_getitem_int(self_view)(S, o)


def _batch_iter_variants():
    vs = _iter_variants(loops={'0': _batch_iter_inv})
    vs[0].post = _batch_iter_post
    return vs


class BatchDatasetC(ClassContract):
    cls = 'BatchDataset'

    def fields(self, eng, st):
        b = smt.fresh('batch_size', smt.Int)
        st.pc.append(b >= 1)      # precondition of the stage: a positive batch size
        return {'input_dataset': DSRefV(smt.fresh('d_in', smt.DS)), 'batch_size': IntV(b),
                'drop_last': BoolV(smt.fresh('drop_last', smt.Bool))}

    def view(self, eng, st):
        f = st.heap[eng.self_oid]
        return BatchView(AbsView(f['input_dataset'].t), f['batch_size'].t, f['drop_last'].t)

    _gi = _std_getitem_variants(with_key=False, loops={'0': _batch_getitem_inv})
    for _v in _gi[:3]:      # 'int', 'int:np.int8', 'int:np.uint8'
        assert _v.name.startswith('int')
        _v.requires = lambda S: z3.And(self_view(S).idx, _no_upstream_indexerror(S))
        _v.post = _batch_getitem_post
    _gi.append(Variant('int-upstream-indexerror', params={'item': 'int'},
                       requires=lambda S: z3.And(self_view(S).idx, z3.Not(_no_upstream_indexerror(S))),
                       post=_batch_getitem_post, props=('C02',), loops={'0': _batch_getitem_inv}))

    methods = dict(
        __len__=[Variant('len', post=post_len(self_view), props=('C02',))],
        __getitem__=_gi,
        __iter__=_batch_iter_variants(),
        **flag_variants())


# ---------------------------------------------------------------- UnbatchDataset
BLEN = z3.Function('BLEN', smt.Obj, smt.Int)            # length of a batch value
BELEM = z3.Function('BELEM', smt.Obj, smt.Int, smt.Obj)  # its elements
WL = z3.Function('WHITELISTED', smt.Obj, smt.Bool)       # isinstance(batch, (list, tuple, Generator, zip, range))


def _sum_b(d):
    j = z3.Int('_uj')
    AX.add(z3.ForAll([j], BLEN(smt.VAL(d, j)) >= 0, patterns=[BLEN(smt.VAL(d, j))]))
    return smt.FOLDS.sum(j, BLEN(smt.VAL(d, j)))


def _unbatch_hooks():
    def isinstance_hook(eng, st, v, cname):
        if isinstance(v, ObjV) and cname in ('list', 'tuple', 'collections.abc.Generator', 'zip', 'range'):
            # the whitelist is one predicate: the five classes are only used together
            return WL(v.t) if cname == 'list' else False
        return None

    def iter_obj_descr(eng, st, v):
        # iterating a whitelisted batch value: BLEN elements BELEM(v, t) (pure: A-PURE-BATCH)
        from pyvc.views import Out
        AX.add(BLEN(v.t) >= 0)
        return BLEN(v.t), (lambda k: [Out(smt.T, value=ObjV(BELEM(v.t, k)))])
    return {'isinstance_hook': isinstance_hook, 'iter_obj_descr': iter_obj_descr}


def _unbatch_clauses():
    """Relational spec of unbatch: the yielded sequence is the flattening of the batches:
    at a yield inside batch j at offset t:  out_n == SUMB(j) + t, value == BELEM(V(in,j), t);
    at the end out_n == SUMB(n); an exception of the input at batch j arrives after
    SUMB(j) examples; a batch outside the whitelist raises AssertionError at that point."""
    def on_yield(S, value):
        d = F(S)['input_dataset'].t
        SB = _sum_b(d)
        j, t = S.ks['0'], S.ks['0.0']
        return [('unbatch:yield-position', S.out_n == SB(j) + t),
                ('unbatch:yield-inside-batch', z3.And(t >= 0, t < BLEN(smt.VAL(d, j)), j < smt.N(d))),
                ('unbatch:yield-value', eqv(value, ObjV(BELEM(smt.VAL(d, j), t))))]

    def post(S, o):
        d = F(S)['input_dataset'].t
        SB = _sum_b(d)
        if o.kind in ('normal', 'return'):
            return [('unbatch:end-count', S.out_n == SB(smt.N(d)))]
        if o.kind == 'raise':
            j = S.ks['0']
            return [('unbatch:exception-position',
                     z3.And(S.out_n == SB(j), j < smt.N(d),
                            z3.Or(z3.And(smt.RAISES(d, j), o.exc.t == smt.EXC(d, j)),
                                  z3.And(z3.Not(smt.RAISES(d, j)), z3.Not(WL(smt.VAL(d, j))),
                                         exc_is(o.exc, S.eng.hier, 'AssertionError')))))]
        return [('unbatch:outcome', smt.F)]
    return on_yield, post


class UnbatchDatasetC(ClassContract):
    cls = 'UnbatchDataset'

    def fields(self, eng, st):
        return {'input_dataset': DSRefV(smt.fresh('d_in', smt.DS))}

    def view(self, eng, st):
        return None

    _oy, _po = _unbatch_clauses()
    _oyr, _por = items_refused_clauses(lambda S: None)
    methods = dict(
        __iter__=[
            Variant('values', params={'with_key': 'false'}, generator=True, on_yield=_oy, post=_po, props=('C01',),
                    hooks=_unbatch_hooks(),
                    loops={'0': lambda S: S.out_n == _sum_b(F(S)['input_dataset'].t)(S.k),
                           '0.0': lambda S: S.out_n == _sum_b(F(S)['input_dataset'].t)(S.ks['0']) + S.k}),
            Variant('items-refused', params={'with_key': 'true'}, generator=True,
                    on_yield=lambda S, v: [('I-items:no-yield', smt.F)],
                    post=lambda S, o: [('I-items:refused-loudly', z3.BoolVal(o.kind == 'raise'))], props=('C03',)),
        ],
        indexable=[Variant('flag', post=post_bool_property(lambda S: smt.F), props=('C02',), inline=('indexable',))],
        ordered=[Variant('flag', post=post_bool_property(lambda S: smt.ORD(F(S)['input_dataset'].t)), props=('C13',),
                         inline=('ordered',))],
    )


# ----------------------------------------------------------------- FilterDataset
def _passes(f, d, j):
    x = smt.VAL(d, j)
    return z3.And(z3.Not(smt.APP_R(f, x)), smt.TRUTH(smt.APP_V(f, x)))


def _cnt_pass(f, d):
    j = z3.Int('_fj2')
    return smt.FOLDS.sum(j, z3.If(_passes(f, d, j), I(1), I(0)))


def _filter_clauses(with_key):
    """filter(p) lazy: N = CNT_p(n), OUT(i) = xs[SEL_p(i)]; stated pointwise: the value
    yielded at input position j is xs[j], p(xs[j]) holds and it is output number CNT_p(j)."""
    def on_yield(S, value):
        fl = F(S)
        d, f = fl['input_dataset'].t, fl['filter_function'].t
        j = S.ks['0' if with_key else '1']
        exp = TupleV([KeyV(AbsView(d).key(j)), ObjV(smt.VAL(d, j))]) if with_key else ObjV(smt.VAL(d, j))
        return [('filter:yield-is-passing-input-example', z3.And(j < smt.N(d), _passes(f, d, j), eqv(value, exp))),
                ('filter:yield-position', S.out_n == _cnt_pass(f, d)(j))]

    def post(S, o):
        fl = F(S)
        d, f = fl['input_dataset'].t, fl['filter_function'].t
        C = _cnt_pass(f, d)
        if o.kind in ('normal', 'return'):
            return [('filter:end-count', S.out_n == C(smt.N(d)))]
        if o.kind == 'raise':
            j = S.ks['0' if with_key else '1']
            x = smt.VAL(d, j)
            return [('filter:exception-position',
                     z3.And(S.out_n == C(j), j < smt.N(d),
                            z3.Or(z3.And(smt.RAISES(d, j), o.exc.t == smt.EXC(d, j)),
                                  z3.And(z3.Not(smt.RAISES(d, j)), smt.APP_R(f, x), o.exc.t == smt.APP_E(f, x)))))]
        return [('filter:outcome', smt.F)]
    return on_yield, post


def _filter_inv(with_key):
    def inv(S):
        fl = F(S)
        return S.out_n == _cnt_pass(fl['filter_function'].t, fl['input_dataset'].t)(S.k)
    return inv


def _filter_getitem_post(S, o):
    """ds[key] on a lazily filtered dataset: the input's example if the key is present and
    the example passes; an exception of the input / the predicate; otherwise a LookupError."""
    fl = F(S)
    d, f = fl['input_dataset'].t, fl['filter_function'].t
    k = S.old.item
    p = AbsView(d).kpos(k)
    x = smt.VAL(d, p)
    if o.kind == 'return':
        return [('filter-key:value', z3.And(p >= 0, z3.Not(smt.RAISES(d, p)), _passes(f, d, p),
                                            eqv(o.value, ObjV(x))))]
    if o.kind == 'raise':
        return [('filter-key:exception',
                 z3.Or(z3.And(p >= 0, smt.RAISES(d, p), o.exc.t == smt.EXC(d, p)),
                       z3.And(p >= 0, z3.Not(smt.RAISES(d, p)), smt.APP_R(f, x), o.exc.t == smt.APP_E(f, x)),
                       z3.And(z3.Or(p < 0, z3.Not(_passes(f, d, p))), exc_is(o.exc, S.eng.hier, 'LookupError'))))]
    return [('filter-key:outcome', smt.F)]


class FilterDatasetC(ClassContract):
    cls = 'FilterDataset'

    def fields(self, eng, st):
        return {'filter_function': FnV(smt.fresh('filter_fn', smt.Fn)),
                'input_dataset': DSRefV(smt.fresh('d_in', smt.DS))}

    def view(self, eng, st):
        return None

    _oy, _po = _filter_clauses(False)
    _oyk, _pok = _filter_clauses(True)
    methods = dict(
        __iter__=[
            Variant('values', params={'with_key': 'false'}, generator=True, on_yield=_oy, post=_po,
                    loops={'1': _filter_inv(False)}, props=('C01', 'C14')),
            Variant('items', params={'with_key': 'true'}, generator=True, on_yield=_oyk, post=_pok,
                    requires=lambda S: smt.ITEMS(F(S)['input_dataset'].t),
                    loops={'0': _filter_inv(True)}, props=('C03', 'C14')),
            Variant('items-refused', params={'with_key': 'true'}, generator=True, on_yield=_oyk,
                    post=lambda S, o: [('I-items:refused-loudly', z3.BoolVal(o.kind == 'raise'))],
                    requires=lambda S: z3.Not(smt.ITEMS(F(S)['input_dataset'].t)),
                    loops={'0': _filter_inv(True)}, props=('C03',)),
        ],
        __getitem__=[Variant('str', params={'item': 'key'}, requires=lambda S: smt.KEYS(F(S)['input_dataset'].t),
                             post=_filter_getitem_post, props=('C03', 'C14'))],
        indexable=[Variant('flag', post=post_bool_property(lambda S: smt.F), props=('C02',), inline=('indexable',))],
        ordered=[Variant('flag', post=post_bool_property(lambda S: smt.ORD(F(S)['input_dataset'].t)), props=('C13',),
                         inline=('ordered',))],
    )


# --------------------------------------------------------- CatchExceptionDataset
def _dropped(E, d, j):
    return z3.And(smt.RAISES(d, j), smt.CATCH(E, smt.EXC(d, j)))


def _cnt_kept(E, d):
    j = z3.Int('_cj2')
    return smt.FOLDS.sum(j, z3.If(_dropped(E, d, j), I(0), I(1)))


def _frozen(S):
    """The dataset the loop reads: the frozen copy (same view as the input, I-copy)."""
    return S.v.input_dataset


def _catch_clauses(with_key):
    """catch(E): yields, in order, exactly the examples whose evaluation does not raise an
    exception matched by E; any other exception propagates at the position of its example
    (after the survivors that precede it)."""
    ordl = '0' if with_key else '1'

    def on_yield(S, value):
        E = F(S)['exceptions'].t
        d = _frozen(S)
        j = S.ks[ordl]
        exp = TupleV([KeyV(AbsView(d).key(j)), ObjV(smt.VAL(d, j))]) if with_key else ObjV(smt.VAL(d, j))
        return [('catch:yield-is-surviving-example', z3.And(j < smt.N(d), z3.Not(smt.RAISES(d, j)), eqv(value, exp))),
                ('catch:yield-position', S.out_n == _cnt_kept(E, d)(j))]

    def post(S, o):
        E = F(S)['exceptions'].t
        if 'input_dataset' not in S.st.env:
            # failed before the loop (copy / len / keys of the input)
            return [('catch:early-failure-only-when-not-indexable', z3.BoolVal(o.kind == 'raise'))]
        d = _frozen(S)
        C = _cnt_kept(E, d)
        if o.kind in ('normal', 'return'):
            return [('catch:end-count', S.out_n == C(smt.N(d)))]
        if o.kind == 'raise':
            if ordl not in S.ks:
                return [('catch:early-failure', smt.F)]
            j = S.ks[ordl]
            return [('catch:other-exception-propagates-at-its-position',
                     z3.And(S.out_n == C(j), j < smt.N(d), smt.RAISES(d, j), z3.Not(smt.CATCH(E, smt.EXC(d, j))),
                            o.exc.t == smt.EXC(d, j)))]
        return [('catch:outcome', smt.F)]
    return on_yield, post


def _catch_inv(with_key):
    def inv(S):
        return S.out_n == _cnt_kept(F(S)['exceptions'].t, _frozen(S))(S.k)
    return inv


def _catch_hooks():
    def getattr_hook(eng, st, recv, attr, node):
        if isinstance(recv, ExcSpecV) and attr == '__name__':
            return [(st, OpaqueStrV())]
        return None

    def isinstance_hook(eng, st, v, cname):
        if isinstance(v, ExcSpecV) and cname in ('list', 'tuple'):
            return z3.Function('SPEC_IS_SEQ', smt.Obj, smt.Bool)(v.t)
        return None
    return {'getattr_hook': getattr_hook, 'isinstance_hook': isinstance_hook}


class CatchExceptionDatasetC(ClassContract):
    cls = 'CatchExceptionDataset'

    def fields(self, eng, st):
        return {'input_dataset': DSRefV(smt.fresh('d_in', smt.DS)),
                'exceptions': ExcSpecV(smt.fresh('exceptions', smt.Obj)),
                'warn': BoolV(smt.fresh('warn', smt.Bool))}

    def view(self, eng, st):
        return None

    _oy, _po = _catch_clauses(False)
    _oyk, _pok = _catch_clauses(True)
    methods = dict(
        __iter__=[
            Variant('values', params={'with_key': 'false'}, generator=True, on_yield=_oy, post=_po,
                    requires=lambda S: smt.IDX(F(S)['input_dataset'].t),
                    loops={'1': _catch_inv(False)}, props=('C01', 'C14'), hooks=_catch_hooks()),
            Variant('items', params={'with_key': 'true'}, generator=True, on_yield=_oyk, post=_pok,
                    requires=lambda S: z3.And(smt.IDX(F(S)['input_dataset'].t), smt.KEYS(F(S)['input_dataset'].t)),
                    loops={'0': _catch_inv(True)}, props=('C03', 'C14'), hooks=_catch_hooks()),
        ],
        indexable=[Variant('flag', post=post_bool_property(lambda S: smt.F), props=('C02',), inline=('indexable',))],
        ordered=[Variant('flag', post=post_bool_property(lambda S: smt.ORD(F(S)['input_dataset'].t)), props=('C13',),
                         inline=('ordered',))],
    )


def _catch_refusal():
    # key iteration over an input without keys: refused with the library's own signal (so that from_dataset / new(ds) fall
    # back to a key-less snapshot); case split as for slice / cache / prefetch (keys exist but are refused: F28)
    from contracts.stages import _split_refusal
    oyr, por = items_refused_clauses(lambda S: None)
    v = Variant('items-refused', params={'with_key': 'true'}, generator=True, on_yield=lambda S, value: [('I-items:nothing-is-yielded-before-the-refusal', smt.F)],
                post=por, requires=lambda S: z3.And(smt.IDX(F(S)['input_dataset'].t), z3.Not(smt.KEYS(F(S)['input_dataset'].t))),
                loops={'0': _catch_inv(True)}, props=('C03', 'C01', 'C10'), hooks=_catch_hooks())
    return _split_refusal([v], lambda S: F(S)['input_dataset'].t)


CatchExceptionDatasetC.methods['__iter__'] = CatchExceptionDatasetC.methods['__iter__'] + _catch_refusal()


CONTRACTS = [BatchDatasetC(), UnbatchDatasetC(), FilterDatasetC(), CatchExceptionDatasetC()]

from contracts.copying import copy_variants  # noqa
for _c in CONTRACTS:
    if 'copy' not in _c.methods:
        _c.methods = dict(_c.methods, copy=copy_variants())  # add_copy
