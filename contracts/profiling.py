"""C20: ProfilingDataset is transparent (same examples, order, length, errors) and counts
truthfully: hit_count == [fetches, failed fetches]."""
import z3

from pyvc import smt, views
from pyvc.smt import I
from pyvc.values import *          # noqa
from pyvc.engine import CellListV, IterV
from pyvc.contract import *        # noqa
from pyvc.views import View, AbsView, AX
from contracts.leaves import self_view
from contracts.stages2 import F
from contracts.copying import copy_variants


def _cell(eng, st, vals):
    oid = eng.new_oid()
    st.heap[oid] = {'items': list(vals)}
    return CellListV(oid)


def hits(S, which='now'):
    st = S.st
    cell = F(S)['hit_count']
    items = st.heap[cell.oid]['items'] if which == 'now' else S.eng.entry_heap[cell.oid]['items']
    return items[0].t, items[1].t


def _hooks():
    def builtin_hook(eng, st, name, args, kwargs, node):
        if name == 'staticmethod':
            return [(st, args[0])]
        if name == 'time.perf_counter':
            return [(st, RealV(smt.fresh('t', smt.Real)))]
        return None

    def ds_getitem_other(eng, st, view, item):
        # input[slice | list | array] of the wrapped pipeline: Dataset.__getitem__ builds SliceDataset(item, input)
        from pyvc.engine import SliceSpecV
        if isinstance(item, SliceSpecV) and item.classes & {'slice', 'list', 'tuple', 'ndarray'}:
            return [(st, StageV('SliceDataset', [item, DSRefV(view.d)], {}))]
        return None
    return {'builtin_hook': builtin_hook, 'ds_getitem_other': ds_getitem_other}


class PassView(View):
    """same view as the wrapped pipeline"""

    def __init__(self, inp):
        self.inp = inp
        self.idx, self.len_, self.keys, self.items, self.ord_ = inp.idx, inp.len_, inp.keys, inp.items, inp.ord_
        self.name = 'profiling(%s)' % inp.name

    def n(self):
        return self.inp.n()

    def raises(self, i):
        return self.inp.raises(i)

    def val(self, i):
        return self.inp.val(i)

    def exc(self, i):
        return self.inp.exc(i)

    def key(self, i):
        return self.inp.key(i)

    def kpos(self, k):
        return self.inp.kpos(k)

    def refusal(self):
        return self.inp.refusal()


def _iter_variant(with_key):
    oy, po = iter_clauses(self_view, with_key)

    def inv(S):
        it = S.val.it
        cell = S.st.heap[it.oid]
        h0, h1 = hits(S)
        e0, e1 = hits(S, 'entry')
        return z3.And(cell['pos'].t == S.out_n, z3.Not(cell['done'].t), h0 == e0 + S.out_n, h1 == e1,
                      S.out_n <= self_view(S).n())

    def post(S, o):
        out = po(S, o)
        h0, h1 = hits(S)
        e0, e1 = hits(S, 'entry')
        hier = S.eng.hier
        if o.kind in ('normal', 'return'):
            out.append(('C20:hit_count==[fetched, failed] at the end', z3.And(h0 == e0 + S.out_n, h1 == e1)))
        elif o.kind == 'raise':
            is_exc = smt.SUB(smt.CLS(o.exc.t), hier.const('Exception'))
            out.append(('C20:a-failed-fetch-is-counted-in-both-counters',
                        z3.And(h0 == e0 + S.out_n + 1, h1 == e1 + z3.If(is_exc, 1, 0))))
        return out

    def on_yield(S, value):
        h0, h1 = hits(S)
        e0, e1 = hits(S, 'entry')
        return oy(S, value) + [('C20:hit_count-at-yield', z3.And(h0 == e0 + S.out_n + 1, h1 == e1))]
    return Variant('items' if with_key else 'values', params={'with_key': 'true' if with_key else 'false'},
                   generator=True, on_yield=on_yield, post=post, loops={'0': inv}, hooks=_hooks(),
                   requires=(lambda S: self_view(S).items) if with_key else None,
                   props=('C20',))


def _getitem_post(kind):
    base = {'int': post_getitem_int(self_view), 'str': post_getitem_key(self_view)}[kind]

    def post(S, o):
        out = base(S, o)
        h0, h1 = hits(S)
        e0, e1 = hits(S, 'entry')
        if o.kind == 'return':
            out.append(('C20:one-hit', z3.And(h0 == e0 + 1, h1 == e1)))
        elif o.kind == 'raise':
            is_exc = smt.SUB(smt.CLS(o.exc.t), S.eng.hier.const('Exception'))
            out.append(('C20:failed-hit-counted-separately', z3.And(h0 == e0 + 1, h1 == e1 + z3.If(is_exc, 1, 0))))
        return out
    return post


def _getitem_other_post(S, o):
    """ds[slice | list | array] selects, it fetches nothing: the selection must keep the wrapper in the access path
    (SliceDataset(item, self)) -- otherwise the examples later fetched through it are not counted at this stage -- and
    the selecting call itself is not a hit"""
    out = post_getitem_other()(S, o)
    h0, h1 = hits(S)
    e0, e1 = hits(S, 'entry')
    out.append(('C20:selecting-a-sub-dataset-is-not-a-fetch', z3.And(h0 == e0, h1 == e1)))
    return out


def _init_hooks():
    h = _hooks()

    def hasattr_hook(eng, st, o, a):
        if isinstance(o, DSRefV):
            return [(st, BoolV(smt.fresh('has_' + a.s, smt.Bool)))]
        return None

    def ds_getattr(eng, st, recv, attr):
        if attr in ('input_datasets', 'input_dataset'):
            return [(st, OpaqueV('inputs-of:%s' % recv.t))]
        return None

    def iter_obj_descr(eng, st, v):
        from pyvc.views import Out
        if isinstance(v, OpaqueV) and v.what.startswith('inputs-of:'):
            n = smt.fresh('n_inputs', smt.Int)
            st.pc.append(n >= 0)
            return n, (lambda k: [Out(smt.T, value=OpaqueV('input'))])
        return None

    def setattr_hook(eng, st, recv, attr, v):
        # rewiring attributes: allowed on the private copy only
        if isinstance(recv, DSRefV):
            t = z3.simplify(recv.t)
            is_copy = z3.is_app(t) and t.decl().name() == 'CP'
            st.ghost['writes_to_datasets'] = st.ghost.get('writes_to_datasets', ()) + ((str(t), attr, is_copy),)
            return [st]
        return None
    base_bh = h['builtin_hook']

    def builtin_hook(eng, st, name, args, kwargs, node):
        if name in ('copy.copy', 'copy.deepcopy') and len(args) == 1 and isinstance(args[0], DSRefV):
            # a generic python copy is not the dataset's copy() protocol (I-copy): shallow copies share
            # mutable stage state, deep copies duplicate caches
            return [(st, DSRefV(smt.fresh('python_copy', smt.DS)))]
        return base_bh(eng, st, name, args, kwargs, node)
    h['builtin_hook'] = builtin_hook
    h.update(hasattr_hook=hasattr_hook, ds_getattr=ds_getattr, iter_obj_descr=iter_obj_descr, setattr_hook=setattr_hook)
    return h


def _init_post(S, o):
    """__init__: wraps a copy() of the pipeline taken through the dataset's own copy protocol and
    never writes to the object it was given; fresh zeroed counters."""
    if o.kind == 'raise':
        return [('init:only-rejects-a-ProfilingDataset-argument', smt.F)]
    me = S.st.heap[S.eng.self_oid]
    arg = S.eng.entry_env['input_dataset']
    out = []
    fld = me.get('input_dataset')
    t = z3.simplify(fld.t) if isinstance(fld, DSRefV) else None
    ok = t is not None and z3.is_app(t) and t.decl().name() == 'CP' and t.arg(0).eq(arg.t)
    out.append(('C20:wraps-a-copy()-of-the-pipeline', z3.BoolVal(bool(ok))))
    writes = S.st.ghost.get('writes_to_datasets', ())
    out.append(('C20:the-wrapped-pipeline-object-is-never-written', z3.BoolVal(all(w[2] for w in writes))))
    hc = me.get('hit_count')
    tm = me.get('time')
    fresh = isinstance(hc, TupleV) and len(hc.items) == 2 and all(isinstance(x, IntV) and z3.is_true(z3.simplify(x.t == 0)) for x in hc.items) \
        and isinstance(tm, TupleV) and len(tm.items) == 1
    out.append(('C20:fresh-zero-counters', z3.BoolVal(bool(fresh))))
    return out


class ProfilingDatasetC(ClassContract):
    cls = 'ProfilingDataset'

    def fields(self, eng, st):
        h0, h1 = smt.fresh('hits', smt.Int), smt.fresh('failed', smt.Int)
        return {'input_dataset': DSRefV(smt.fresh('d_in', smt.DS)),
                'time': _cell(eng, st, [RealV(smt.fresh('time', smt.Real))]),
                'hit_count': _cell(eng, st, [IntV(h0), IntV(h1)])}

    def view(self, eng, st):
        return PassView(AbsView(st.heap[eng.self_oid]['input_dataset'].t))

    methods = dict(
        __iter__=[_iter_variant(False), _iter_variant(True)],
        __getitem__=[Variant('int', params={'item': 'int'}, requires=lambda S: self_view(S).idx,
                             post=_getitem_post('int'), hooks=_hooks(), props=('C20',)),
                     Variant('str', params={'item': 'key'}, requires=lambda S: self_view(S).keys,
                             post=_getitem_post('str'), hooks=_hooks(), props=('C20',))]
        + [Variant(k_, params={'item': 'slicespec:' + k_}, post=_getitem_other_post, hooks=_hooks(), props=('C20',))
           for k_ in ('slice', 'list')],
        __len__=[Variant('len', post=post_len(self_view), props=('C20',))],
        indexable=[Variant('flag', post=post_bool_property(lambda S: self_view(S).idx), props=('C20', 'C02'),
                           inline=('indexable',))],
        keys=[Variant('keys', post=post_keys(self_view), requires=lambda S: self_view(S).keys, props=('C20',),
                      inline=('keys',))],
        copy=copy_variants(),
        __init__=[Variant('wrap', params={'input_dataset': 'ds'}, post=_init_post, hooks=_init_hooks(), props=('C20',))],
    )
    methods['copy'][0].props = ('C13', 'C20')


CONTRACTS = [ProfilingDatasetC()]
