"""python -m harness.probe <finding id>: does the listed known finding still reproduce on the
real code?  One JSON line {"reproduced": bool, ...}.  Probes live in known_findings.json
as python source that sets `reproduced`."""
import json
import os
import sys
import traceback


def main():
    fid = sys.argv[1]
    here = os.path.dirname(os.path.dirname(os.path.abspath(__file__)))
    kf = json.load(open(os.path.join(here, 'known_findings.json')))
    f = [x for x in kf['findings'] if x['id'] == fid]
    if not f:
        print(json.dumps({'reproduced': False, 'error': 'unknown finding'}))
        return
    env = {}
    try:
        exec(f[0]['probe'], env)
        print(json.dumps({'reproduced': bool(env.get('reproduced')), 'observed': repr(env.get('observed'))[:300]}))
    except BaseException as e:  # noqa
        print(json.dumps({'reproduced': False, 'error': traceback.format_exc()[-600:]}))


if __name__ == '__main__':
    import os as _os
    import sys as _sys
    try:
        main()
    finally:
        # a defect under test may leave a non-daemon thread blocked for ever (that is what some checks detect): the verdict
        # is on stdout by now, do not wait for such threads at interpreter exit
        _sys.stdout.flush()
        _sys.stderr.flush()
        try:
            import atexit as _atexit
            _atexit._run_exitfuncs()          # scratch directories of the stand-ins are removed here
        except BaseException:      # noqa
            pass
        _os._exit(0)
