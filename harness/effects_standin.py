"""Bounded stand-in for C08 on the real code: an instrumented map function under a set of lazy
pipelines; construction must call nothing, ds[i] must call it exactly on the source examples of
result i, and consuming k results exactly on those of results 0..k-1 (each once)."""
import itertools


def pipelines():
    P = []

    def add(name, fn, indexable=True):
        P.append((name, fn, indexable))
    add('map', lambda d: d)
    for sl in (slice(4, 8), slice(7, None), slice(None, 3), slice(None, None, 2), slice(None, None, -1), slice(2, None, 3)):
        add('map[%s]' % (sl,), lambda d, sl=sl: d[sl])
    add('map[[5,1,1,9]]', lambda d: d[[5, 1, 1, 9]])
    add('map[2:][-3:]', lambda d: d[2:][-3:])
    add('map.batch(3)', lambda d: d.batch(3))
    add('map.batch(3)[1:]', lambda d: d.batch(3)[1:])
    add('map.batch(4,drop_last)', lambda d: d.batch(4, drop_last=True))
    add('map.batch(5,drop_last)', lambda d: d.batch(5, drop_last=True))
    add('map.batch(5,drop_last).batch(2)', lambda d: d.batch(5, drop_last=True).batch(2))
    add('map.concatenate(map)', lambda d: d.concatenate(d))
    add('map.zip(map)', lambda d: d.zip(d))
    add('map.items()', lambda d: d.items())
    add('map.tile(2)', lambda d: d.tile(2))
    add('map.split(3)[1]', lambda d: d.split(3)[1])
    add('map.shard(3,2)', lambda d: d.shard(3, 2))
    add('map.cache()', lambda d: d.cache(), True)
    # unbatch: result k needs exactly the input example (batch) that holds it -- nothing beyond that batch is pulled
    add('map.map(fragment).unbatch()', lambda d: d.map(lambda x: [x, x]).unbatch(), False)
    add('map.map(fragment3).unbatch()[via prefetch(1,1) off]', lambda d: d.map(lambda x: (x, x, x)).unbatch(), False)
    add('map.filter(even)', lambda d: d.filter(lambda x: x % 2 == 0), False)
    add('map.catch()', lambda d: d.catch(), False)
    return P


def flat_ids(x):
    if isinstance(x, (list, tuple)):
        out = []
        for i in x:
            out += flat_ids(i)
        return out
    if isinstance(x, str):
        return []
    return [x]


def search(tier='quick'):
    import lazy_dataset
    n = 12
    cases = 0
    fails = []
    for name, build, indexable in pipelines():
        log = []

        def f(x):
            log.append(x)
            return x
        src = lazy_dataset.new({'k%02d' % i: i for i in range(n)})
        cases += 1
        ds = build(src.map(f))
        if log:
            fails.append({'scenario': 'constructing ' + name, 'mismatches': [
                {'clause': 'construction', 'observed': 'map function called on %r' % log, 'expected': 'no call'}]})
            return cases, fails
        ref = [flat_ids(r) for r in build(src.map(lambda x: x))]
        # zip/concatenate of the same mapped dataset: the function is applied per occurrence
        for k in range(0, len(ref) + 1):
            cases += 1
            del log[:]
            it = iter(ds)
            got = [next(it) for _ in range(k)]
            need = sorted(i for r in ref[:k] for i in r)
            if 'cache' in name or 'unbatch' in name:
                need = sorted(set(need))
            if 'filter' in name:
                # a lazy filter evaluates every example up to (and including) the k-th passing one
                need = list(range((max(need) + 1) if need else 0))
            if sorted(log) != need:
                fails.append({'scenario': '%s: consuming %d results of a fresh iteration' % (name, k), 'mismatches': [
                    {'clause': 'prefix-demand', 'observed': 'function applied to %r' % sorted(log), 'expected': repr(need)}]})
                return cases, fails
            if 'cache' in name:
                ds = build(src.map(f))
        if indexable and 'cache' not in name:
            for i in range(len(ref)):
                cases += 1
                del log[:]
                ds[i]
                if sorted(log) != sorted(ref[i]):
                    fails.append({'scenario': '%s[%d]' % (name, i), 'mismatches': [
                        {'clause': 'point-demand', 'observed': 'function applied to %r' % sorted(log), 'expected': repr(sorted(ref[i]))}]})
                    return cases, fails
            # an index outside the offered range is refused and evaluates nothing (F29: the dropped tail of batch(drop_last))
            for i in (len(ref), -len(ref) - 1):
                cases += 1
                del log[:]
                try:
                    got = ds[i]
                    outcome = 'value %r' % (got,)
                except IndexError:
                    outcome = 'IndexError'
                except Exception as e:      # noqa
                    outcome = type(e).__name__
                if outcome != 'IndexError' or log:
                    fails.append({'scenario': '%s[%d] (outside the %d results)' % (name, i, len(ref)), 'mismatches': [
                        {'clause': 'point-demand-out-of-range', 'observed': '%s, function applied to %r' % (outcome, sorted(log)),
                         'expected': 'IndexError, no application'}]})
                    return cases, fails
    # constructions over inputs that cannot tell their length (lazy filter / unbatch / catch): whether the constructor accepts
    # or refuses them, it applies no user function (C08-H: a length probe by iteration ran the whole pipeline)
    lengthless = {'filter': lambda d: d.filter(lambda x: True), 'batch.unbatch': lambda d: d.batch(2).unbatch(), 'catch': lambda d: d.catch()}
    other_mk = {'plain': lambda: lazy_dataset.new({'o%02d' % i: 100 + i for i in range(n)})}
    builders = {'intersperse': lambda a, b: a.intersperse(b), 'intersperse(rev)': lambda a, b: b.intersperse(a), 'zip': lambda a, b: a.zip(b),
                'zip(rev)': lambda a, b: b.zip(a), 'concatenate': lambda a, b: a.concatenate(b), 'lazy_dataset.intersperse': lambda a, b: lazy_dataset.intersperse(a, b),
                'tile': lambda a, b: a.tile(2), 'batch': lambda a, b: a.batch(3), 'prefetch(1)': lambda a, b: a.prefetch(1, 2), 'local shuffle': lambda a, b: a.shuffle(True, buffer_size=3),
                'apply(lazy)': lambda a, b: a.apply(lambda d: d, lazy=True), 'items': lambda a, b: a.items(), 'cycle': lambda a, b: a.cycle()}
    for lname, lmk in lengthless.items():
        for bname, bmk in builders.items():
            cases += 1
            log = []

            def f(x):
                log.append(x)
                return x
            a = lmk(lazy_dataset.new({'k%02d' % i: i for i in range(n)}).map(f))
            if log:
                fails.append({'scenario': 'constructing map.%s' % lname, 'mismatches': [{'clause': 'construction', 'observed': 'map function called on %r' % log, 'expected': 'no call'}]})
                return cases, fails
            try:
                bmk(a, other_mk['plain']())
                outcome = 'accepted'
            except Exception as e:      # noqa
                outcome = 'refused (%s)' % type(e).__name__
            if log:
                fails.append({'scenario': 'constructing %s over map.%s (no length): %s' % (bname, lname, outcome), 'mismatches': [
                    {'clause': 'construction', 'observed': 'map function called on %r' % log[:8], 'expected': 'no call'}]})
                return cases, fails
    return cases, fails


if __name__ == '__main__':
    import json
    c, f = search()
    print(json.dumps({'cases': c, 'failures': f[:3]}))
