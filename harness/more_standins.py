"""Further bounded native stand-ins (labelled bounded; never counted as proved):
C09 isolation under mutation, C10 cache access histories, C14 catch over epochs,
C15 split/shard exhaustive, C18 sort with ties / groupby."""
import itertools
import copy
import os
os.environ.setdefault('OMP_NUM_THREADS', '1')
os.environ.setdefault('MKL_NUM_THREADS', '1')


def _fail(fails, sc, clause, obs, exp):
    fails.append({'scenario': sc, 'mismatches': [{'clause': clause, 'observed': repr(obs)[:300], 'expected': str(exp)[:200]}]})


# ------------------------------------------------------------------ C09
def isolation(tier='quick'):
    import numpy as np
    import lazy_dataset
    fails, cases = [], 0

    def fresh():
        return {'a': {'v': [1, 2], 'arr': np.arange(3)}, 'b': {'v': [3], 'arr': np.arange(2)}}

    def snap(ds):
        return [(k, copy.deepcopy(x['v']), x['arr'].tolist()) for k, x in ds.items()] if _has_items(ds) else \
            [(copy.deepcopy(x['v']), x['arr'].tolist()) for x in ds]

    def _has_items(ds):
        try:
            next(iter(ds.items()), None)
            return True
        except Exception:   # noqa
            return False

    def mutate(x):
        x['v'].append(99)
        x['arr'][0] = 77
        x['new'] = 1

    def accesses(ds, keyed):
        acc = [lambda: ds[0], lambda: ds[-1], lambda: next(iter(ds)), lambda: ds[:1][0], lambda: ds.copy()[0]]
        if keyed:
            acc += [lambda: ds['a'], lambda: next(iter(ds.items()))[1]]
        return acc
    for mode in ('pickle', 'copy', 'wu'):
        for kind in ('dict', 'list'):
            if mode == 'wu' and kind == 'dict':
                continue
            orig = fresh()
            container = orig if kind == 'dict' else list(orig.values())
            ds = lazy_dataset.new(container, immutable_warranty=mode) if mode != 'wu' else \
                lazy_dataset.from_list(container, immutable_warranty='wu')
            # len / repr / slices / copies before any element access (lazy packing would still be pending)
            len(ds), repr(ds), ds[1:], ds.copy()
            pristine = snap(lazy_dataset.new(fresh() if kind == 'dict' else list(fresh().values())))
            if mode in ('pickle', 'wu'):
                cases += 1
                for x in (orig.values()):
                    mutate(x)
                if kind == 'dict':
                    orig['zzz'] = {'v': [], 'arr': np.arange(1)}
                else:
                    container.append({'v': [], 'arr': np.arange(1)})
                if snap(ds) != pristine:
                    _fail(fails, 'new(%s, %s): mutating the original container after construction' % (kind, mode),
                          'isolation-from-originals', snap(ds), pristine)
                    return cases, fails
            else:
                pristine = snap(ds)
            for ai, a in enumerate(accesses(ds, kind == 'dict')):
                cases += 1
                mutate(a())
                if snap(ds) != pristine:
                    _fail(fails, 'new(%s, %s): mutating the example returned by access #%d' % (kind, mode, ai),
                          'isolation-of-returned-examples', snap(ds), pristine)
                    return cases, fails
    # memory and disk cache: first access (miss) and later accesses (hit), through copies, slices, items
    import tempfile
    for which in ('cache', 'diskcache'):
        def build():
            base = lazy_dataset.new(fresh()).map(lambda x: {'v': list(x['v']), 'arr': np.array(x['arr'])})
            if which == 'cache':
                return base.cache()
            return base.diskcache(tempfile.mkdtemp(prefix='verif_dc_') + '/c')
        ds = build()
        pristine = snap(build())
        for ai in range(7):
            for rep in range(2):
                cases += 1
                mutate(accesses(ds, True)[ai]())
                if snap(ds) != pristine:
                    _fail(fails, '%s(): mutating the example returned by access #%d (%s)' % (which, ai, 'miss' if rep == 0 else 'hit'),
                          'isolation-of-cached-examples', snap(ds), pristine)
                    return cases, fails
    return cases, fails


# ------------------------------------------------------------------ C10
def cache_histories(tier='quick'):
    import lazy_dataset
    fails, cases = [], 0
    n = 4
    keys = ['k%d' % i for i in range(n)]
    ops = []
    for i in range(n):
        ops += [('idx', i), ('idx', i - n), ('key', keys[i])]
    ops += [('iter',), ('items',), ('slice',), ('copy-idx', 1), ('copy-iter',)]
    L = 2 if tier == 'quick' else 3
    for hist in itertools.product(range(len(ops)), repeat=L):
        cases += 1
        calls = {}
        counter = [0]

        def f(x):
            calls[x] = calls.get(x, 0) + 1
            counter[0] += 1
            return (x, counter[0])       # a freshly different value per evaluation
        ds = lazy_dataset.new(dict(zip(keys, range(n)))).map(f).cache()
        first = {}
        for h in hist:
            op = ops[h]
            got = []
            if op[0] == 'idx':
                got = [ds[op[1]]]
            elif op[0] == 'key':
                got = [ds[op[1]]]
            elif op[0] == 'iter':
                got = list(ds)
            elif op[0] == 'items':
                got = [v for _, v in ds.items()]
            elif op[0] == 'slice':
                got = list(ds[1:3])
            elif op[0] == 'copy-idx':
                got = [ds.copy(freeze=True)[op[1]]]
            elif op[0] == 'copy-iter':
                got = list(ds.copy(freeze=True))
            for v in got:
                first.setdefault(v[0], v)
                if v != first[v[0]]:
                    _fail(fails, 'cache history %r' % [ops[x] for x in hist], 'returns-the-first-computed-value', v, first[v[0]])
                    return cases, fails
        if any(c > 1 for c in calls.values()):
            _fail(fails, 'cache history %r' % [ops[x] for x in hist], 'computes-each-example-at-most-once', calls, 'all counts <= 1')
            return cases, fails
    # memory threshold: entries cached before the threshold stay frozen, later ones are not cached
    import psutil
    real = psutil.virtual_memory

    class VM:
        def __init__(self, a):
            self.available = a
            self.total = 10 ** 12
    try:
        for cross in range(0, n + 1):
            cases += 1
            calls = {}
            cnt = [0]

            def f(x):
                calls[x] = calls.get(x, 0) + 1
                cnt[0] += 1
                return (x, cnt[0])
            state = {'n': 0}

            def fake():
                state['n'] += 1
                return VM(10 ** 11 if state['n'] <= cross else 0)
            psutil.virtual_memory = fake
            ds = lazy_dataset.new(list(range(n))).map(f).cache(keep_mem_free='1 GB')
            import warnings
            with warnings.catch_warnings():
                warnings.simplefilter('ignore')
                e1 = list(ds)
                e2 = list(ds)
                e3 = [v for v in ds.copy(freeze=True)]
            for i in range(min(cross, n)):
                if not (e1[i] == e2[i] == e3[i]):
                    _fail(fails, 'cache with the memory threshold crossed after %d stores' % cross, 'cached-before-stay-frozen',
                          (e1, e2, e3), 'first %d entries identical in every pass' % cross)
                    return cases, fails
            if any(calls.get(i, 0) > 1 for i in range(min(cross, n))):
                _fail(fails, 'cache with the memory threshold crossed after %d stores' % cross, 'cached-before-not-recomputed', calls, '<=1')
                return cases, fails
    finally:
        psutil.virtual_memory = real
    return cases, fails


# ------------------------------------------------------------------ C14
def catch_epochs(tier='quick'):
    import numpy as np
    import lazy_dataset
    fails, cases = [], 0

    class A(Exception):
        pass

    class B(A):
        pass

    class C(Exception):
        pass
    for n in (0, 1, 4, 7):
        for bad in itertools.chain.from_iterable(itertools.combinations(range(n), r) for r in range(0, min(n, 3) + 1)):
            def f(x, bad=bad):
                if x in bad:
                    raise B(x)
                return None if x == 2 else x        # a legitimate None example
            src = lazy_dataset.new({'k%d' % i: i for i in range(n)})
            exp = [None if i == 2 else i for i in range(n) if i not in bad]
            for spec, label in ((A, 'A'), ((C, A), '(C, A)'), (B, 'B')):
                cases += 1
                ds = src.map(f).catch(spec)
                for epoch in range(2):
                    if list(ds) != exp:
                        _fail(fails, 'n=%d failing=%r catch(%s) epoch %d' % (n, bad, label, epoch), 'catch-values', list(ds), exp)
                        return cases, fails
                if [v for _, v in ds.items()] != exp or [k for k, _ in ds.items()] != ['k%d' % i for i in range(n) if i not in bad]:
                    _fail(fails, 'n=%d failing=%r catch(%s).items()' % (n, bad, label), 'catch-items', list(ds.items()), exp)
                    return cases, fails
                # three ways, one selection
                p = lambda x, bad=bad: x not in bad     # noqa
                lazy = list(src.filter(p))
                eager = list(src.filter(p, lazy=False))

                def g(x, bad=bad):
                    if x in bad:
                        raise lazy_dataset.FilterException()
                    return x
                viacatch = list(src.map(g).catch())
                if not (lazy == eager == viacatch):
                    _fail(fails, 'n=%d failing=%r' % (n, bad), 'three-ways-one-selection', (lazy, eager, viacatch), 'equal')
                    return cases, fails
            if bad:
                cases += 1
                got = []
                try:
                    for x in src.map(f).catch(C):
                        got.append(x)
                    err = None
                except B as e:
                    err = e.args[0]
                if err != min(bad) or got != [None if i == 2 else i for i in range(min(bad))]:
                    _fail(fails, 'n=%d failing=%r catch(other type)' % (n, bad), 'other-types-propagate-at-position', (got, err), min(bad))
                    return cases, fails
            # reshuffled upstream, several epochs through one catch object
            if n >= 4:
                cases += 1
                ds = src.map(f).shuffle(True, rng=np.random.RandomState(0)).catch(A)
                for epoch in range(4):
                    out = list(ds)
                    if sorted(out, key=lambda v: -1 if v is None else v) != sorted(exp, key=lambda v: -1 if v is None else v):
                        _fail(fails, 'n=%d failing=%r reshuffle.catch epoch %d' % (n, bad, epoch), 'catch-over-reshuffle', out, exp)
                        return cases, fails
    return cases, fails


# ------------------------------------------------------------------ C15
def split_exhaustive(tier='quick'):
    import lazy_dataset
    fails, cases = [], 0
    N = 40 if tier == 'quick' else 300
    for n in range(0, N + 1):
        ds = lazy_dataset.new({'k%03d' % i: i for i in range(n)})
        for k in range(-1, n + 3):
            cases += 1
            valid = 1 <= k <= n
            try:
                parts = ds.split(k)
                ok = True
            except ValueError:
                ok = False
            if ok != valid:
                _fail(fails, 'len=%d split(%d)' % (n, k), 'rejects-exactly-invalid-counts', 'accepted' if ok else 'rejected', 'valid=%s' % valid)
                return cases, fails
            for i in (0, k - 1, -1):
                try:
                    sh = list(ds.shard(k, i))
                    sok = True
                except (ValueError, IndexError):
                    sok = False
                if sok != valid and valid is False:
                    _fail(fails, 'len=%d shard(%d, %d)' % (n, k, i), 'shard-rejects-like-split', sh if sok else 'rejected', 'rejected')
                    return cases, fails
                if valid and sok and sh != list(parts[i]):
                    _fail(fails, 'len=%d shard(%d, %d)' % (n, k, i), 'shard==split[i]', sh, list(parts[i]))
                    return cases, fails
            if not valid:
                continue
            sizes = [len(p) for p in parts]
            flat = [x for p in parts for x in p]
            keys = [x for p in parts for x in p.keys()]
            if len(parts) != k or flat != list(range(n)) or keys != list(ds.keys()) or max(sizes) - min(sizes) > 1:
                _fail(fails, 'len=%d split(%d)' % (n, k), 'partition', sizes, 'k consecutive balanced parts covering the dataset')
                return cases, fails
    return cases, fails


# ------------------------------------------------------------------ C18
def sort_group(tier='quick'):
    import lazy_dataset
    fails, cases = [], 0
    alphabet = (0, 1, 2)
    maxn = 5 if tier == 'quick' else 7
    for n in range(0, maxn + 1):
        for vals in itertools.product(alphabet, repeat=n):
            keys = ['k%d' % ((i * 3) % 7 + 10 * i) for i in range(n)]
            ds = lazy_dataset.new({k: {'s': v, 'payload': {'not': 'comparable'}} for k, v in zip(keys, vals)})
            for rev in (False, True):
                cases += 1
                out = ds.sort(lambda ex: ex['s'], reverse=rev)
                got = [ex['s'] for ex in out]
                if sorted(out.keys()) != sorted(keys) or got != sorted(vals, reverse=rev) or \
                        any(out[k] != ds[k] for k in keys):
                    _fail(fails, 'sort(key_fn) of %r reverse=%s' % (vals, rev), 'sort-permutation-ordered', (got, list(out.keys())), sorted(vals, reverse=rev))
                    return cases, fails
                out = ds.sort(reverse=rev)
                if list(out.keys()) != sorted(keys, reverse=rev):
                    _fail(fails, 'sort() by keys reverse=%s' % rev, 'sort-by-keys', list(out.keys()), sorted(keys, reverse=rev))
                    return cases, fails
            for gid in (lambda ex: ex['s'], lambda ex: (ex['s'], 'room'), lambda ex: (ex['s'], ex['s']), lambda ex: ()):
                cases += 1
                if not n:
                    continue
                groups = ds.groupby(gid)
                want = {}
                for k in keys:
                    want.setdefault(gid(ds[k]), []).append(k)
                got = {g: list(d.keys()) for g, d in groups.items()}
                if got != want:
                    _fail(fails, 'groupby of %r' % (vals,), 'groups-partition-in-order', got, want)
                    return cases, fails
    return cases, fails


def profiling_transparency(tier='quick'):
    """C20: ProfilingDataset(ds) shows exactly what ds shows (len, indexable flag, two iterations, items, keys, every index
    in [-n-2, n+2), present and absent keys) on the scenario pipelines of harness/scenarios.py, leaves ds untouched, and the
    top wrapper counts one hit per fetch (failed fetches separately)."""
    from lazy_dataset.core import ProfilingDataset
    from harness import scenarios
    from harness import oracle as O
    fails, cases = [], 0
    classes = ['ListDataset', 'DictDataset', 'MapDataset', 'SliceDataset', 'ConcatenateDataset', 'ZipDataset', 'ItemsDataset',
               'BatchDataset', 'UnbatchDataset', 'FilterDataset', 'CatchExceptionDataset', 'KeyZipDataset', 'IntersperseDataset']
    for cls in classes:
        for n_sc, (desc, ds, ref, probe) in enumerate(scenarios.SCENARIOS[cls]()):
            if tier == 'quick' and n_sc % 3:
                continue
            cases += 1
            sc = 'ProfilingDataset(%s)' % desc
            before = O.observe(ds, probe_keys=probe)
            p = ProfilingDataset(ds)
            got = O.observe(p, probe_keys=probe)
            after = O.observe(ds, probe_keys=probe)
            for k in before:
                if got.get(k) != before[k]:
                    _fail(fails, sc, k, got.get(k), before[k])
                if after.get(k) != before[k]:
                    _fail(fails, sc, 'wrapped-pipeline-untouched:' + k, after.get(k), before[k])
            # truthful counting at the top wrapper
            p = ProfilingDataset(ds)
            seq, end = before['iter0']
            try:
                for _ in p:
                    pass
            except Exception:  # noqa
                pass
            failed = 0 if end == ('end',) else 1
            if p.hit_count != [len(seq) + failed, failed]:
                _fail(fails, sc, 'hit_count-after-one-iteration', list(p.hit_count), [len(seq) + failed, failed])
            if before['indexable'] == ('v', True):
                p = ProfilingDataset(ds)
                tot = bad = 0
                for i, o in before['getitem'].items():
                    try:
                        p[i]
                    except Exception:  # noqa
                        bad += 1
                    tot += 1
                if p.hit_count != [tot, bad]:
                    _fail(fails, sc, 'hit_count-after-indexing', list(p.hit_count), [tot, bad])
    return cases, fails


def database(tier='quick'):
    from harness import database_standin
    return database_standin.search(tier)
