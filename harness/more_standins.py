"""Further bounded native stand-ins (labelled bounded; never counted as proved):
C09 isolation under mutation, C10 cache access histories, C14 catch over epochs,
C15 split/shard exhaustive, C18 sort with ties / groupby."""
import itertools
import copy
import os
os.environ.setdefault('OMP_NUM_THREADS', '1')
os.environ.setdefault('MKL_NUM_THREADS', '1')


_SCRATCH = {'root': None, 'n': 0}


def _scratch_dir():
    """a fresh directory below one per-process scratch root that is removed at interpreter exit"""
    import atexit
    import shutil
    import tempfile
    if _SCRATCH['root'] is None:
        _SCRATCH['root'] = tempfile.mkdtemp(prefix='verif_dc_')
        atexit.register(shutil.rmtree, _SCRATCH['root'], True)
    _SCRATCH['n'] += 1
    d = '%s/d%d' % (_SCRATCH['root'], _SCRATCH['n'])
    os.makedirs(d)
    return d


def _fail(fails, sc, clause, obs, exp):
    fails.append({'scenario': sc, 'mismatches': [{'clause': clause, 'observed': repr(obs)[:300], 'expected': str(exp)[:200]}]})


# ------------------------------------------------------------------ C09
def isolation(tier='quick'):
    import numpy as np
    import lazy_dataset
    fails, cases = [], 0

    def fresh():
        return {'a': {'v': [1, 2], 'arr': np.arange(3)}, 'b': {'v': [3], 'arr': np.arange(2)}}

    def snap(ds):
        return [(k, copy.deepcopy(x['v']), x['arr'].tolist()) for k, x in ds.items()] if _has_items(ds) else \
            [(copy.deepcopy(x['v']), x['arr'].tolist()) for x in ds]

    def _has_items(ds):
        try:
            next(iter(ds.items()), None)
            return True
        except Exception:   # noqa
            return False

    def mutate(x):
        x['v'].append(99)
        x['arr'][0] = 77
        x['new'] = 1

    def accesses(ds, keyed):
        acc = [lambda: ds[0], lambda: ds[-1], lambda: next(iter(ds)), lambda: ds[:1][0], lambda: ds.copy()[0]]
        if keyed:
            acc += [lambda: ds['a'], lambda: next(iter(ds.items()))[1]]
        return acc
    for mode in ('pickle', 'copy', 'wu'):
        for kind in ('dict', 'list'):
            if mode == 'wu' and kind == 'dict':
                continue
            orig = fresh()
            container = orig if kind == 'dict' else list(orig.values())
            ds = lazy_dataset.new(container, immutable_warranty=mode) if mode != 'wu' else \
                lazy_dataset.from_list(container, immutable_warranty='wu')
            # len / repr / slices / copies before any element access (lazy packing would still be pending)
            len(ds), repr(ds), ds[1:], ds.copy()
            pristine = snap(lazy_dataset.new(fresh() if kind == 'dict' else list(fresh().values())))
            if mode in ('pickle', 'wu'):
                cases += 1
                for x in (orig.values()):
                    mutate(x)
                if kind == 'dict':
                    orig['zzz'] = {'v': [], 'arr': np.arange(1)}
                else:
                    container.append({'v': [], 'arr': np.arange(1)})
                if snap(ds) != pristine:
                    _fail(fails, 'new(%s, %s): mutating the original container after construction' % (kind, mode),
                          'isolation-from-originals', snap(ds), pristine)
                    return cases, fails
            else:
                pristine = snap(ds)
            for ai, a in enumerate(accesses(ds, kind == 'dict')):
                cases += 1
                mutate(a())
                if snap(ds) != pristine:
                    _fail(fails, 'new(%s, %s): mutating the example returned by access #%d' % (kind, mode, ai),
                          'isolation-of-returned-examples', snap(ds), pristine)
                    return cases, fails
    # memory and disk cache: first access (miss) and later accesses (hit), through copies, slices, items
    import tempfile
    for which in ('cache', 'diskcache'):
        def build():
            base = lazy_dataset.new(fresh()).map(lambda x: {'v': list(x['v']), 'arr': np.array(x['arr'])})
            if which == 'cache':
                return base.cache()
            return base.diskcache(_scratch_dir() + '/c')
        ds = build()
        pristine = snap(build())
        for ai in range(7):
            for rep in range(2):
                cases += 1
                mutate(accesses(ds, True)[ai]())
                if snap(ds) != pristine:
                    _fail(fails, '%s(): mutating the example returned by access #%d (%s)' % (which, ai, 'miss' if rep == 0 else 'hit'),
                          'isolation-of-cached-examples', snap(ds), pristine)
                    return cases, fails
    return cases, fails


# ------------------------------------------------------------------ C10
def cache_histories(tier='quick'):
    import warnings
    import lazy_dataset
    fails, cases = [], 0
    n = 4
    keys = ['k%d' % i for i in range(n)]
    ops = []
    for i in range(n):
        ops += [('idx', i), ('idx', i - n), ('key', keys[i])]
    ops += [('iter',), ('items',), ('slice',), ('copy-idx', 1), ('copy-iter',), ('plain-copy-idx', 2), ('plain-copy-iter',)]
    L = 2 if tier == 'quick' else 3
    for hist in itertools.product(range(len(ops)), repeat=L):
        cases += 1
        calls = {}
        counter = [0]

        def f(x):
            calls[x] = calls.get(x, 0) + 1
            counter[0] += 1
            return (x, counter[0])       # a freshly different value per evaluation
        ds = lazy_dataset.new(dict(zip(keys, range(n)))).map(f).cache()
        first = {}
        for h in hist:
            op = ops[h]
            got = []
            if op[0] == 'idx':
                got = [ds[op[1]]]
            elif op[0] == 'key':
                got = [ds[op[1]]]
            elif op[0] == 'iter':
                got = list(ds)
            elif op[0] == 'items':
                got = [v for _, v in ds.items()]
            elif op[0] == 'slice':
                got = list(ds[1:3])
            elif op[0] == 'copy-idx':
                got = [ds.copy(freeze=True)[op[1]]]
            elif op[0] == 'copy-iter':
                got = list(ds.copy(freeze=True))
            elif op[0] == 'plain-copy-idx':
                with warnings.catch_warnings():
                    warnings.simplefilter('ignore')
                    got = [ds.copy()[op[1]]]
            elif op[0] == 'plain-copy-iter':
                with warnings.catch_warnings():
                    warnings.simplefilter('ignore')
                    got = list(ds.copy())
            # positions: iteration / items / slices deliver the examples in dataset order with their own keys
            if op[0] in ('iter', 'copy-iter', 'plain-copy-iter') and [v[0] for v in got] != list(range(n)):
                _fail(fails, 'cache history %r' % [ops[x] for x in hist], 'iteration-in-dataset-order', got, list(range(n)))
                return cases, fails
            if op[0] == 'items' and [(k, v[0]) for k, v in ds.items()] != list(zip(keys, range(n))):
                _fail(fails, 'cache history %r' % [ops[x] for x in hist], 'items-pair-keys-with-their-examples', list(ds.items()), list(zip(keys, range(n))))
                return cases, fails
            if op[0] == 'slice' and [v[0] for v in got] != [1, 2]:
                _fail(fails, 'cache history %r' % [ops[x] for x in hist], 'slice-in-dataset-order', got, [1, 2])
                return cases, fails
            for v in got:
                first.setdefault(v[0], v)
                if v != first[v[0]]:
                    _fail(fails, 'cache history %r' % [ops[x] for x in hist], 'returns-the-first-computed-value', v, first[v[0]])
                    return cases, fails
        if any(c > 1 for c in calls.values()):
            _fail(fails, 'cache history %r' % [ops[x] for x in hist], 'computes-each-example-at-most-once', calls, 'all counts <= 1')
            return cases, fails
    # the cache filled COMPLETELY in every order and by every access path, then read by iteration / items / a copy
    for perm in itertools.permutations(range(n)):
        for mode in ('idx', 'neg', 'key', 'copy'):
            cases += 1
            calls = {}
            counter = [0]

            def f(x):
                calls[x] = calls.get(x, 0) + 1
                counter[0] += 1
                return (x, counter[0])
            ds = lazy_dataset.new(dict(zip(keys, range(n)))).map(f).cache()
            with warnings.catch_warnings():
                warnings.simplefilter('ignore')
                cp = ds.copy()
            first = {}
            for i in perm:
                v = {'idx': lambda: ds[i], 'neg': lambda: ds[i - n], 'key': lambda: ds[keys[i]], 'copy': lambda: cp[i]}[mode]()
                first[i] = v
            sc = 'cache filled in the order %r by %s, then read' % (perm, mode)
            for label, got in (('iteration', list(ds)), ('second iteration', list(ds)), ('items', [v for _, v in ds.items()]),
                               ('item keys', None), ('copy iteration', list(cp)), ('frozen copy iteration', list(ds.copy(freeze=True)))):
                if label == 'item keys':
                    if [k for k, _ in ds.items()] != keys:
                        _fail(fails, sc, 'items-pair-keys-with-their-examples', list(ds.items()), keys)
                        return cases, fails
                    continue
                if got != [first[i] for i in range(n)]:
                    _fail(fails, sc + ' by ' + label, 'cached-examples-in-dataset-order', got, [first[i] for i in range(n)])
                    return cases, fails
            if any(c > 1 for c in calls.values()):
                _fail(fails, sc, 'computes-each-example-at-most-once', calls, 'all counts <= 1')
                return cases, fails
    # through thread-prefetch workers: the cache sits below a multi-worker prefetch / parallel map; every epoch and every
    # later direct access returns the first computed value, the upstream runs once per example
    import os
    os.environ.setdefault('OMP_NUM_THREADS', '1')
    os.environ.setdefault('MKL_NUM_THREADS', '1')
    import threading
    for workers, buf in ((2, 2), (3, 4)):
        for top in ('prefetch', 'map'):
            cases += 1
            calls = {}
            counter = [0]
            lock = threading.Lock()

            def f(x):
                with lock:
                    calls[x] = calls.get(x, 0) + 1
                    counter[0] += 1
                    return (x, counter[0])
            m = 9
            cached = lazy_dataset.new({'k%d' % i: i for i in range(m)}).map(f).cache()
            par = cached.prefetch(workers, buf) if top == 'prefetch' else cached.map(lambda v: v, num_workers=workers, buffer_size=buf)
            e1 = list(par)
            e2 = list(par)
            direct = [cached[i] for i in range(m)] + [cached['k%d' % i] for i in range(m)]
            sc = 'cache below %s(%d workers, buffer %d), freshly random upstream' % (top, workers, buf)
            if [v[0] for v in e1] != list(range(m)) or e2 != e1 or direct != e1 + e1:
                _fail(fails, sc, 'returns-the-first-computed-value', (e1, e2, direct[:m]), 'one frozen value per example, in order')
                return cases, fails
            if any(c != 1 for c in calls.values()) or len(calls) != m:
                _fail(fails, sc, 'computes-each-example-at-most-once', calls, 'every count == 1')
                return cases, fails
    # "every access returns the value the pipeline produced the first time": also after the consumer changed a handed-out
    # example in place (dict / list / tuple holding a list / nested tuple / what zip yields), read back by every path
    import copy as _copy
    shapes = {'dict': lambda x: {'v': [x]}, 'list': lambda x: [x, [x]], 'tuple-with-list': lambda x: (x, [x]),
              'nested-tuple': lambda x: ((x, [x]), 'label'), 'flat-tuple': lambda x: (x, 'label')}

    def _mut(v):
        if isinstance(v, dict):
            for k in list(v):
                _mut(v[k])
            v['added'] = 1
        elif isinstance(v, list):
            for e in v:
                _mut(e)
            v.append(99)
        elif isinstance(v, tuple):
            for e in v:
                _mut(e)
    for shape, mkv in list(shapes.items()) + [('zip', None)]:
        for first_by in ('idx', 'key', 'iter'):
            cases += 1
            base = lazy_dataset.new(dict(zip(keys, range(n))))
            if shape == 'zip':
                ds = base.map(lambda x: [x]).zip(base.map(lambda x: {'v': [x]})).cache()
                if first_by == 'key':
                    continue
            else:
                ds = base.map(mkv).cache()
            got = {'idx': lambda: [ds[1]], 'key': lambda: [ds[keys[1]]], 'iter': lambda: list(ds)}[first_by]()
            snap = _copy.deepcopy(list(ds))
            for v in got:
                _mut(v)
            reads = [('iteration', lambda: list(ds)), ('index', lambda: [ds[i] for i in range(n)]), ('negative index', lambda: [ds[i - n] for i in range(n)]),
                     ('slice', lambda: [None] + list(ds[1:3]) + [None]), ('frozen copy', lambda: list(ds.copy(freeze=True)))]
            if shape != 'zip':
                reads += [('key', lambda: [ds[k] for k in keys]), ('items', lambda: [v for _, v in ds.items()])]
            for label, rd in reads:
                r = rd()
                want = snap if label != 'slice' else [None] + snap[1:3] + [None]
                if repr(r) != repr(want):
                    _fail(fails, 'cache of %s examples: first read by %s, that example changed in place, then read by %s' % (shape, first_by, label),
                          'returns-the-first-computed-value', r, want)
                    return cases, fails
    # memory threshold: entries cached before the threshold stay frozen, later ones are not cached
    import psutil
    real = psutil.virtual_memory

    class VM:
        def __init__(self, a):
            self.available = a
            self.total = 10 ** 12
    try:
        for cross in range(0, n + 1):
            cases += 1
            calls = {}
            cnt = [0]

            def f(x):
                calls[x] = calls.get(x, 0) + 1
                cnt[0] += 1
                return (x, cnt[0])
            def fake():
                # the free memory is a function of what has happened (examples computed so far), not of how often it is read
                return VM(10 ** 11 if cnt[0] <= cross else 0)
            psutil.virtual_memory = fake
            ds = lazy_dataset.new(list(range(n))).map(f).cache(keep_mem_free='1 GB')
            import warnings
            with warnings.catch_warnings():
                warnings.simplefilter('ignore')
                e1 = list(ds)
                e2 = list(ds)
                e3 = [v for v in ds.copy(freeze=True)]
            for i in range(min(cross, n)):
                if not (e1[i] == e2[i] == e3[i]):
                    _fail(fails, 'cache with the memory threshold crossed after %d stores' % cross, 'cached-before-stay-frozen',
                          (e1, e2, e3), 'first %d entries identical in every pass' % cross)
                    return cases, fails
            if any(calls.get(i, 0) > 1 for i in range(min(cross, n))):
                _fail(fails, 'cache with the memory threshold crossed after %d stores' % cross, 'cached-before-not-recomputed', calls, '<=1')
                return cases, fails
            # "once the threshold is crossed no further examples are cached": those are computed again in every pass
            late = [i for i in range(cross, n) if calls.get(i, 0) < 3]
            if late:
                _fail(fails, 'cache with the memory threshold crossed after %d stores' % cross, 'nothing-is-cached-after-the-threshold',
                      'examples %r were computed %r times in three passes' % (late, [calls.get(i, 0) for i in late]), 'three times each')
                return cases, fails
    finally:
        psutil.virtual_memory = real
    return cases, fails


# ------------------------------------------------------------------ C14
def catch_epochs(tier='quick'):
    import numpy as np
    import lazy_dataset
    fails, cases = [], 0

    class A(Exception):
        pass

    class B(A):
        pass

    class C(Exception):
        pass
    for n in (0, 1, 4, 7):
        for bad in itertools.chain.from_iterable(itertools.combinations(range(n), r) for r in range(0, min(n, 3) + 1)):
            def f(x, bad=bad):
                if x in bad:
                    raise B(x)
                return None if x == 2 else x        # a legitimate None example
            src = lazy_dataset.new({'k%d' % i: i for i in range(n)})
            exp = [None if i == 2 else i for i in range(n) if i not in bad]
            for spec, label in ((A, 'A'), ((C, A), '(C, A)'), (B, 'B')):
                cases += 1
                ds = src.map(f).catch(spec)
                for epoch in range(2):
                    if list(ds) != exp:
                        _fail(fails, 'n=%d failing=%r catch(%s) epoch %d' % (n, bad, label, epoch), 'catch-values', list(ds), exp)
                        return cases, fails
                if [v for _, v in ds.items()] != exp or [k for k, _ in ds.items()] != ['k%d' % i for i in range(n) if i not in bad]:
                    _fail(fails, 'n=%d failing=%r catch(%s).items()' % (n, bad, label), 'catch-items', list(ds.items()), exp)
                    return cases, fails
                # three ways, one selection
                p = lambda x, bad=bad: x not in bad     # noqa
                lazy = list(src.filter(p))
                eager = list(src.filter(p, lazy=False))

                def g(x, bad=bad):
                    if x in bad:
                        raise lazy_dataset.FilterException()
                    return x
                viacatch = list(src.map(g).catch())
                if not (lazy == eager == viacatch):
                    _fail(fails, 'n=%d failing=%r' % (n, bad), 'three-ways-one-selection', (lazy, eager, viacatch), 'equal')
                    return cases, fails
            if bad:
                cases += 1
                got = []
                try:
                    for x in src.map(f).catch(C):
                        got.append(x)
                    err = None
                except B as e:
                    err = e.args[0]
                if err != min(bad) or got != [None if i == 2 else i for i in range(min(bad))]:
                    _fail(fails, 'n=%d failing=%r catch(other type)' % (n, bad), 'other-types-propagate-at-position', (got, err), min(bad))
                    return cases, fails
            # reshuffled upstream, several epochs through one catch object
            if n >= 4:
                cases += 1
                ds = src.map(f).shuffle(True, rng=np.random.RandomState(0)).catch(A)
                for epoch in range(4):
                    out = list(ds)
                    if sorted(out, key=lambda v: -1 if v is None else v) != sorted(exp, key=lambda v: -1 if v is None else v):
                        _fail(fails, 'n=%d failing=%r reshuffle.catch epoch %d' % (n, bad, epoch), 'catch-over-reshuffle', out, exp)
                        return cases, fails
    # predicates that answer with any python object: lazy and eager filter select by python truthiness, like `if p(x)`
    preds = {'list ([x] / [])': lambda x: [x] if x % 2 else [], 'equal-length lists': lambda x: [0, 0] if x % 2 else [],
             'ragged lists': lambda x: [1] * x, '1-tuple holding 0': lambda x: (0,) if x % 2 else (), 'str': lambda x: 'y' if x % 2 else '',
             'None / object': lambda x: object() if x % 2 else None, 'int': lambda x: x % 3, 'dict': lambda x: {'k': 0} if x % 2 else {},
             'numpy bool': lambda x: np.bool_(x % 2 == 1), 'float': lambda x: 0.0 if x % 2 else 0.5}
    for n4 in (1, 4, 6):
        src4 = lazy_dataset.new({'k%d' % i: i for i in range(n4)})
        for pname, pr in preds.items():
            cases += 1
            want = [x for x in range(n4) if pr(x)]
            for how, mk in (('filter(p)', lambda: list(src4.filter(pr))), ('filter(p, lazy=False)', lambda: list(src4.filter(pr, lazy=False))),
                            ('filter(p, lazy=False) of a list dataset', lambda: list(lazy_dataset.new(list(range(n4))).filter(pr, lazy=False)))):
                try:
                    got = mk()
                except Exception as e:      # noqa
                    got = '%s: %s' % (type(e).__name__, str(e)[:80])
                if got != want:
                    _fail(fails, '%s over %d examples, predicate answering with %s' % (how, n4, pname), 'filter-selects-by-truthiness', got, want)
                    if len(fails) >= 3:
                        return cases, fails
    # catch() over stages that look examples up by key / index themselves (concatenate, intersperse, slice by keys, key_zip,
    # cache, sort, items): the exception types that user code raises most (KeyError, IndexError, LookupError subclasses,
    # ValueError) are not to be confused with the stage's own lookup failures -- values and items agree  (batch is left out:
    # it uses IndexError as its own end-of-data signal, listed finding F18)
    n = 6
    keys = ['k%d' % i for i in range(n)]
    for exc in (KeyError, IndexError, ValueError, A):
        for bad in ((), (0,), (2,), (n - 1,), (1, 4)):
            def f(x, bad=bad, exc=exc):
                if x in bad:
                    raise exc(x)
                return x
            a = lazy_dataset.new(dict(zip(keys[:3], range(3)))).map(f)
            b = lazy_dataset.new(dict(zip(keys[3:], range(3, n)))).map(f)
            whole = lazy_dataset.new(dict(zip(keys, range(n)))).map(f)
            stages = {'concatenate': (a.concatenate(b), list(range(n))), 'intersperse': (a.intersperse(b), [0, 3, 1, 4, 2, 5]),
                      'slice by keys': (whole[keys[::-1]], list(range(n))[::-1]), 'key_zip': (whole.key_zip(whole), [(i, i) for i in range(n)]),
                      'sort by keys': (whole.sort(reverse=True), list(range(n))[::-1]), 'cache': (None, list(range(n)))}
            for name, (ds0, order) in stages.items():
                cases += 1
                if name == 'cache':
                    ds0 = whole.cache()
                ds = ds0.catch(exc)
                want = [v for v in order if (v[0] if isinstance(v, tuple) else v) not in bad]
                try:
                    vals = list(ds)
                    its = [v for _, v in ds.items()]
                    out = (vals, its)
                except BaseException as e:      # noqa
                    out = '%s: %s' % (type(e).__name__, str(e)[:100])
                if out != (want, want):
                    _fail(fails, 'map(f raising %s at %r) below %s, then catch(%s): values and items' % (exc.__name__, bad, name, exc.__name__),
                          'catch-over-looking-up-stages', out, (want, want))
                    if len(fails) >= 3:
                        return cases, fails
    return cases, fails


# ------------------------------------------------------------------ C15
def split_exhaustive(tier='quick'):
    import lazy_dataset
    fails, cases = [], 0
    N = 40 if tier == 'quick' else 300
    for n in range(0, N + 1):
        ds = lazy_dataset.new({'k%03d' % i: i for i in range(n)})
        for k in range(-1, n + 3):
            cases += 1
            valid = 1 <= k <= n
            try:
                parts = ds.split(k)
                ok = True
            except ValueError:
                ok = False
            if ok != valid:
                _fail(fails, 'len=%d split(%d)' % (n, k), 'rejects-exactly-invalid-counts', 'accepted' if ok else 'rejected', 'valid=%s' % valid)
                return cases, fails
            for i in (0, k - 1, -1):
                try:
                    sh = list(ds.shard(k, i))
                    sok = True
                except (ValueError, IndexError):
                    sok = False
                if sok != valid and valid is False:
                    _fail(fails, 'len=%d shard(%d, %d)' % (n, k, i), 'shard-rejects-like-split', sh if sok else 'rejected', 'rejected')
                    return cases, fails
                if valid and sok and sh != list(parts[i]):
                    _fail(fails, 'len=%d shard(%d, %d)' % (n, k, i), 'shard==split[i]', sh, list(parts[i]))
                    return cases, fails
            if not valid:
                continue
            sizes = [len(p) for p in parts]
            flat = [x for p in parts for x in p]
            keys = [x for p in parts for x in p.keys()]
            if len(parts) != k or flat != list(range(n)) or keys != list(ds.keys()) or max(sizes) - min(sizes) > 1:
                _fail(fails, 'len=%d split(%d)' % (n, k), 'partition', sizes, 'k consecutive balanced parts covering the dataset')
                return cases, fails
    # the same partition clauses on derived parents (slices, one-time shuffles, sorts, key lists, maps, concatenations,
    # list-backed sources), with keys() / a key lookup queried BEFORE the split (cached state must not leak into shards)
    import numpy as np
    N2 = 9 if tier == 'quick' else 14
    for n in range(1, N2 + 1):
        base = lazy_dataset.new({'k%03d' % i: i for i in range(n)})
        parents = {
            'slice[1:]': lambda: base[1:], 'slice[::-1]': lambda: base[::-1], 'slice[::2]': lambda: base[::2],
            'shuffle': lambda: base.shuffle(rng=np.random.RandomState(n)), 'sort': lambda: base.sort(lambda x: -x),
            'keylist': lambda: base[[k for k in base.keys()][::-1]], 'map': lambda: base.map(lambda x: x),
            'concatenate': lambda: base.concatenate(lazy_dataset.new({'z%d' % i: 100 + i for i in range(2)})),
            'list-backed': lambda: lazy_dataset.new(list(range(n))), 'shard-of-shard': lambda: base.shard(1, 0),
            'cache': lambda: base.cache(),
        }
        for pname, mk in parents.items():
            for touch in (False, True):
                ds = mk()
                m = len(ds)
                if m == 0:
                    continue
                has_keys = True
                try:
                    want_keys = list(mk().keys())
                except Exception:      # noqa
                    has_keys = False
                if touch and has_keys:
                    ds.keys()
                    ds[want_keys[0]]
                want = list(mk())
                for k in sorted({1, 2, 3, m}):
                    if k > m:
                        continue
                    cases += 1
                    sc = '%s over %d examples%s, split(%d)' % (pname, n, ' (keys() queried before)' if touch else '', k)
                    try:
                        parts = ds.split(k)
                        flat = [x for p in parts for x in p]
                        sizes = [len(p) for p in parts]
                        pk = [x for p in parts for x in p.keys()] if has_keys else None
                        sh = [list(ds.shard(k, i)) for i in range(k)]
                    except Exception as e:      # noqa
                        _fail(fails, sc, 'split/shard of a valid count works', '%s: %s' % (type(e).__name__, str(e)[:80]), 'k parts')
                        return cases, fails
                    if len(parts) != k or flat != want or max(sizes) - min(sizes) > 1 or sh != [list(p) for p in parts]:
                        _fail(fails, sc, 'partition', (sizes, flat), want)
                        return cases, fails
                    if has_keys and pk != want_keys:
                        _fail(fails, sc, 'shard keys partition the keys of the dataset', pk, want_keys)
                        return cases, fails
    return cases, fails


# ------------------------------------------------------------------ C18
def sort_group(tier='quick'):
    import lazy_dataset
    fails, cases = [], 0
    alphabet = (0, 1, 2)
    maxn = 5 if tier == 'quick' else 7
    gids = [('s', lambda ex: ex['s']), ('(s, room)', lambda ex: (ex['s'], 'room')), ('(s, s)', lambda ex: (ex['s'], ex['s'])),
            ('()', lambda ex: ()), ('None if s == 0 else s', lambda ex: None if ex['s'] == 0 else ex['s']),
            ('None', lambda ex: None), ('s > 0', lambda ex: ex['s'] > 0), ('str', lambda ex: 'g%d' % ex['s']),
            ('None if s == 2 else "x"', lambda ex: None if ex['s'] == 2 else 'x')]
    for n in range(0, maxn + 1):
        for vals in itertools.product(alphabet, repeat=n):
            keys = ['k%d' % ((i * 3) % 7 + 10 * i) for i in range(n)]
            ds = lazy_dataset.new({k: {'s': v, 'payload': {'not': 'comparable'}} for k, v in zip(keys, vals)})
            for rev in (False, True):
                cases += 1
                try:
                    out = ds.sort(lambda ex: ex['s'], reverse=rev)
                    got = [ex['s'] for ex in out]
                    ok = sorted(out.keys()) == sorted(keys) and got == sorted(vals, reverse=rev) and all(out[k] == ds[k] for k in keys)
                    obs = (got, list(out.keys()))
                except Exception as e:      # noqa
                    ok, obs = False, '%s: %s' % (type(e).__name__, str(e)[:80])
                if not ok:
                    _fail(fails, 'sort(key_fn) of %r reverse=%s' % (vals, rev), 'sort-permutation-ordered', obs, sorted(vals, reverse=rev))
                    return cases, fails
                try:
                    out = ds.sort(reverse=rev)
                    obs = list(out.keys())
                except Exception as e:      # noqa
                    obs = '%s: %s' % (type(e).__name__, str(e)[:80])
                if obs != sorted(keys, reverse=rev):
                    _fail(fails, 'sort() by keys of %d examples reverse=%s' % (n, rev), 'sort-by-keys', obs, sorted(keys, reverse=rev))
                    return cases, fails
                # sorting a key-less (list-backed) dataset with a key function, custom sort_fn
                lst = lazy_dataset.new([{'s': v} for v in vals])
                try:
                    got = [ex['s'] for ex in lst.sort(lambda ex: ex['s'], sort_fn=sorted, reverse=rev)]
                except Exception as e:      # noqa
                    got = '%s: %s' % (type(e).__name__, str(e)[:80])
                if got != sorted(vals, reverse=rev):
                    _fail(fails, 'list dataset sort(key_fn) of %r reverse=%s' % (vals, rev), 'sort-permutation-ordered', got, sorted(vals, reverse=rev))
                    return cases, fails
            # sort values of other kinds: numpy scalars (unsigned, narrow signed at their minimum), bools, floats with a big int,
            # strings, tuples -- a permutation whose sort values are ordered like `sorted` orders them
            if n and (tier != 'quick' or n <= 4):
                import numpy as np
                conv = {'np.uint8': lambda v: np.uint8(v * 100), 'np.int8 incl. -128': lambda v: np.int8(-128 if v == 0 else v),
                        'bool': lambda v: v > 0, 'float and big int': lambda v: (2 ** 53 + v) if v else 0.5, 'str': lambda v: 's%d' % v,
                        'tuple': lambda v: (v % 2, 'x'), 'np.float32': lambda v: np.float32(v) / 3}
                for cname, cv in conv.items():
                    for rev in (False, True):
                        cases += 1
                        svals = [cv(v) for v in vals]
                        want = [i for i, _ in sorted(enumerate(svals), key=lambda p: p[1], reverse=rev)]
                        dsv = lazy_dataset.new({k: {'i': i, 'sv': sv} for i, (k, sv) in enumerate(zip(keys, svals))})
                        try:
                            got = [ex['i'] for ex in dsv.sort(lambda ex: ex['sv'], reverse=rev)]
                        except Exception as e:      # noqa
                            got = '%s: %s' % (type(e).__name__, str(e)[:80])
                        # (the order among equal sort values is not part of the statement)
                        ok = isinstance(got, list) and sorted(got) == list(range(n)) and [svals[i] for i in got] == [svals[i] for i in want]
                        if not ok:
                            _fail(fails, 'sort(key_fn -> %s) of %r reverse=%s' % (cname, svals, rev), 'sort-permutation-ordered', got, want)
                            return cases, fails
            # sort / groupby of DERIVED datasets (selections built from key lists, sorted views, slices, eager filters)
            if 1 <= n <= 4:
                import numpy as np
                derived = {
                    'ds[reversed key list]': lambda: ds[list(reversed(keys))],
                    'ds[key tuple]': lambda: ds[tuple(keys)],
                    'ds.sort()': lambda: ds.sort(),
                    'ds.sort(reverse=True)[0:]': lambda: ds.sort(reverse=True)[0:],
                    'ds[::-1]': lambda: ds[::-1],
                    'ds.shuffle()': lambda: ds.shuffle(rng=np.random.RandomState(n)),
                    'ds.filter(eager)': lambda: ds.filter(lambda ex: ex['s'] < 2, lazy=False),
                }
                for dname, mkd in derived.items():
                    cases += 1
                    base_items = list(mkd().items())
                    try:
                        out = mkd().sort(lambda ex: ex['s'])
                        got = [(k, ex['s']) for k, ex in out.items()]
                    except Exception as e:      # noqa
                        got = '%s: %s' % (type(e).__name__, str(e)[:80])
                    want = sorted([(k, ex['s']) for k, ex in base_items], key=lambda kv: kv[1])
                    if got != want:
                        _fail(fails, '%s.sort(key_fn) of %r' % (dname, vals), 'sort-permutation-ordered', got, want)
                        return cases, fails
                    wantg = {}
                    for k, ex in base_items:
                        wantg.setdefault(ex['s'], []).append(k)
                    try:
                        gotg = {g: list(d.keys()) for g, d in mkd().groupby(lambda ex: ex['s']).items()}
                    except Exception as e:      # noqa
                        gotg = '%s: %s' % (type(e).__name__, str(e)[:80])
                    if gotg != wantg:
                        _fail(fails, '%s.groupby(s) of %r' % (dname, vals), 'groups-partition-in-order', gotg, wantg)
                        return cases, fails
            for gname, gid in gids:
                cases += 1
                want = {}
                for k in keys:
                    want.setdefault(gid(ds[k]), []).append(k)
                try:
                    groups = ds.groupby(gid)
                    got = {g: list(d.keys()) for g, d in groups.items()}
                except Exception as e:      # noqa
                    got = '%s: %s' % (type(e).__name__, str(e)[:80])
                if got != want:
                    _fail(fails, 'groupby(%s) of %r' % (gname, vals), 'groups-partition-in-order', got, want)
                    return cases, fails
    return cases, fails


def profiling_transparency(tier='quick'):
    """C20: ProfilingDataset(ds) shows exactly what ds shows (len, indexable flag, two iterations, items, keys, every index
    in [-n-2, n+2), present and absent keys) on the scenario pipelines of harness/scenarios.py, leaves ds untouched, and the
    top wrapper counts one hit per fetch (failed fetches separately)."""
    from lazy_dataset.core import ProfilingDataset
    from harness import scenarios
    from harness import oracle as O
    fails, cases = [], 0
    classes = ['ListDataset', 'DictDataset', 'MapDataset', 'SliceDataset', 'ConcatenateDataset', 'ZipDataset', 'ItemsDataset',
               'BatchDataset', 'UnbatchDataset', 'FilterDataset', 'CatchExceptionDataset', 'KeyZipDataset', 'IntersperseDataset']
    for cls in classes:
        for n_sc, (desc, ds, ref, probe) in enumerate(scenarios.SCENARIOS[cls]()):
            if tier == 'quick' and n_sc % 3:
                continue
            cases += 1
            sc = 'ProfilingDataset(%s)' % desc
            before = O.observe(ds, probe_keys=probe)
            p = ProfilingDataset(ds)
            got = O.observe(p, probe_keys=probe)
            after = O.observe(ds, probe_keys=probe)
            for k in before:
                if got.get(k) != before[k]:
                    _fail(fails, sc, k, got.get(k), before[k])
                if after.get(k) != before[k]:
                    _fail(fails, sc, 'wrapped-pipeline-untouched:' + k, after.get(k), before[k])
            # truthful counting at the top wrapper
            p = ProfilingDataset(ds)
            seq, end = before['iter0']
            try:
                for _ in p:
                    pass
            except Exception:  # noqa
                pass
            failed = 0 if end == ('end',) else 1
            if p.hit_count != [len(seq) + failed, failed]:
                _fail(fails, sc, 'hit_count-after-one-iteration', list(p.hit_count), [len(seq) + failed, failed])
            if before['indexable'] == ('v', True):
                p = ProfilingDataset(ds)
                tot = bad = 0
                for i, o in before['getitem'].items():
                    try:
                        p[i]
                    except Exception:  # noqa
                        bad += 1
                    tot += 1
                if p.hit_count != [tot, bad]:
                    _fail(fails, sc, 'hit_count-after-indexing', list(p.hit_count), [tot, bad])
    return cases, fails


def database(tier='quick'):
    from harness import database_standin
    return database_standin.search(tier)


def numpy_indices(tier='quick'):
    """C02 'including numpy integer types': ds[dtype(i)] behaves exactly like ds[int(i)] for fixed-width numpy scalars,
    on pipelines long enough (300 examples) that narrow index arithmetic would wrap around or overflow."""
    import warnings
    import numpy as np
    import lazy_dataset
    fails, cases = [], 0
    n = 300
    src = lazy_dataset.new({'k%03d' % i: i for i in range(n)})
    lst = lazy_dataset.new(list(range(n)))
    pipes = {
        'dict': src, 'list': lst, 'map': src.map(lambda x: x + 1), 'slice': src[10:], 'slice-list': src[list(range(0, n, 2))],
        'batch(4)': src.batch(4), 'batch(7,drop_last)': src.batch(7, drop_last=True), 'concatenate': lst.concatenate(lst),
        'tile(2)': lst.tile(2), 'cache': src.cache(), 'wu': lazy_dataset.from_list(list(range(n)), immutable_warranty='wu'),
        'intersperse': lst.intersperse(lst[:100]), 'zip': lst.zip(lst), 'items': src.items(), 'key_zip': src.key_zip(src),
        'shuffle-once': src.shuffle(rng=np.random.RandomState(0)), 'sort': src.sort(lambda x: -x),
        'profiling': lazy_dataset.core.ProfilingDataset(src.batch(4)),
    }
    dts = (np.int8, np.uint8, np.int16, np.uint16, np.int32, np.int64) if tier != 'quick' else (np.int8, np.uint8, np.int16)
    for name, ds in pipes.items():
        m = len(ds)
        idx = sorted({0, 1, 2, 63, 64, 65, 74, 100, 126, 127, 128, 129, 200, 254, 255, 256, m - 1, m, m + 1,
                      -1, -2, -37, -100, -127, -128, -129, -m, -m - 1})
        for dt in dts:
            for i in idx:
                try:
                    v = dt(i)
                except OverflowError:
                    continue
                cases += 1
                with warnings.catch_warnings():
                    warnings.simplefilter('ignore')
                    try:
                        got = ('v', ds[v])
                    except Exception as e:      # noqa
                        got = ('e', type(e).__name__)
                try:
                    exp = ('v', ds[int(i)])
                except Exception as e:          # noqa
                    exp = ('e', type(e).__name__)
                if got != exp:
                    _fail(fails, '%s (300 source examples)' % name, 'ds[np.%s(%d)]' % (dt.__name__, i), got, exp)
    return cases, fails


def offered_lengths(tier='quick'):
    """C02, second sentence: whenever len(ds) is offered it equals the number of examples one iteration yields -- checked
    on stages of data-dependent size (lazy apply, filter, catch, unbatch, dynamic buckets, prefetch) and stacks on them."""
    import numpy as np
    import lazy_dataset
    fails, cases = [], 0
    for n in (0, 1, 2, 5, 8):
        src = lazy_dataset.new({'k%d' % i: i for i in range(n)})

        def odd(x):
            return x % 2 == 1

        def boom(x):
            if x % 3 == 0:
                raise lazy_dataset.FilterException()
            return x
        bases = {
            'apply(lazy, ds[:n//2])': src.apply(lambda d: d[:len(d) // 2], lazy=True),
            'apply(lazy, filter eager)': src.apply(lambda d: d.filter(odd, lazy=False), lazy=True),
            'apply(lazy, tile 2)': src.apply(lambda d: d.tile(2), lazy=True),
            'apply(lazy, shuffle)': src.apply(lambda d: d.shuffle(rng=np.random.RandomState(1)), lazy=True),
            'filter': src.filter(odd), 'map.catch': src.map(boom).catch(), 'batch.unbatch': src.batch(2).unbatch(),
            'reshuffle': src.shuffle(reshuffle=True, rng=np.random.RandomState(0)),
            'local-shuffle': src.shuffle(reshuffle=True, buffer_size=3, rng=np.random.RandomState(0)),
            'prefetch(1,2)': src.prefetch(1, 2), 'prefetch catch': src.map(boom).prefetch(1, 2, catch_filter_exception=True),
        }
        if n:
            bases['dynamic buckets'] = src.map(lambda x: {'len': x + 1}).batch_dynamic_time_series_bucket(
                2, len_key='len', max_padding_rate=0.5)
        # combinations of a sized input with one of data-dependent size: the constructor may refuse them; what it accepts must
        # not offer a wrong length
        combos = {'zip(ds, %s)': lambda a, b: a.zip(b), 'zip(%s, ds)': lambda a, b: b.zip(a), 'lazy_dataset.zip(ds, %s)': lambda a, b: lazy_dataset.zip(a, b),
                  'concatenate(ds, %s)': lambda a, b: a.concatenate(b), 'concatenate(%s, ds)': lambda a, b: b.concatenate(a),
                  'intersperse(ds, %s)': lambda a, b: a.intersperse(b), 'intersperse(%s, ds)': lambda a, b: b.intersperse(a)}
        for bname in ('filter', 'map.catch', 'batch.unbatch', 'prefetch catch'):
            for cname, mk in combos.items():
                try:
                    bases[cname % bname] = mk(src, bases[bname])
                except Exception:      # noqa  (refused at construction: nothing is offered)
                    pass
        stacked = {}
        for name, ds in bases.items():
            stacked[name] = ds
            stacked[name + '.map'] = ds.map(lambda x: x)
            stacked[name + '.batch(2)'] = ds.batch(2)
            stacked[name + '.local-shuffle'] = ds.shuffle(reshuffle=True, buffer_size=2, rng=np.random.RandomState(2))
        for name, ds in stacked.items():
            cases += 1
            try:
                ln = len(ds)
            except TypeError:
                continue
            except Exception as e:      # noqa
                _fail(fails, '%s over %d examples' % (name, n), 'len refuses with TypeError', type(e).__name__, 'TypeError')
                continue
            try:
                cnt = sum(1 for _ in ds)
            except Exception as e:      # noqa
                continue
            if ln != cnt:
                _fail(fails, '%s over %d examples' % (name, n), 'len == number of yielded examples', ln, cnt)
    return cases, fails


def c02_native(tier='quick'):
    c1, f1 = numpy_indices(tier)
    c2, f2 = offered_lengths(tier)
    return c1 + c2, f1 + f2


import collections as _collections
_NT = _collections.namedtuple('_NT', 'v arr meta')      # module level: picklable


def _obj_array(items):
    import numpy as np
    a = np.empty(len(items), dtype=object)
    for i, it in enumerate(items):
        a[i] = it
    return a


def isolation_more(tier='quick'):
    """C09 (continued): example shapes other than dicts (tuples / namedtuples holding mutable parts), and mutation INSIDE a
    running first-epoch loop (`for x in ds: mutate(x)`), over items(), through a copy, and with an aborted epoch."""
    import tempfile
    import warnings
    import numpy as np
    import lazy_dataset
    warnings.simplefilter('ignore')
    fails, cases = [], 0
    NT = _NT

    shapes = {
        'dict': (lambda i: {'v': [i, i + 1], 'arr': np.arange(3) + i, 'meta': {'k': i}},
                 lambda x: (list(x['v']), x['arr'].tolist(), dict(x['meta'])),
                 lambda x: (x['v'].append(99), x['arr'].__setitem__(0, 77), x['meta'].__setitem__('new', 1))),
        'tuple': (lambda i: ([i, i + 1], np.arange(3) + i, {'k': i}),
                  lambda x: (list(x[0]), x[1].tolist(), dict(x[2])),
                  lambda x: (x[0].append(99), x[1].__setitem__(0, 77), x[2].__setitem__('new', 1))),
        'namedtuple': (lambda i: NT([i, i + 1], np.arange(3) + i, {'k': i}),
                       lambda x: (list(x.v), x.arr.tolist(), dict(x.meta)),
                       lambda x: (x.v.append(99), x.arr.__setitem__(0, 77), x.meta.__setitem__('new', 1))),
        # a bare, large numpy array as the example (storage back ends may treat big arrays specially)
        'big-ndarray': (lambda i: np.arange(10000) + i,
                        lambda x: (x[:3].tolist(), int(x[-1]), int(x.sum() % 1000003)),
                        lambda x: (x.__setitem__(0, 77), x.__setitem__(-1, -5))),
        'list': (lambda i: [[i, i + 1], np.arange(3) + i, {'k': i}],
                 lambda x: (list(x[0]), x[1].tolist(), dict(x[2])),
                 lambda x: (x[0].append(99), x[1].__setitem__(0, 77), x[2].__setitem__('new', 1))),
        # an object array holding mutable python objects (ragged segment lists, arrays of dicts): ndarray.copy() is shallow for it
        'object-array': (lambda i: {'segments': _obj_array([[i, i + 1], {'k': i}])},
                         lambda x: (list(x['segments'][0]), dict(x['segments'][1])),
                         lambda x: (x['segments'][0].append(99), x['segments'][1].__setitem__('new', 1))),
        # an example that cannot be pickled (holds a lambda): a storage that refuses it hands nothing out -- fine; one that
        # accepts it must still isolate it
        'unpicklable': (lambda i: {'v': [i, i + 1], 'fn': (lambda: i)},
                        lambda x: (list(x['v']),),
                        lambda x: (x['v'].append(99),)),
    }
    may_refuse = {'unpicklable'}

    def loops(ds, keyed, mutate):
        def full():
            for x in ds:
                mutate(x)

        def full_items():
            for _, x in ds.items():
                mutate(x)

        def aborted():
            it = iter(ds)
            mutate(next(it))
            next(it, None)
            del it

        def via_copy():
            for x in ds.copy(freeze=True) if False else ds.copy():
                mutate(x)

        def interleaved():
            it = iter(ds)
            x0 = next(it)
            x1 = next(it, None)
            mutate(x0)
            if x1 is not None:
                mutate(x1)
            list(it)
        def second_epoch():
            list(ds)
            for x in ds:
                mutate(x)

        def index_hits():
            for i in range(3):
                ds[i]
            for i in range(3):
                mutate(ds[i])
                mutate(ds[i - 3])
        hs = [('for x in ds: mutate(x)', full), ('aborted epoch after mutating the first example', aborted),
              ('one full epoch, then mutate every example of the second epoch', second_epoch),
              ('read every index, then mutate what the second reads return', index_hits),
              ('for x in ds.copy(): mutate(x)', via_copy), ('mutate after the next example was requested', interleaved)]
        if keyed:
            hs.append(('for k, x in ds.items(): mutate(x)', full_items))
        return hs

    def snap(ds, view):
        return [view(x) for x in ds]
    for sname, (mk, view, mutate) in shapes.items():
        pristine = [view(mk(i)) for i in range(3)]
        builders = []
        for mode in ('pickle', 'copy', 'wu'):
            builders.append(('new(list of %s, %s)' % (sname, mode), False,
                             (lambda mode=mode: lazy_dataset.new([mk(i) for i in range(3)], immutable_warranty=mode) if mode != 'wu'
                              else lazy_dataset.from_list([mk(i) for i in range(3)], immutable_warranty='wu'))))
            if mode != 'wu':
                builders.append(('new(dict of %s, %s)' % (sname, mode), True,
                                 (lambda mode=mode: lazy_dataset.new({'k%d' % i: mk(i) for i in range(3)}, immutable_warranty=mode))))
        builders.append(('map(fresh %s).cache()' % sname, True,
                         lambda: lazy_dataset.new({'k%d' % i: i for i in range(3)}).map(lambda i: mk(i)).cache()))
        builders.append(("CacheDataset(map(fresh %s), immutable_warranty='copy')" % sname, True,
                         lambda: lazy_dataset.core.CacheDataset(lazy_dataset.new({'k%d' % i: i for i in range(3)}).map(lambda i: mk(i)),
                                                                immutable_warranty='copy')))
        builders.append(('map(fresh %s).diskcache()' % sname, True,
                         lambda: lazy_dataset.new({'k%d' % i: i for i in range(3)}).map(lambda i: mk(i)).diskcache(
                             _scratch_dir() + '/c')))
        for bname, keyed, build in builders:
            try:
                n_h = len(loops(build(), keyed, mutate))
            except Exception:      # noqa
                if sname in may_refuse:
                    continue          # refused at construction: nothing is stored, nothing handed out
                raise
            for hi in range(n_h):
                cases += 1
                ds = build()
                hname, h = loops(ds, keyed, mutate)[hi]
                try:
                    h()
                except Exception as e:      # noqa
                    if sname in may_refuse:
                        continue
                    _fail(fails, '%s; %s' % (bname, hname), 'history runs', type(e).__name__ + ': ' + str(e)[:80], 'no exception')
                    continue
                for path, got in (('iteration', lambda: snap(ds, view)), ('index', lambda: [view(ds[i]) for i in range(3)]),
                                  ('copy', lambda: snap(ds.copy(), view))):
                    try:
                        g = got()
                    except Exception:      # noqa
                        if sname in may_refuse:
                            continue
                        raise
                    if g != pristine:
                        _fail(fails, '%s; %s; then read by %s' % (bname, hname, path), 'isolation-of-handed-out-examples', g, pristine)
                        break
    return cases, fails


def snapshot_isolation(tier='quick'):
    """C09 for snapshots: from_dataset(src) / new(src) / src.cache(lazy=False) of a source stored in ANY mode is isolated
    from the caller's original objects (pickle is the default mode of the snapshot) and from the examples it hands out"""
    import warnings
    import numpy as np
    import lazy_dataset
    warnings.simplefilter('ignore')
    fails, cases = [], 0

    def data(kind):
        d = {'k%d' % i: {'v': [i], 'arr': np.arange(3) + i} for i in range(3)}
        return d if kind == 'dict' else list(d.values())

    def view(ds):
        return [(list(x['v']), x['arr'].tolist()) for x in ds]
    pristine = view(data('list'))
    for kind in ('dict', 'list'):
        for mode in ('pickle', 'copy') + (('wu',) if kind == 'list' else ()):
            snaps = {'from_dataset(src)': lambda s_: lazy_dataset.from_dataset(s_), 'new(src)': lambda s_: lazy_dataset.new(s_),
                     'src.cache(lazy=False)': lambda s_: s_.cache(lazy=False),
                     'from_dataset(src.map(id))': lambda s_: lazy_dataset.from_dataset(s_.map(lambda x: x)),
                     "from_dataset(src, 'copy')": lambda s_: lazy_dataset.from_dataset(s_, immutable_warranty='copy')}
            for sname, mk in snaps.items():
                cases += 1
                orig = data(kind)
                src = lazy_dataset.new(orig, immutable_warranty=mode) if mode != 'wu' else lazy_dataset.from_list(orig, immutable_warranty='wu')
                snap = mk(src)
                sc = '%s with src = new(%s, %r)' % (sname, kind, mode)
                # 1. the caller mutates the original container afterwards (visible through a copy-mode source, never
                #    through a snapshot)
                for x in (orig.values() if kind == 'dict' else orig):
                    x['v'].append(99)
                    x['arr'][0] = 77
                if view(snap) != pristine:
                    _fail(fails, sc, 'a snapshot is isolated from the original objects', view(snap), pristine)
                    continue
                # 2. examples handed out by the snapshot
                for x in snap:
                    x['v'].append(5)
                snap[0]['arr'][1] = -1
                if view(snap) != pristine:
                    _fail(fails, sc, 'a snapshot is isolated from the examples it hands out', view(snap), pristine)
    return cases, fails


def c09_native(tier='quick'):
    c0, f0 = snapshot_isolation(tier)
    if f0:
        return c0, f0
    c1, f1 = isolation(tier)
    c2, f2 = isolation_more(tier)
    return c1 + c2, f1 + f2


def profiling_stage_counts(tier='quick'):
    """C20: per-stage hit counts on linear element-wise pipelines (map, slice, one-time shuffle, reshuffle, local shuffle,
    catch, single-thread prefetch, cache): every stage is asked for exactly the examples the consumer receives, so after E
    full epochs every wrapper node must report E * n hits and no failed hits; and the profiled pipeline delivers what an
    identically seeded unprofiled twin delivers."""
    import numpy as np
    import lazy_dataset
    from lazy_dataset.core import ProfilingDataset
    fails, cases = [], 0

    def f(x):
        return x + 1

    def builders(n):
        def src():
            return lazy_dataset.new({'k%d' % i: i for i in range(n)})
        return {
            'map': lambda: src().map(f),
            'map.slice': lambda: src().map(f)[1:],
            'map.shuffle(False)': lambda: src().map(f).shuffle(rng=np.random.RandomState(3)),
            'map.reshuffle': lambda: src().map(f).shuffle(reshuffle=True, rng=np.random.RandomState(3)),
            'map.reshuffle.catch': lambda: src().map(f).shuffle(reshuffle=True, rng=np.random.RandomState(3)).catch(),
            'map.reshuffle.map.catch': lambda: src().map(f).shuffle(reshuffle=True, rng=np.random.RandomState(3)).map(f).catch(),
            'map.reshuffle.prefetch(1,2)': lambda: src().map(f).shuffle(reshuffle=True, rng=np.random.RandomState(3)).prefetch(1, 2),
            'map.local-shuffle.catch': lambda: src().map(f).shuffle(reshuffle=True, buffer_size=2, rng=np.random.RandomState(3)).catch(),
            'map.cache.map': lambda: src().map(f).cache().map(f),
            'map.sort.catch': lambda: src().map(f).sort(lambda x: -x).catch(),
        }

    def nodes(p):
        out = []
        cur = p
        while isinstance(cur, ProfilingDataset):
            out.append(cur)
            inner = cur.input_dataset
            cur = getattr(inner, 'input_dataset', None)
        return out
    for n in ((3, 6) if tier == 'quick' else (1, 3, 6, 9)):
        for name, build in builders(n).items():
            cases += 1
            sc = 'ProfilingDataset(%s) over %d examples' % (name, n)
            try:
                plain = build()
                e_plain = [list(plain) for _ in range(2)]
            except Exception:      # noqa
                continue            # the pipeline itself is refused (e.g. catch over a local shuffle): nothing to profile
            try:
                p = ProfilingDataset(build())
                e_prof = [list(p) for _ in range(2)]
            except Exception as e:      # noqa
                _fail(fails, sc, 'profiled pipeline runs like its twin', '%s: %s' % (type(e).__name__, str(e)[:100]), 'no exception')
                continue
            if e_prof != e_plain:
                _fail(fails, sc, 'same examples and order as an identically seeded unprofiled twin', e_prof, e_plain)
                continue
            delivered = sum(len(e) for e in e_prof)
            if 'cache' in name:
                continue        # stages below a cache are legitimately asked once only
            for depth, node in enumerate(nodes(p)):
                if list(node.hit_count) != [delivered, 0]:
                    _fail(fails, sc, 'hit count of wrapper node %d (%s)' % (depth, type(node.input_dataset).__name__),
                          list(node.hit_count), [delivered, 0])
                    break
    # (key, example) pairs through the wrapper over several epochs: a per-epoch reshuffle below it is frozen anew by every
    # catch / multi-worker prefetch epoch -- each pair delivered must be a pair of the source, the keys a permutation of its
    # keys, exactly as for the unprofiled twin
    os.environ.setdefault('OMP_NUM_THREADS', '1')
    os.environ.setdefault('MKL_NUM_THREADS', '1')
    for n in ((4, 7) if tier == 'quick' else (2, 4, 7, 11)):
        def src():
            return lazy_dataset.new({'k%d' % i: i for i in range(n)})
        pair_builders = {
            'reshuffle.items().catch()': lambda: src().shuffle(reshuffle=True, rng=np.random.RandomState(7)).items().catch(),
            'reshuffle.catch().items()': lambda: src().shuffle(reshuffle=True, rng=np.random.RandomState(7)).catch().items(),
            'reshuffle.items().prefetch(2, 4)': lambda: src().shuffle(reshuffle=True, rng=np.random.RandomState(7)).items().prefetch(2, 4),
            'reshuffle.map.prefetch(2, 2).items()': lambda: src().shuffle(reshuffle=True, rng=np.random.RandomState(7)).map(f).prefetch(2, 2).items(),
            'reshuffle.items()': lambda: src().shuffle(reshuffle=True, rng=np.random.RandomState(7)).items(),
        }
        for name, build in pair_builders.items():
            cases += 1
            sc = 'ProfilingDataset(%s) over %d examples, 4 epochs' % (name, n)
            try:
                plain = build()
                e_plain = [list(plain) for _ in range(4)]
            except Exception:      # noqa
                continue
            try:
                p = ProfilingDataset(build())
                e_prof = [list(p) for _ in range(4)]
            except Exception as e:      # noqa
                _fail(fails, sc, 'profiled pipeline runs like its twin', '%s: %s' % (type(e).__name__, str(e)[:100]), 'no exception')
                continue
            if e_prof != e_plain:
                _fail(fails, sc, 'same (key, example) pairs and order as an identically seeded unprofiled twin', e_prof, e_plain)
    return cases, fails


def c20_native(tier='quick'):
    c1, f1 = profiling_transparency(tier)
    c2, f2 = profiling_stage_counts(tier)
    return c1 + c2, f1 + f2


def parallel_equals_sequential(tier='quick'):
    """C04 (and the prefetch clause of C13): ds.prefetch(w, b) / ds.map(f, num_workers=w, buffer_size=b) deliver what the
    plain sequential pipeline delivers -- values AND (key, value) pairs, over several epochs (a per-epoch reshuffle below
    them is frozen per epoch, not once), for datasets shorter and longer than the buffer, thread backend."""
    import numpy as np
    import lazy_dataset
    fails, cases = [], 0

    def f(x):
        return x * 10

    def epochs(ds, items, e=3):
        out = []
        for _ in range(e):
            out.append(list(ds.items()) if items else list(ds))
        return out
    workers = (1, 2) if tier == 'quick' else (1, 2, 3)
    buffers = (1, 2, 4) if tier == 'quick' else (1, 2, 3, 4, 7)
    for n in ((0, 1, 2, 5, 9) if tier == 'quick' else (0, 1, 2, 3, 5, 9, 12)):
        def src():
            return lazy_dataset.new({'k%d' % i: i for i in range(n)})
        for w in workers:
            for b in buffers:
                if b < w:
                    continue
                variants = {
                    'map(f, num_workers)': (lambda: src().map(f), lambda: src().map(f, num_workers=w, buffer_size=b)),
                    'map(f).prefetch': (lambda: src().map(f), lambda: src().map(f).prefetch(w, b)),
                    'reshuffle.map(f).prefetch': (lambda: src().shuffle(True, rng=np.random.RandomState(5)).map(f),
                                                  lambda: src().shuffle(True, rng=np.random.RandomState(5)).map(f).prefetch(w, b)),
                    'reshuffle.tile(2).prefetch': (lambda: src().shuffle(True, rng=np.random.RandomState(5)).tile(2),
                                                   lambda: src().shuffle(True, rng=np.random.RandomState(5)).tile(2).prefetch(w, b)),
                    'map(f).prefetch.map(f, num_workers)': (lambda: src().map(f).map(f),
                                                             lambda: src().map(f).prefetch(w, b).map(f, num_workers=w, buffer_size=b)),
                }
                for name, (seq, par) in variants.items():
                    for items in (False, True):
                        if items and 'tile' in name:
                            continue          # duplicate keys: items() only
                        if n == 0 and 'tile' in name:
                            continue
                        cases += 1
                        try:
                            exp = epochs(seq(), items)
                        except Exception:      # noqa
                            continue
                        try:
                            got = epochs(par(), items)
                        except Exception as e:      # noqa
                            got = '%s: %s' % (type(e).__name__, str(e)[:80])
                        if got != exp:
                            _fail(fails, '%s, n=%d workers=%d buffer=%d, %s' % (name, n, w, b, 'items()' if items else 'values'),
                                  'parallel = sequential over 3 epochs', got, exp)
                            if len(fails) > 5:
                                return cases, fails
                        # reported length
                        try:
                            ls, lp = len(seq()), len(par())
                            if ls != lp:
                                _fail(fails, '%s, n=%d workers=%d buffer=%d' % (name, n, w, b), 'same length', lp, ls)
                        except TypeError:
                            pass
    # batch_map with workers: every batch keeps the order of its examples, also when an earlier example takes longer
    import time

    def slow_first(x):
        time.sleep(0.02 if x % 3 == 0 else 0.0)
        return x * 10
    for n, bs in ((7, 3), (6, 2), (5, 5)):
        for w in (1, 2, 3):
            for backend in ('t',):
                cases += 1
                base = lazy_dataset.new({'k%d' % i: i for i in range(n)})
                exp = list(base.batch(bs).batch_map(slow_first))
                try:
                    got = list(base.batch(bs).batch_map(slow_first, num_workers=w, buffer_size=w + 1, backend=backend))
                except Exception as e:      # noqa
                    got = '%s: %s' % (type(e).__name__, str(e)[:80])
                if got != exp:
                    _fail(fails, 'batch(%d).batch_map(f slow on every 3rd example, num_workers=%d) over %d examples' % (bs, w, n),
                          'parallel = sequential', got, exp)
    return cases, fails


def diskcache_lifecycles(tier='quick'):
    """C11: histories of open / access / copy / release / reopen over one cache directory, for every combination of
    cache_dir given or None, reuse and clear: values equal the pipeline values, a reopened cache (reuse=True) serves the
    stored examples without recomputing, a non-empty directory with reuse=False is refused, and the directory disappears
    when the LAST dataset sharing the cache is released iff clear=True (never earlier, never otherwise)."""
    import gc
    import os
    import shutil
    import tempfile
    import warnings
    import lazy_dataset
    warnings.simplefilter('ignore')
    fails, cases = [], 0
    n = 4
    root = tempfile.mkdtemp(prefix='verif_c11_')
    try:
        for given in (True, False):
            for clear in (True, False):
                for order in ('release-original-first', 'release-copy-first', 'no-copy'):
                    for fill in (0, 2, n):
                        cases += 1
                        calls = []

                        def f(x, calls=calls):
                            calls.append(x)
                            return {'v': x * 10}
                        d = os.path.join(root, 'c%d' % cases) if given else None
                        sc = 'diskcache(cache_dir=%s, clear=%s), %d of %d examples read, %s' % ('given' if given else 'None', clear, fill, n, order)
                        src = lazy_dataset.new(list(range(n))).map(f)
                        ds = src.diskcache(d, reuse=False, clear=clear)
                        directory = str(ds._cache.cache.directory)
                        got = [ds[i] for i in range(fill)]
                        if got != [{'v': i * 10} for i in range(fill)]:
                            _fail(fails, sc, 'values', got, 'pipeline values')
                        cp = ds.copy(freeze=True) if order != 'no-copy' else None
                        survivors = []
                        if order == 'release-original-first':
                            del ds
                            survivors = [cp]
                        elif order == 'release-copy-first':
                            del cp
                            cp = None
                            survivors = [ds]
                        gc.collect()
                        if survivors:
                            if not os.path.isdir(directory):
                                _fail(fails, sc, 'directory stays while a dataset sharing the cache is alive', 'removed', 'exists')
                            else:
                                try:
                                    rest = [survivors[0][i] for i in range(n)]
                                    if rest != [{'v': i * 10} for i in range(n)]:
                                        _fail(fails, sc, 'values through the survivor', rest, 'pipeline values')
                                except Exception as e:      # noqa
                                    _fail(fails, sc, 'the survivor keeps working', '%s: %s' % (type(e).__name__, str(e)[:80]), 'values')
                            filled = n
                        else:
                            filled = fill
                        survivors = None
                        ds = cp = None
                        gc.collect()
                        exists = os.path.isdir(directory)
                        if exists == clear:
                            _fail(fails, sc, 'directory removed after the last release iff clear=True',
                                  'exists' if exists else 'removed', 'removed' if clear else 'exists')
                        if not clear and exists:
                            # reopen: reuse=False is refused for a non-empty directory, reuse=True serves without recomputing
                            if filled:
                                try:
                                    src.diskcache(directory, reuse=False, clear=False)
                                    _fail(fails, sc, 'a non-empty directory with reuse=False is refused', 'accepted', 'RuntimeError')
                                except RuntimeError:
                                    pass
                            del calls[:]
                            ds2 = src.diskcache(directory, reuse=True, clear=True)
                            again = [ds2[i] for i in range(n)]
                            if again != [{'v': i * 10} for i in range(n)]:
                                _fail(fails, sc, 'values after reopening', again, 'pipeline values')
                            if sorted(calls) != list(range(filled, n)):
                                _fail(fails, sc, 'a reopened cache serves stored examples without recomputing', sorted(calls), list(range(filled, n)))
                            del ds2
                            gc.collect()
                            if os.path.isdir(directory):
                                _fail(fails, sc, 'reopened with clear=True: removed at release', 'exists', 'removed')
                        if len(fails) > 4:
                            return cases, fails
        # every access path stores under one identity: what the writer read by key / index of either sign / iteration / items
        # is served to a reader (same process, new dataset, reuse=True) by ANY path without recomputing
        keys = ['k%d' % i for i in range(n)]
        paths = {'key': lambda d, i: d[keys[i]], 'index': lambda d, i: d[i], 'negative index': lambda d, i: d[i - n],
                 'iteration': lambda d, i: list(d)[i], 'items': lambda d, i: dict(list(d.items()))[keys[i]],
                 'slice': lambda d, i: list(d[i:i + 1])[0], 'copy': lambda d, i: d.copy(freeze=True)[i]}
        for wname, wpath in paths.items():
            for rname, rpath in paths.items():
                cases += 1
                calls = []

                def f(x, calls=calls):
                    calls.append(x)
                    return {'v': x * 10}
                d = os.path.join(root, 'p%d' % cases)
                sc = 'diskcache over a dict dataset: written through %s, read through %s' % (wname, rname)
                src = lazy_dataset.new(dict(zip(keys, range(n)))).map(f)
                ds = src.diskcache(d, reuse=False, clear=False)
                w = [wpath(ds, i) for i in (1, 2)]
                whole = wname in ('iteration', 'items')
                del calls[:]
                same = [rpath(ds, i) for i in (1, 2)]          # the writer itself, other path
                if same != w or (calls and not (rname in ('iteration', 'items') and set(calls) <= {0, 3} and not whole)):
                    _fail(fails, sc + ' (same dataset)', 'stored examples are served without recomputing', (same, sorted(calls)), (w, 'no call for 1, 2'))
                del ds
                gc.collect()
                del calls[:]
                ds2 = src.diskcache(d, reuse=True, clear=True)
                r = [rpath(ds2, i) for i in (1, 2)]
                if r != w or any(c in (1, 2) for c in calls):
                    _fail(fails, sc + ' (reopened, reuse=True)', 'stored examples are served without recomputing', (r, sorted(calls)), (w, 'no call for 1, 2'))
                del ds2
                gc.collect()
                if os.path.isdir(d):
                    _fail(fails, sc, 'reopened with clear=True: removed at release', 'exists', 'removed')
                if len(fails) > 4:
                    return cases, fails
        # reopen with clear=True and release WITHOUT reading anything (also: only a copy taken): the directory goes
        for taken in ('nothing', 'copy only', 'len only'):
            cases += 1
            d = os.path.join(root, 'q%d' % cases)
            src = lazy_dataset.new(list(range(n))).map(lambda x: {'v': x})
            ds = src.diskcache(d, reuse=False, clear=False)
            ds[0]
            del ds
            gc.collect()
            ds2 = src.diskcache(d, reuse=True, clear=True)
            if taken == 'copy only':
                c2 = ds2.copy(freeze=True)
                del c2
            elif taken == 'len only':
                len(ds2)
            del ds2
            gc.collect()
            if os.path.isdir(d):
                _fail(fails, 'diskcache(existing directory, reuse=True, clear=True) released after %s' % taken,
                      'directory removed after the last release iff clear=True', 'exists', 'removed')
    finally:
        shutil.rmtree(root, ignore_errors=True)
    return cases, fails


def _c11_child(directory, n, delay):
    import time
    import lazy_dataset
    ds = lazy_dataset.new(list(range(n))).map(_c11_value).diskcache(directory, reuse=True, clear=False)
    fd = os.open(directory + '.progress', os.O_WRONLY | os.O_CREAT | os.O_APPEND)
    for i in range(n):
        ds[i]
        # the access has returned: the example counts as stored from here on (independent record, durable before we go on)
        os.write(fd, b'%d\n' % i)
        os.fsync(fd)
        time.sleep(delay)


def _c11_value(x):
    return {'v': x * 10, 'payload': list(range(x, x + 50))}


def diskcache_kill_points(tier='quick'):
    """C11, crash points: a child process that is populating the cache is killed (SIGKILL) at a grid of instants; a new
    dataset on the same directory with reuse=True then serves every example correctly (stored ones without recomputing,
    none corrupt or misplaced) -- bounded: kill instants 0 .. 120 ms in steps, 12 examples."""
    import multiprocessing
    import os
    import shutil
    import signal
    import tempfile
    import time
    import warnings
    import lazy_dataset
    warnings.simplefilter('ignore')
    fails, cases = [], 0
    n = 12
    ctx = multiprocessing.get_context('fork')
    root = tempfile.mkdtemp(prefix='verif_c11k_')
    try:
        instants = (0.0, 0.02, 0.05, 0.09) if tier == 'quick' else tuple(i * 0.01 for i in range(0, 16))
        for t in instants:
            cases += 1
            d = os.path.join(root, 'k%d' % cases)
            p = ctx.Process(target=_c11_child, args=(d, n, 0.008))
            p.start()
            time.sleep(t)
            try:
                os.kill(p.pid, signal.SIGKILL)
            except ProcessLookupError:
                pass
            p.join(5)
            sc = 'child populating %d examples killed after %.0f ms, then reopened with reuse=True' % (n, t * 1000)
            calls = []

            def f(x, calls=calls):
                calls.append(x)
                return _c11_value(x)
            try:
                ds = lazy_dataset.new(list(range(n))).map(f).diskcache(d, reuse=True, clear=True)
                stored = len(ds._cache)
                got = [ds[i] for i in range(n)]
            except Exception as e:      # noqa
                _fail(fails, sc, 'a killed writer leaves a usable cache', '%s: %s' % (type(e).__name__, str(e)[:100]), 'values')
                continue
            if got != [_c11_value(i) for i in range(n)]:
                _fail(fails, sc, 'never serves a corrupt or misplaced example', got, 'pipeline values')
            if len(calls) != n - stored:
                _fail(fails, sc, 'stored examples are served without recomputing', 'stored=%d recomputed=%d' % (stored, len(calls)), 'recomputed = %d' % (n - stored))
            try:
                done = [int(x) for x in open(d + '.progress').read().split()]
            except Exception:      # noqa
                done = []
            again = sorted(set(done) & set(calls))
            if again:
                _fail(fails, sc, 'examples whose access had returned in the writer are served without recomputing',
                      'recomputed %r (the writer had finished %r)' % (again, done), 'none of them')
            del ds
    finally:
        shutil.rmtree(root, ignore_errors=True)
    return cases, fails


# ------------------------------------------------------------------ key-less stages: items() refused with the library's signal
def keyless_snapshots(tier='quick'):
    """Every stage class over a key-less (list-backed) input of 0..4 examples: items() is either delivered (never, here) or
    refused with ItemsNotDefined -- the one signal from_dataset / new(ds) understand -- and from_dataset(ds) / new(ds)
    (finite stages) produce the examples of one iteration.  (F27: slice / cache / prefetch; F30: catch / reshuffle.)"""
    os.environ.setdefault('OMP_NUM_THREADS', '1')
    os.environ.setdefault('MKL_NUM_THREADS', '1')
    import numpy as np
    import lazy_dataset
    from lazy_dataset.core import ProfilingDataset, DynamicTimeSeriesBucket
    cases, fails = 0, []
    stages = {
        'map': lambda l: l.map(abs), 'parmap': lambda l: l.map(abs, num_workers=1, buffer_size=2), 'catch': lambda l: l.catch(),
        'map.catch': lambda l: l.map(abs).catch(), 'reshuffle': lambda l: l.shuffle(True, rng=np.random.RandomState(0)),
        'shuffle': lambda l: l.shuffle(rng=np.random.RandomState(0)), 'local-shuffle': lambda l: l.shuffle(True, buffer_size=2, rng=np.random.RandomState(0)),
        'apply': lambda l: l.apply(lambda d: d, lazy=True), 'slice': lambda l: l[1:], 'index-list': lambda l: l[[0] * min(len(l), 1)],
        'sort': lambda l: l.sort(lambda x: -x), 'filter': lambda l: l.filter(bool), 'filter-eager': lambda l: l.filter(bool, lazy=False),
        'concatenate': lambda l: l.concatenate(l), 'tile': lambda l: l.tile(2), 'intersperse': lambda l: l.intersperse(l) if len(l) else l,
        'zip': lambda l: l.zip(l), 'batch': lambda l: l.batch(2), 'batch.unbatch': lambda l: l.batch(2).unbatch(),
        'prefetch(1)': lambda l: l.prefetch(1, 2), 'prefetch(2)': lambda l: l.prefetch(2, 2), 'cache': lambda l: l.cache(),
        'profiling': lambda l: ProfilingDataset(l), 'split': lambda l: l.split(2)[1] if len(l) >= 2 else l, 'copy': lambda l: l.copy(),
        'reshuffle.catch': lambda l: l.shuffle(True, rng=np.random.RandomState(0)).map(abs), 'catch.slice-free': lambda l: l.catch().map(abs),
        'bucket': lambda l: l.batch_dynamic_time_series_bucket(batch_size=2, len_key=lambda x: x, max_padding_rate=0.5),
    }
    sizes = (0, 1, 3) if tier == 'quick' else (0, 1, 2, 3, 4)
    for n in sizes:
        for name, mk in stages.items():
            src = lazy_dataset.new([i + 1 for i in range(n)])
            try:
                ds = mk(src)
            except Exception as e:      # noqa
                fails.append({'scenario': '%s over list[%d]' % (name, n), 'mismatches': [{'clause': 'construction', 'observed': type(e).__name__, 'expected': 'builds'}]})
                continue
            cases += 1
            try:
                got = list(ds.items())
                out = 'delivered %r' % (got,)
            except BaseException as e:      # noqa
                out = type(e).__name__
            if out != 'ItemsNotDefined':
                fails.append({'scenario': '%s over list[%d]: items()' % (name, n), 'mismatches': [{'clause': 'items-refused-with-the-ItemsNotDefined-signal', 'observed': out, 'expected': 'ItemsNotDefined'}]})
                continue
            want = sorted(repr(x) for x in mk(lazy_dataset.new([i + 1 for i in range(n)])))
            for how in ('from_dataset', 'new'):
                cases += 1
                try:
                    snap = lazy_dataset.from_dataset(mk(src)) if how == 'from_dataset' else lazy_dataset.new(mk(src))
                    got = sorted(repr(x) for x in snap)
                except BaseException as e:      # noqa
                    got = '%s: %s' % (type(e).__name__, str(e)[:80])
                if got != want:
                    fails.append({'scenario': '%s(%s over list[%d])' % (how, name, n), 'mismatches': [{'clause': 'key-less-snapshot', 'observed': repr(got)[:200], 'expected': repr(want)[:200]}]})
    return cases, fails


# ------------------------------------------------------------------ prefetch(catch_filter_exception=...) (C04, C06, C14)
def prefetch_catch_matrix(tier='quick'):
    """PrefetchDataset / prefetch() with catch_filter_exception in {True, FilterException, A, (A, KeyError)} x workers
    {1, 2} x values / items, over 5 (7) examples of which every subset of up to 2 positions raises one of FilterException,
    a subclass of it, A, a subclass of A, KeyError, ValueError: exactly the examples whose exception is an instance of a
    selected type are omitted, all others arrive in order, the first other exception arrives after every example that
    precedes it."""
    os.environ.setdefault('OMP_NUM_THREADS', '1')
    os.environ.setdefault('MKL_NUM_THREADS', '1')
    import lazy_dataset
    from lazy_dataset import FilterException
    fails, cases = [], 0

    class SubFilter(FilterException):
        pass

    class A(Exception):
        pass

    class SubA(A):
        pass
    n = 5 if tier == 'quick' else 7
    keys = ['k%d' % i for i in range(n)]
    selections = {'True': (True, (FilterException,)), 'FilterException': (FilterException, (FilterException,)),
                  'A': (A, (A,)), '(A, KeyError)': ((A, KeyError), (A, KeyError))}
    excs = [FilterException, SubFilter, A, SubA, KeyError, ValueError]
    subsets = [()] + [(i,) for i in range(n)] + ([(0, 2), (1, n - 1), (n - 2, n - 1)])
    for sel_name, (sel, sel_types) in selections.items():
        for workers, buf in ((1, 2), (2, 2)):
            for bad in subsets:
                for e1, e2 in itertools.product(excs, excs if (len(bad) == 2 and tier != 'quick') else excs[:1]):
                    kinds = dict(zip(bad, (e1, e2)))
                    if len(bad) == 2 and tier == 'quick':
                        kinds = {bad[0]: e1, bad[1]: excs[(excs.index(e1) + 2) % len(excs)]}

                    def f(x, kinds=kinds):
                        if x in kinds:
                            raise kinds[x](x)
                        return None if x == 3 else x * 10         # None is an ordinary example
                    want, end = [], None
                    for i in range(n):
                        if i in kinds:
                            if issubclass(kinds[i], sel_types):
                                continue
                            end = kinds[i].__name__
                            break
                        want.append((keys[i], None if i == 3 else i * 10))
                    for items in (False, True):
                        cases += 1
                        ds = lazy_dataset.new(dict(zip(keys, range(n)))).map(f).prefetch(workers, buf, catch_filter_exception=sel)
                        got, gend = [], None
                        try:
                            for x in (ds.items() if items else ds):
                                got.append(x)
                        except BaseException as e:      # noqa
                            gend = type(e).__name__
                        exp = want if items else [v for _, v in want]
                        if got != exp or gend != end:
                            _fail(fails, 'new(dict of %d).map(f raising %s).prefetch(%d, %d, catch_filter_exception=%s)%s'
                                  % (n, {i: k.__name__ for i, k in kinds.items()}, workers, buf, sel_name, '.items()' if items else ''),
                                  'drops-exactly-the-selected-exceptions', (got, gend), (exp, end))
                            if len(fails) >= 3:
                                return cases, fails
    return cases, fails


# ------------------------------------------------------------------ read-ahead at dataset level (C07)
def _slow_g(x):
    import time
    time.sleep(0.03)
    return x


def _fast_g(x):
    return x


def readahead_dataset_level(tier='quick'):
    """C07 measured through the dataset classes (not only on lazy_parallel_map / single_thread_prefetch themselves):
    src.map(f0).map(g, num_workers=w, buffer_size=b, backend=...) and src.map(f0).prefetch(w, b, backend=...) over 24
    examples with a consumer that pauses 0.12 s after each of its first 6 reads: applications of f0 (source examples
    pulled) beyond the examples delivered <= b + 2; applications of g started beyond those delivered <= b (thread
    backends, where they are visible).  Process backends: the source side (f0 runs in the parent for a parallel map)."""
    os.environ.setdefault('OMP_NUM_THREADS', '1')
    os.environ.setdefault('MKL_NUM_THREADS', '1')
    import threading
    import time
    import lazy_dataset
    fails, cases = [], 0
    n = 24
    configs = []
    for w, b in ((1, 1), (1, 3), (2, 2), (2, 4), (3, 3), (4, 4)):
        configs.append(('map(g, num_workers=%d, buffer_size=%d, backend=t)' % (w, b), 'parmap', w, b, 't', _fast_g))
        configs.append(('map(slow g, num_workers=%d, buffer_size=%d, backend=t)' % (w, b), 'parmap', w, b, 't', _slow_g))
    for b in (1, 2, 4):
        configs.append(('prefetch(1, %d)' % b, 'prefetch', 1, b, 't', None))
    configs.append(('prefetch(2, 3)', 'prefetch', 2, 3, 't', None))
    for bk in (('multiprocessing', 'concurrent_mp') if tier == 'quick' else ('multiprocessing', 'concurrent_mp', 'mp', 'dill_mp')):
        configs.append(('map(g, num_workers=2, buffer_size=3, backend=%s)' % bk, 'parmap', 2, 3, bk, _fast_g))
    for label, kind, w, b, bk, g in configs:
        cases += 1
        lock = threading.Lock()
        st = {'pulled': 0, 'started': 0}

        def f0(x):
            with lock:
                st['pulled'] += 1
            return x

        def gl(x, g=g):
            with lock:
                st['started'] += 1
            return g(x)
        src = lazy_dataset.new(list(range(n))).map(f0)
        try:
            if kind == 'parmap':
                ds = src.map(gl if bk == 't' else g, num_workers=w, buffer_size=b, backend=bk)
            else:
                ds = src.prefetch(w, b, backend=bk)
            it = iter(ds)
            worst = worst_started = delivered = 0
            try:
                for _ in range(6):
                    next(it)
                    delivered += 1
                    time.sleep(0.12)
                    with lock:
                        worst = max(worst, st['pulled'] - delivered)
                        worst_started = max(worst_started, st['started'] - delivered)
            finally:
                it.close()
        except Exception as e:      # noqa
            _fail(fails, 'list of %d .map(f0).%s' % (n, label), 'runs', '%s: %s' % (type(e).__name__, str(e)[:100]), 'iterates')
            continue
        # "at every moment": the excess seen by f0 itself at the instant it is applied (consumer reading as fast as it can, then
        # with short pauses), not only at the consumer's pause points
        if bk == 't':
            for pause in (0.0, 0.02):
                st2 = {'pulled': 0, 'delivered': 0, 'worst': 0}

                def f1(x):
                    with lock:
                        st2['pulled'] += 1
                        st2['worst'] = max(st2['worst'], st2['pulled'] - st2['delivered'])
                    return x
                src2 = lazy_dataset.new(list(range(n))).map(f1)
                ds2 = src2.map(g, num_workers=w, buffer_size=b, backend=bk) if kind == 'parmap' else src2.prefetch(w, b, backend=bk)
                it2 = iter(ds2)
                try:
                    for _ in range(12):
                        next(it2)
                        with lock:
                            st2['delivered'] += 1
                        if pause:
                            time.sleep(pause)
                finally:
                    it2.close()
                if st2['worst'] > b + 2:
                    _fail(fails, 'list of %d .map(f0).%s, consumer pausing %.2f s after each read' % (n, label, pause), 'source-read-ahead-at-every-moment',
                          'when f0 was applied, %d examples were pulled beyond those delivered' % st2['worst'], '<= buffer_size + 2 = %d' % (b + 2))
                    break
        if worst > b + 2:
            _fail(fails, 'list of %d .map(f0).%s, consumer pausing 0.12 s after each read' % (n, label), 'source-read-ahead',
                  'f0 applied to %d examples beyond those delivered' % worst, '<= buffer_size + 2 = %d' % (b + 2))
        elif kind == 'parmap' and bk == 't' and worst_started > b:
            _fail(fails, 'list of %d .map(f0).%s, consumer pausing 0.12 s after each read' % (n, label), 'applications-started-ahead',
                  'g started on %d examples beyond those delivered' % worst_started, '<= buffer_size = %d' % b)
        if len(fails) >= 3:
            break
    return cases, fails


# ------------------------------------------------------------------ selections keep their own index data (C03, C12, C13)
def views_alignment(tier='quick'):
    """Selections (`ds[index array]`, `ds[list]`, `ds[key list]`, one-time shuffle, sort, groupby groups, shard, frozen copy
    of a per-epoch reshuffle) over keyed datasets of 1, 3, 6 examples: keys(), items(), iteration, integer and key lookup of
    the view stay aligned with each other AND unchanged while (a) the caller changes the index object it passed in place,
    (b) the dataset the view was taken from goes on iterating / reshuffling, (c) keys() was or was not asked before."""
    import numpy as np
    import lazy_dataset
    fails, cases = [], 0

    def snapshot(v):
        keys = tuple(v.keys())
        vals = list(v)
        items = list(v.items())
        byidx = [v[i] for i in range(len(v))]
        bykey = [v[k] for k in keys]
        return keys, vals, items, byidx, bykey

    def aligned(sn):
        keys, vals, items, byidx, bykey = sn
        return items == list(zip(keys, vals)) and byidx == vals and bykey == vals
    for n in (1, 3, 6):
        keys = ['key%02d' % i for i in range(n)]
        for ask_keys_first in (False, True):
            def src():
                return lazy_dataset.new(dict(zip(keys, range(n))))
            makers = {}
            arr = np.array([(i * 2 + 1) % n for i in range(n)], dtype=np.int64)
            makers['ds[int64 array]'] = (lambda a=arr: (src()[a], lambda: a.__setitem__(slice(None), a[::-1].copy())))
            arr32 = np.array([(i * 2 + 1) % n for i in range(n)], dtype=np.int32)
            makers['ds[int32 array]'] = (lambda a=arr32: (src()[a], lambda: a.__setitem__(slice(None), a[::-1].copy())))
            lst = [(i * 2 + 1) % n for i in range(n)]
            makers['ds[list]'] = (lambda l=lst: (src()[l], lambda: l.reverse()))
            kl = [keys[(i * 2 + 1) % n] for i in range(n)]
            makers['ds[key list]'] = (lambda l=kl: (src()[l], lambda: l.reverse()))

            def frozen():
                r = src().shuffle(True, rng=np.random.RandomState(3))
                fz = r.copy(freeze=True)
                return fz, (lambda: [list(r) for _ in range(3)])
            makers['copy(freeze=True) of a reshuffle'] = frozen

            def frozen_items():
                r = src().shuffle(True, rng=np.random.RandomState(4)).map(lambda x: x)
                fz = r.copy(freeze=True)
                return fz, (lambda: [list(r.items()) for _ in range(2)])
            makers['copy(freeze=True) of reshuffle.map'] = frozen_items
            makers['shuffle()'] = lambda: (src().shuffle(rng=np.random.RandomState(5)), lambda: None)
            makers['sort(key_fn)'] = lambda: (src().sort(lambda x: -x), lambda: None)
            makers['shard'] = lambda: (src().shard(2, -1) if n >= 2 else src().shard(1, 0), lambda: None)
            makers['groupby group'] = lambda: (sorted(src().groupby(lambda x: x % 2).items())[0][1], lambda: None)
            for name, mk in makers.items():
                cases += 1
                try:
                    view, perturb = mk()
                    if ask_keys_first:
                        view.keys()
                    first = snapshot(view)
                    perturb()
                    second = snapshot(view)
                except Exception as e:      # noqa
                    _fail(fails, '%s over %d keyed examples' % (name, n), 'observable', '%s: %s' % (type(e).__name__, str(e)[:100]), 'no exception')
                    continue
                sc = '%s over %d keyed examples%s' % (name, n, ', keys() asked first' if ask_keys_first else '')
                if not aligned(first):
                    _fail(fails, sc, 'keys-items-iteration-lookups-aligned', first, 'aligned')
                elif not aligned(second):
                    _fail(fails, sc + ', after the index object / the parent changed', 'keys-items-iteration-lookups-aligned', second, 'aligned')
                elif second != first:
                    _fail(fails, sc, 'a selection does not follow later changes of the index object or of its parent', second, first)
                if len(fails) >= 4:
                    return cases, fails
    return cases, fails


# ------------------------------------------------------------------ random long access histories over the caches (C10, C11)
def cache_random_histories(tier='quick', kind='memory'):
    """Random long histories (10..14 steps; 150 / 1500 of them, seeded by VERIF_SEED) over a 5-example cache whose upstream
    returns a freshly different mutable value per evaluation: accesses by index of either sign, key, iteration (full and
    aborted), items, slices, index lists, frozen and plain copies, through a single-thread prefetch, in-place mutation of what
    the last access handed out -- and for the disk cache: release and reopen (reuse=True) in the middle.  Every value ever
    returned for an example equals the FIRST one returned for it, and the upstream runs at most once per example."""
    import copy as _copy
    import gc
    import random
    import warnings
    import lazy_dataset
    warnings.simplefilter('ignore')
    os.environ.setdefault('OMP_NUM_THREADS', '1')
    os.environ.setdefault('MKL_NUM_THREADS', '1')
    seed = int(os.environ.get('VERIF_SEED', '0') or 0)
    master = random.Random(31000 + seed + (0 if kind == 'memory' else 7))
    N = 150 if tier == 'quick' else 1500
    n = 5
    keys = ['k%d' % i for i in range(n)]
    fails, cases = [], 0
    for _ in range(N):
        cases += 1
        rnd = random.Random(master.randrange(10 ** 9))
        calls = {}
        cnt = [0]

        def f(x):
            calls[x] = calls.get(x, 0) + 1
            cnt[0] += 1
            return {'x': x, 'fresh': [cnt[0]], 'nested': ({'l': [x]}, x)}
        src = lazy_dataset.new(dict(zip(keys, range(n)))).map(f)
        d = None
        if kind == 'memory':
            ds = src.cache()
        else:
            d = _scratch_dir() + '/h%d' % cases
            ds = src.diskcache(d, reuse=False, clear=False)
        first = {}
        hist = []
        last = []
        bad = None
        for step in range(rnd.randrange(10, 15)):
            op = rnd.choice(['idx', 'neg', 'key', 'iter', 'iter-abort', 'items', 'slice', 'list', 'copy-idx', 'frozen-iter', 'prefetch', 'mutate']
                            + (['reopen'] if kind == 'disk' else []))
            i = rnd.randrange(n)
            got = []
            try:
                if op == 'idx':
                    got = [ds[i]]
                elif op == 'neg':
                    got = [ds[i - n]]
                elif op == 'key':
                    got = [ds[keys[i]]]
                elif op == 'iter':
                    got = list(ds)
                elif op == 'iter-abort':
                    it = iter(ds)
                    got = [next(it) for _ in range(i)]
                    del it
                elif op == 'items':
                    got = [v for _, v in ds.items()]
                elif op == 'slice':
                    got = list(ds[i:])
                elif op == 'list':
                    got = list(ds[[i, (i + 2) % n, i]])
                elif op == 'copy-idx':
                    got = [ds.copy()[i]]
                elif op == 'frozen-iter':
                    got = list(ds.copy(freeze=True))
                elif op == 'prefetch':
                    got = list(ds.prefetch(1, 2))
                elif op == 'mutate':
                    for v in last:
                        v['fresh'].append('M')
                        v['nested'][0]['l'].append('M')
                        v['added'] = 1
                elif op == 'reopen':
                    del ds
                    last = []
                    gc.collect()
                    ds = src.diskcache(d, reuse=True, clear=False)
            except Exception as e:      # noqa
                bad = ('history runs', '%s: %s' % (type(e).__name__, str(e)[:100]), 'no exception')
                hist.append((op, i))
                break
            hist.append((op, i))
            for v in got:
                x = v.get('x') if isinstance(v, dict) else None
                if x not in first:
                    first[x] = _copy.deepcopy(v)
                elif v != first[x]:
                    bad = ('returns-the-first-computed-value', repr(v), repr(first[x]))
                    break
            if bad:
                break
            if op != 'mutate' and got:
                last = got
            if any(c > 1 for c in calls.values()):
                bad = ('computes-each-example-at-most-once', repr(calls), 'all counts <= 1')
                break
        if bad:
            _fail(fails, '%s cache, history %r' % (kind, hist), bad[0], bad[1], bad[2])
            if len(fails) >= 3:
                break
        ds = None
        gc.collect()
    return cases, fails


def cache_random_histories_disk(tier='quick'):
    return cache_random_histories(tier, 'disk')


# ------------------------------------------------------------------ stopping while user code is running (C05)
def _mark_and_sleep(arg):
    import time
    d, x = arg
    open(os.path.join(d, 'started_%d_%d' % (x, os.getpid())), 'w').close()
    time.sleep(0.4)
    return x


def stop_inside_user_code(tier='quick'):
    """C05 at the stop points the instant-function searches cannot reach: (a) close() of a single-thread prefetch while the
    background thread is INSIDE a slow user function (1.5 s): when close() has returned the function has finished, the thread
    is gone and nothing more is applied; (b) close() of a parallel map over process pools ('multiprocessing',
    'concurrent_mp', 'mp') with slow jobs queued behind the running ones: the computations that had not started are cancelled
    (started <= delivered + workers + 1 of 10; + workers + 1 for the call queue of a ProcessPoolExecutor) and none starts after close() has returned."""
    os.environ.setdefault('OMP_NUM_THREADS', '1')
    os.environ.setdefault('MKL_NUM_THREADS', '1')
    import glob
    import threading
    import time
    import lazy_dataset
    from lazy_dataset.parallel_utils import lazy_parallel_map
    fails, cases = [], 0
    for buf in (1, 2):
        cases += 1
        log = []

        def load(x):
            log.append(('start', x))
            if x == 2:
                time.sleep(1.5)
            log.append(('end', x))
            return x
        before = set(threading.enumerate())
        it = iter(lazy_dataset.new(list(range(8))).map(load).prefetch(1, buf))
        next(it)
        time.sleep(0.4)                   # the worker is inside the slow example now
        t0 = time.time()
        it.close()
        took = time.time() - t0
        n0 = len(log)
        alive = [t for t in threading.enumerate() if t not in before and t.is_alive()]
        time.sleep(1.8)
        sc = 'new(range(8)).map(load, 1.5 s for example 2).prefetch(1, %d): close() while the worker is inside the slow example' % buf
        if len(log) != n0:
            _fail(fails, sc, 'no-user-code-after-the-stop', 'close() returned after %.2f s; afterwards %r' % (took, log[n0:n0 + 4]), 'nothing')
        elif alive:
            _fail(fails, sc, 'background-threads-have-exited', [t.name for t in alive], 'none alive when close() returns')
    for backend in ('multiprocessing', 'concurrent_mp', 'mp'):
        cases += 1
        d = _scratch_dir() + '/stop_%s' % backend
        os.makedirs(d, exist_ok=True)
        try:
            it = iter(lazy_parallel_map(_mark_and_sleep, iter([(d, i) for i in range(10)]), buffer_size=6, max_workers=2, backend=backend))
            next(it)
            it.close()
        except Exception:      # noqa  (backend not usable here)
            continue
        s0 = len(glob.glob(d + '/started_*'))
        time.sleep(1.0)
        s1 = len(glob.glob(d + '/started_*'))
        sc = "lazy_parallel_map(slow f, 10 examples, buffer_size=6, max_workers=2, backend=%r): close() after 1 example" % backend
        # delivered + running + the one a worker may just have picked up; a ProcessPoolExecutor additionally hands
        # max_workers + 1 queued items to its call queue where they cannot be cancelled any more (executor contract)
        allowed = 1 + 2 + 1 + (3 if backend == 'concurrent_mp' else 0)
        if s0 > allowed:
            _fail(fails, sc, 'computations-not-yet-started-are-cancelled', '%d of 10 applications had started when close() returned' % s0, '<= %d' % allowed)
        elif s1 != s0:
            _fail(fails, sc, 'no-user-code-after-the-stop', '%d applications started after close() had returned' % (s1 - s0), 'none')
    return cases, fails
