"""(An EMPTY list of names is not requested: concatenating no datasets is refused loudly with ValueError by
lazy_dataset.concatenate, which is outside what C19 states.)
C19 bounded native stand-in (labelled bounded; never counted as proved): small database descriptions
(0..3 datasets with 0..2 examples, 0..2 aliases incl. overlapping ids / unknown members, 1..3 merged parts with and
without alias sections and extra top-level keys), dict- and JSON-backed, request sequences over names, aliases, lists,
repeats, after garbage collection, and a pickled JsonDatabase.  Reference = the eager reading of the description."""
import copy
import gc
import itertools
import json
import os
import pickle
import shutil
import tempfile

DATASETS = {'a': ['x1', 'x2'], 'b': ['y1'], 'c': ['x1', 'z1'], 'e': []}
ALIASES = {'ab': ['a', 'b'], 'ba': ['b', 'a'], 'ac': ['a', 'c'], 'az': ['a', 'zz'], 'be': ['b', 'e'], 'ee': ['e'],
           # three members: ids shared by members that are NOT neighbours, a member listed twice with another in between
           'abc': ['a', 'b', 'c'], 'aba': ['a', 'b', 'a'], 'bea': ['b', 'e', 'a']}


def _example(ds, i):
    return {'v': '%s-%s' % (ds, i), 'nested': {'l': [ds, i]}}


def descriptions(tier):
    names = list(DATASETS)
    al = list(ALIASES)
    for k in range(0, 4):
        for dsn in itertools.combinations(names, k):
            for ka in range(0, 3):
                for als in itertools.combinations(al, ka):
                    yield dsn, als


def split_parts(dsn, als, nparts, alias_part, extra):
    """distribute the datasets round-robin over nparts parts; all aliases go to part alias_part"""
    parts = [{'datasets': {}} for _ in range(nparts)]
    for j, d in enumerate(dsn):
        parts[j % nparts]['datasets'][d] = {i: _example(d, i) for i in DATASETS[d]}
    if als:
        parts[alias_part]['alias'] = {a: list(ALIASES[a]) for a in als}
    if extra:
        parts[0]['meta'] = {'version': 1}
    return parts


def reference(parts, name):
    """('v', [(key, example)...]) or ('e', exception class name)"""
    datasets, alias = {}, {}
    for p in parts:
        datasets.update(p['datasets'])
        alias.update(p.get('alias', {}))

    def one(n):
        if n in alias:
            ex = {}
            for m in alias[n]:
                if m not in datasets:
                    return ('e', 'KeyError')
                if set(ex) & set(datasets[m]):
                    return ('e', 'AssertionError')
                ex.update(datasets[m])
        elif n in datasets:
            ex = dict(datasets[n])
        else:
            return ('e', 'KeyError')
        if not ex:
            return ('e', 'RuntimeError')
        return ('v', [(i, dict(e, example_id=i, dataset=n)) for i, e in ex.items()])
    if isinstance(name, str):
        return one(name)
    out = []
    for n in name:
        r = reference(parts, n)        # lists may be nested and may repeat a name
        if r[0] == 'e':
            return r
        out += r[1]
    return ('v', out)


def observe(db, name):
    try:
        ds = db.get_dataset(name)
        return ('v', list(ds.items()) if isinstance(name, str) else [(e['example_id'], e) for e in ds]), ds
    except Exception as e:  # noqa
        return ('e', type(e).__name__), None


def _fail(fails, sc, clause, obs, exp):
    fails.append({'scenario': sc, 'mismatches': [{'clause': clause, 'observed': repr(obs)[:300], 'expected': repr(exp)[:300]}]})


def search(tier='quick'):
    from lazy_dataset.database import DictDatabase, JsonDatabase
    fails, cases = [], 0
    tmp = tempfile.mkdtemp(prefix='c19_')
    try:
        for n_d, (dsn, als) in enumerate(descriptions(tier)):
            if tier == 'quick' and n_d % 4:
                continue
            for nparts in (1, 2, 3):
                if nparts > max(1, len(dsn)):
                    continue
                for alias_part in range(nparts):
                    if not als and alias_part:
                        continue
                    for extra in (False, True):
                        parts = split_parts(dsn, als, nparts, alias_part, extra)
                        sc = 'DictDatabase(%s)' % json.dumps(parts)[:400]
                        cases += 1
                        pristine = copy.deepcopy(parts)
                        try:
                            db = DictDatabase(*parts)
                        except Exception as e:  # noqa
                            _fail(fails, sc, 'construction', type(e).__name__, 'no exception (no duplicates)')
                            continue
                        reqs = list(dsn) + list(als) + ['nope'] + ([list(dsn)] if dsn else []) + ([tuple(reversed(dsn))] if len(dsn) > 1 else []) + ([[dsn[0], dsn[0]], [dsn[-1], dsn[0], dsn[-1]], [[dsn[0]], dsn[0]]] if dsn else []) + ([[als[0], dsn[0]]] if als and dsn else [])
                        first = {}
                        for r in reqs + reqs:
                            ob, ds = observe(db, r)
                            ex = reference(pristine, r)
                            if ob != ex:
                                _fail(fails, sc, 'get_dataset(%r)' % (r,), ob, ex)
                            if isinstance(r, str) and ds is not None:
                                if r in first and first[r] is not ds:
                                    _fail(fails, sc, 'repeated request served from the shared dataset: %r' % r, 'a new dataset', 'the same object')
                                first[r] = ds
                                if ob[0] == 'v' and ex[0] == 'v' and tuple(ds.keys()) != tuple(k for k, _ in ex[1]):
                                    _fail(fails, sc, 'keys(%r)' % r, ds.keys(), [k for k, _ in ex[1]])
                            if parts != pristine:
                                _fail(fails, sc, 'source description unchanged after get_dataset(%r)' % (r,), parts, pristine)
                                parts = copy.deepcopy(pristine)
                                break
                        # mutating a delivered example never reaches the source or a later request
                        for r in dsn:
                            ob, ds = observe(db, r)
                            if ob[0] == 'v':
                                for _, e in ob[1]:
                                    e['nested']['l'].append('MUT')
                                    e['v'] = 'MUT'
                                ob2, _ = observe(db, r)
                                if ob2 != reference(pristine, r):
                                    _fail(fails, sc, 'isolation of delivered examples: %r' % r, ob2, reference(pristine, r))
                        if parts != pristine:
                            _fail(fails, sc, 'source description unchanged after mutation of delivered examples', parts, pristine)
                        # after garbage collection a request still answers correctly
                        first.clear()
                        ds = None
                        gc.collect()
                        for r in list(dsn) + list(als):
                            ob, _ = observe(db, r)
                            if ob != reference(pristine, r):
                                _fail(fails, sc, 'after gc: get_dataset(%r)' % (r,), ob, reference(pristine, r))
                        # JSON-backed and pickled JSON database answer identically
                        if tier != 'quick' or cases % 5 == 0:
                            paths = []
                            for j, p in enumerate(pristine):
                                path = os.path.join(tmp, 'part%d.json' % j)      # the SAME file names are rewritten for every description
                                with open(path, 'w') as fd:
                                    json.dump(p, fd)
                                paths.append(path)
                            jdb = JsonDatabase(*paths)
                            jdb2 = pickle.loads(pickle.dumps(JsonDatabase(*paths)))
                            for r in reqs:
                                ex = reference(pristine, r)
                                for label, d in (('JsonDatabase', jdb), ('pickled JsonDatabase', jdb2)):
                                    ob, _ = observe(d, r)
                                    if ob != ex:
                                        _fail(fails, sc, '%s.get_dataset(%r)' % (label, r), ob, ex)
        # duplicates across merged descriptions are rejected
        dup_cases = [
            ('duplicate dataset name', [{'datasets': {'a': {'x': {}}}}, {'datasets': {'a': {'y': {}}}}]),
            ('duplicate alias name', [{'datasets': {'a': {'x': {}}}, 'alias': {'al': ['a']}}, {'datasets': {'b': {'y': {}}}, 'alias': {'al': ['b']}}]),
            ('dataset named like an earlier alias', [{'datasets': {'a': {'x': {}}}, 'alias': {'al': ['a']}}, {'datasets': {'al': {'y': {}}}}]),
            ('alias named like an earlier dataset', [{'datasets': {'a': {'x': {}}}}, {'datasets': {'b': {'y': {}}}, 'alias': {'a': ['b']}}]),
            ('duplicate in the third part', [{'datasets': {'a': {'x': {}}}}, {'datasets': {'b': {'y': {}}}}, {'datasets': {'b': {'z': {}}}}]),
        ]
        for label, parts in dup_cases:
            cases += 1
            pristine = copy.deepcopy(parts)
            for how in ('args', 'list'):
                try:
                    db = DictDatabase(*parts) if how == 'args' else DictDatabase(list(parts))
                    db.dataset_names
                    _fail(fails, 'DictDatabase(%s)' % json.dumps(parts), 'rejected: ' + label, 'accepted', 'AssertionError')
                except AssertionError:
                    pass
            if parts != pristine:
                _fail(fails, 'DictDatabase(%s)' % json.dumps(pristine), 'source unchanged by a rejected merge', parts, pristine)
    finally:
        shutil.rmtree(tmp, ignore_errors=True)
    return cases, fails


if __name__ == '__main__':
    import sys
    c, f = search(sys.argv[1] if len(sys.argv) > 1 else 'quick')
    print(c, len(f))
    for x in f[:8]:
        print(x)
