"""python -m harness.replay <replay.json> [--search]
Re-executes (or searches for) a native counterexample of a failed obligation against the
real lazy_dataset.  The obligation name tells the class and method; the bounded scenario
set of that class is run with the run-time oracle of the same clause family.
Prints one JSON line: {"reproduced": bool, "scenario":..., "mismatches":[...]}"""
import json
import re
import sys

from harness import scenarios

METHOD_CLAUSES = {
    '__len__': {'len'}, '__getitem__': {'getitem', 'getkey'}, '__iter__': {'iter', 'iter-repeat', 'items'},
    'keys': {'keys'}, 'indexable': {'indexable'},
}


def main():
    path = sys.argv[1]
    rep = json.load(open(path))
    ob = rep.get('obligation', '').lstrip('.')
    m = re.match(r'(?:(\w+)\.)?(\w+)\[', ob)
    out = {'reproduced': False, 'obligation': ob}
    if rep.get('custom_replay'):
        import importlib
        mod, fn = rep['custom_replay'].rsplit('.', 1)
        out.update(getattr(importlib.import_module(mod), fn)(rep))
        print(json.dumps(out))
        return
    if rep.get('property') == 'C16' and ob.startswith('law:'):
        from harness import laws_standin
        c, f = laws_standin.search('thorough')
        out['cases_searched'] = c
        if f:
            out.update(reproduced=True, scenario=f[0]['scenario'], mismatches=f[0]['mismatches'])
        print(json.dumps(out))
        return
    if rep.get('property') == 'C08':
        from harness import effects_standin
        c, f = effects_standin.search()
        out['cases_searched'] = c
        if f:
            out.update(reproduced=True, scenario=f[0]['scenario'], mismatches=f[0]['mismatches'])
        print(json.dumps(out))
        return
    if not m:
        out['note'] = 'obligation name does not identify a class method'
        print(json.dumps(out))
        return
    cls, meth = m.group(1) or '', m.group(2)
    out['class'] = cls
    if cls not in scenarios.SCENARIOS:
        import harness.custom as custom
        r = custom.search(cls, meth, rep)
        out.update(r)
        print(json.dumps(out))
        return
    what = METHOD_CLAUSES.get(meth)
    want = (rep.get('native') or {}).get('scenario')
    cases, fails = scenarios.run_class(cls, what=what)
    known = rep.get('ignore_scenarios_matching')
    for f in fails:
        if want and f['scenario'] != want:
            continue
        out['reproduced'] = True
        out['scenario'] = f['scenario']
        out['mismatches'] = f['mismatches']
        break
    if not out['reproduced']:
        import harness.custom as custom
        r = custom._prop_search(rep)
        if r is not None and r.get('reproduced'):
            out.update(r)
    out['cases_searched'] = out.get('cases_searched', 0) + cases
    out['bound'] = 'sources of length 0..6, the parameter grid of harness/scenarios.py'
    print(json.dumps(out))


if __name__ == '__main__':
    import os as _os
    import sys as _sys
    try:
        main()
    finally:
        # a defect under test may leave a non-daemon thread blocked for ever (that is what some checks detect): the verdict
        # is on stdout by now, do not wait for such threads at interpreter exit
        _sys.stdout.flush()
        _sys.stderr.flush()
        try:
            import atexit as _atexit
            _atexit._run_exitfuncs()          # scratch directories of the stand-ins are removed here
        except BaseException:      # noqa
            pass
        _os._exit(0)
