"""Bounded stand-in for C16: both sides of every law observed (iteration, len, indexing, keys,
items) on small real datasets."""
import itertools

from harness import oracle as O


def _norm_refusal(o):
    """which exception refuses an undefined operation is not part of a law"""
    if isinstance(o, tuple) and len(o) == 2 and isinstance(o[1], tuple) and o[1] and o[1][0] in ('e', 'E') and o[0] == []:
        return 'refused'
    if isinstance(o, tuple) and len(o) == 2 and o[0] in ('e', 'E'):
        return 'refused'
    if isinstance(o, dict):
        return {k: _norm_refusal(v) for k, v in o.items()}
    return o


def _obs(ds, keys):
    ob = O.observe(ds, probe_keys=keys)
    for k in ('items', 'keys', 'getkey', 'len'):
        ob[k] = _norm_refusal(ob[k])
    ob['getitem'] = {i: ('e', 'refused') if v[0] == 'e' else v for i, v in ob['getitem'].items()}
    return ob


def search(tier='quick'):
    import numpy as np
    import lazy_dataset
    fails = []
    cases = 0

    def f(x):
        return x * 3 + 1

    def g(x):
        return ('g', x)

    def p(x):
        return x % 3 != 0
    sizes = (0, 1, 2, 5, 7) if tier == 'quick' else (0, 1, 2, 3, 5, 7, 10, 13)
    for n in sizes:
        vals = list(range(10, 10 + n))
        keys = ['k%02d' % i for i in range(n)]
        for src in (lazy_dataset.new(dict(zip(keys, vals))), lazy_dataset.new(list(vals))):
            pk = keys if isinstance(src.input_dataset, lazy_dataset.core.DictDataset) else []
            laws = []
            laws.append(('map(f).map(g)==map(g∘f)', src.map(f).map(g), src.map(lambda x: g(f(x)))))
            for sl in (slice(1, None), slice(None, None, 2), slice(None, None, -1), [n - 1, 0] if n else []):
                laws.append(('map distributes over [%r]' % (sl,), src.map(f)[sl], src[sl].map(f)))
                for sl2 in (slice(1, None), slice(None, None, 2)):
                    lst = list(range(n))[sl] if isinstance(sl, slice) else [list(range(n))[q] for q in sl]
                    idx = lst[sl2]
                    laws.append(('nested slices [%r][%r]' % (sl, sl2), src[sl][sl2], src[idx] if idx else src[:0]))
            if n:
                for k in range(1, n + 1):
                    laws.append(('concatenate(split(%d))==id' % k, lazy_dataset.concatenate(*src.split(k)), src))
                    laws.append(('map over split(%d)' % k, lazy_dataset.concatenate(*[s.map(f) for s in src.split(k)]), src.map(f)))
                for r in (1, 2, 3):
                    laws.append(('tile(%d)==r-fold concatenation' % r, src.tile(r), lazy_dataset.concatenate(*([src] * r))))
                laws.append(('map over shuffle', src.map(f).shuffle(False, rng=np.random.RandomState(3)),
                             src.shuffle(False, rng=np.random.RandomState(3)).map(f)))
                laws.append(('map over sort', src.map(f).sort(lambda x: -x), src.sort(lambda x: -f(x)).map(f)))
            laws.append(('map over concatenation', src.map(f).concatenate(src.map(f)), src.concatenate(src).map(f)))
            laws.append(('map over cache', src.map(f).cache(), src.cache().map(f)))
            for b in (1, 2, 3):
                laws.append(('map over batch(%d)' % b, src.map(f).batch(b), src.batch(b).map(lambda xs: [f(x) for x in xs])))
            for name, a, b_ in laws:
                cases += 1
                oa, ob = _obs(a, pk), _obs(b_, pk)
                for k_ in ('len', 'iter0', 'iter1', 'getitem', 'keys', 'items', 'getkey'):
                    if k_ == 'keys' and 'concatenate(src)' in name:
                        continue
                    if oa[k_] != ob[k_]:
                        fails.append({'scenario': '%s on %d examples (%s)' % (name, n, 'dict' if pk else 'list'),
                                      'mismatches': [{'clause': 'law:' + k_, 'observed': repr(oa[k_])[:300], 'expected': repr(ob[k_])[:300]}]})
                        return cases, fails
            for b in (1, 2, 3, 4):
                cases += 1
                if list(src.batch(b).unbatch()) != list(src):
                    fails.append({'scenario': 'batch(%d).unbatch() on %d examples' % (b, n), 'mismatches': [
                        {'clause': 'law:iter', 'observed': repr(list(src.batch(b).unbatch())), 'expected': repr(list(src))}]})
                    return cases, fails
            for sl in (slice(1, None), slice(None, None, 2)):
                cases += 1
                a = list(src.filter(p)) if False else None
                left = list(src[sl].filter(p))
                right = [x for x in list(src)[sl] if p(x)]
                if left != right:
                    fails.append({'scenario': 'filter commutes with [%r] on %d examples' % (sl, n), 'mismatches': [
                        {'clause': 'law:iter', 'observed': repr(left), 'expected': repr(right)}]})
                    return cases, fails
    return cases, fails


if __name__ == '__main__':
    import json
    c, f_ = search()
    print(json.dumps({'cases': c, 'failures': f_[:2]}))
