"""Bounded stand-in across COMPOSITIONS (labelled bounded; never counted as proved): random pipelines of depth 1..4 over
small dict- and list-backed sources, built from the stages of the C01 grammar, are observed completely (len, indexable,
two iterations, items, keys, every index in [-n-2, n+2) also as numpy scalars, present and absent keys) and compared with
the eager reference built by the same sequence of list operations (harness/oracle.py).  The single-stage scenario sets
exercise each class alone; this search exercises what a stage does on top of ANOTHER derived dataset (a sort over a key
list, a split of a slice whose keys were queried, a batch over a concatenation ...).
Deterministic for a given seed (VERIF_SEED); the number of pipelines is the stated bound."""
import os
import random
import warnings

from harness import oracle as O
from harness.oracle import Ref


def _vals_ok(r):
    return all(o[0] == 'v' for o in r.outs)


def _f(x):
    return ('f', x)


def _g(x):
    return ('g', x)


def _p(x):
    return len(repr(x)) % 2 == 0


def _boom(x):
    # raises for about a third of the examples (decided by the example alone)
    if sum(ord(c) for c in repr(x)) % 3 == 0:
        raise O.Boom(x)
    return ('b', x)


def _sort_key(x):
    return repr(x)


def _slice_specs(n, rnd):
    specs = [slice(None), slice(1, None), slice(None, -1), slice(None, None, 2), slice(None, None, -1), slice(-2, None),
             slice(0, 0)]
    if n:
        specs += [[rnd.randrange(n) for _ in range(rnd.randrange(1, n + 2))], [n - 1, 0], [0, 0], [-1],
                  [rnd.random() < 0.5 for _ in range(n)], tuple(range(n))[::-1]]
    return specs


def _positions(n, spec):
    import numpy as np
    if isinstance(spec, slice):
        return list(range(n))[spec]
    if len(spec) and isinstance(spec[0], bool):
        return [i for i, b in enumerate(spec) if b]
    return [int(p) for p in np.arange(n)[list(spec),]]


def ops():
    """name -> apply(ds, ref, rnd) -> (ds, ref) | None when the operation is not applicable to this dataset"""
    import lazy_dataset

    def op_map(ds, r, rnd):
        return ds.map(_f), O.ref_map(r, _f)

    def op_boom_map(ds, r, rnd):
        return ds.map(_boom), O.ref_map(r, _boom)

    def op_catch(ds, r, rnd):
        if not r.idx:            # catch evaluates its input by index
            return None
        return ds.catch(O.Boom), O.ref_catch(r, {'Boom'})

    def op_parmap(ds, r, rnd):
        if not _vals_ok(r):      # a raising source below a worker pool is the listed finding F19
            return None
        w = rnd.choice((1, 2))
        return ds.map(_f, num_workers=w, buffer_size=rnd.choice((w, w + 2))), O.ref_map(r, _f)

    def op_slice(ds, r, rnd):
        if not r.idx:
            return None
        spec = rnd.choice(_slice_specs(r.n, rnd))
        return ds[spec], O.ref_slice(r, _positions(r.n, spec))

    def op_keylist(ds, r, rnd):
        if not (r.has_keys and r.idx and r.n):
            return None
        ks = [rnd.choice(r.keys) for _ in range(rnd.randrange(1, r.n + 1))]
        ks = list(dict.fromkeys(ks))
        ks = ks if rnd.random() < 0.5 else tuple(ks)
        return ds[ks], O.ref_slice(r, [r.keys.index(k) for k in ks])

    def op_concat(ds, r, rnd):
        m = rnd.randrange(0, 3)
        if r.keys is not None and rnd.random() < 0.7:
            other_keys = ['z%d' % i for i in range(m)] if rnd.random() < 0.7 else list(dict.fromkeys(r.keys[:m]))
            vals = [1000 + i for i in range(len(other_keys))]
            other = lazy_dataset.new(dict(zip(other_keys, vals)))
            ro = Ref([('v', v) for v in vals], other_keys)
        else:
            vals = [2000 + i for i in range(m)]
            other = lazy_dataset.new(list(vals))
            ro = Ref([('v', v) for v in vals])
        return ds.concatenate(other), O.ref_concat([r, ro])

    def op_tile(ds, r, rnd):
        if not r.len_:
            return None
        return ds.tile(2), O.ref_concat([r, r])

    def op_zip(ds, r, rnd):
        if not r.len_:
            return None
        return ds.zip(ds.map(_g)), O.ref_zip([r, O.ref_map(r, _g)])

    def op_key_zip(ds, r, rnd):
        if not (r.has_keys and r.idx):
            return None
        return ds.key_zip(ds.map(_g)), O.ref_key_zip([r, O.ref_map(r, _g)])

    def op_items(ds, r, rnd):
        if not r.has_keys:
            return None
        return ds.items(), O.ref_items(r)

    def op_batch(ds, r, rnd):
        b = rnd.randrange(1, 4)
        drop = rnd.random() < 0.4
        rb = O.ref_batch(r, b, drop)
        if rb.tail_exc is not None:       # a raising example in the dropped tail: iteration raises, indexing does not (not expressible in Ref)
            return None
        return ds.batch(b, drop_last=drop), rb

    def op_batch_unbatch(ds, r, rnd):
        if not _vals_ok(r):
            return None
        b = rnd.randrange(1, 4)
        return ds.batch(b).unbatch(), Ref(r.outs, None, False, False)

    def op_filter(ds, r, rnd):
        return ds.filter(_p), O.ref_filter(r, _p)

    def op_filter_eager(ds, r, rnd):
        if not (r.idx and _vals_ok(r)):
            return None
        pos = [i for i, o in enumerate(r.outs) if _p(o[1])]
        return ds.filter(_p, lazy=False), O.ref_slice(r, pos)

    def op_sort(ds, r, rnd):
        if not (r.idx and _vals_ok(r)):
            return None
        rev = rnd.random() < 0.5
        order = sorted(range(r.n), key=lambda i: (_sort_key(r.outs[i][1]), i), reverse=rev)
        return ds.sort(_sort_key, reverse=rev), O.ref_slice(r, order)

    def op_sort_keys(ds, r, rnd):
        if not (r.idx and r.has_keys):
            return None
        rev = rnd.random() < 0.5
        order = sorted(range(r.n), key=lambda i: r.keys[i], reverse=rev)
        return ds.sort(reverse=rev), O.ref_slice(r, order)

    def op_cache(ds, r, rnd):
        if not r.idx:
            return None
        c = ds.cache()
        if r.n and rnd.random() < 0.5 and _vals_ok(r):
            c[-1]       # an out-of-order first access
        # a cache pairs keys and examples through keys(): it offers items() exactly when its input offers keys()
        return c, Ref(r.outs, r.keys, r.idx, r.len_, has_keys=r.has_keys, has_items=r.has_keys)

    def op_copy(ds, r, rnd):
        with warnings.catch_warnings():
            warnings.simplefilter('ignore')
            return ds.copy(freeze=rnd.random() < 0.5), r

    def op_prefetch(ds, r, rnd):
        w = rnd.choice((1, 2))
        if w > 1 and not r.idx:
            return None
        b = rnd.choice((w, w + 2))
        # single thread: the input's key iteration is passed through; several workers: the keys come from keys() of the input
        return ds.prefetch(w, b), Ref(r.outs, r.keys, False, r.len_, has_keys=False, has_items=r.has_items if w == 1 else r.has_keys)

    def op_split(ds, r, rnd):
        if not (r.idx and r.n):
            return None
        k = rnd.randrange(1, min(r.n, 3) + 1)
        i = rnd.randrange(k)
        import numpy as np
        parts = np.array_split(np.arange(r.n), k)
        pos = [int(p) for p in parts[i]]
        if rnd.random() < 0.5:
            return ds.split(k)[i], O.ref_slice(r, pos)
        return ds.shard(k, i), O.ref_slice(r, pos)

    def op_intersperse(ds, r, rnd):
        if not (r.len_ and r.n):
            return None
        m = rnd.randrange(1, 4)
        vals = [3000 + i for i in range(m)]
        if r.keys is not None:
            ok = ['y%d' % i for i in range(m)]
            other, ro = lazy_dataset.new(dict(zip(ok, vals))), Ref([('v', v) for v in vals], ok)
        else:
            other, ro = lazy_dataset.new(list(vals)), Ref([('v', v) for v in vals])
        return ds.intersperse(other), O.ref_intersperse([r, ro])

    def op_snapshot(ds, r, rnd):
        if not _vals_ok(r):
            return None
        snap = lazy_dataset.from_dataset(ds) if rnd.random() < 0.5 else lazy_dataset.new(ds)
        keys = r.keys if (r.has_items and r.keys is not None and len(set(r.keys)) == len(r.keys)) else None
        return snap, Ref(r.outs, keys)

    def op_touch_keys(ds, r, rnd):
        # queries that may fill lazily cached state (keys, a key lookup, a length) -- no change of meaning
        if r.has_keys:
            ds.keys()
            if r.n:
                try:
                    ds[r.keys[0]]
                except Exception:      # noqa
                    pass
        if r.len_:
            len(ds)
        return ds, r
    return {k[3:]: v for k, v in locals().items() if k.startswith('op_')}


def search(tier='quick', seed=0, count=None):
    import lazy_dataset
    rnd = random.Random(1000 + seed)
    OPS = ops()
    names = sorted(OPS)
    N = count or (250 if tier == 'quick' else 2500)
    fails, cases = [], 0
    warnings.simplefilter('ignore')
    while cases < N:
        n = rnd.randrange(0, 6)
        vals = [10 * (i + 1) for i in range(n)]
        if rnd.random() < 0.6:
            keys = [chr(ord('a') + i) for i in range(n)]
            ds, r = lazy_dataset.new(dict(zip(keys, vals))), Ref([('v', v) for v in vals], keys)
            desc = 'dict[%d]' % n
        else:
            ds, r = lazy_dataset.new(list(vals)), Ref([('v', v) for v in vals])
            desc = 'list[%d]' % n
        depth = rnd.randrange(1, 5)
        applied = 0
        tries = 0
        try:
            while applied < depth and tries < 12:
                tries += 1
                name = rnd.choice(names)
                res = OPS[name](ds, r, rnd)
                if res is None:
                    continue
                ds, r = res
                desc += '.' + name
                applied += 1
        except Exception as e:      # noqa
            if isinstance(e, AssertionError) and 'Keys are not unique' in str(e) and not r.has_keys:
                continue        # listed finding F28 (keys exist but are refused below a selection): has its own probe
            cases += 1
            fails.append({'scenario': desc + '.' + name, 'mismatches': [{'clause': 'construction', 'observed': '%s: %s' % (type(e).__name__, str(e)[:120]),
                                                                           'expected': 'the pipeline can be built'}]})
            if len(fails) >= 3:
                break
            continue
        cases += 1
        probe = [k for k in (r.keys or [])][:3]
        try:
            ob = O.observe(ds, probe_keys=probe)
        except BaseException as e:      # noqa
            fails.append({'scenario': desc, 'mismatches': [{'clause': 'observation', 'observed': '%s: %s' % (type(e).__name__, str(e)[:120]), 'expected': 'observable'}]})
            continue
        ex = O.expected(r, probe_keys=probe)
        if getattr(r, 'tail_exc', None) is not None:
            continue
        bad = O.compare(ob, ex, None)
        if bad:
            fails.append({'scenario': desc, 'mismatches': [{'clause': b[0], 'observed': repr(b[1])[:300], 'expected': repr(b[2])[:300]} for b in bad[:4]]})
            if len(fails) >= 3:
                break
    return cases, fails


if __name__ == '__main__':
    import sys
    c, f = search(sys.argv[1] if len(sys.argv) > 1 else 'quick', int(sys.argv[2]) if len(sys.argv) > 2 else 0)
    print(c, len(f))
    for x in f[:5]:
        print(x)


# ------------------------------------------------------------------ isolation across compositions (C09)
def _deep_mutate(x, depth=0):
    import numpy as np
    if depth > 6:
        return
    if isinstance(x, dict):
        for v in list(x.values()):
            _deep_mutate(v, depth + 1)
        x['MUTATED'] = 1
    elif isinstance(x, list):
        for v in list(x):
            _deep_mutate(v, depth + 1)
        x.append('MUTATED')
    elif isinstance(x, tuple):
        for v in x:
            _deep_mutate(v, depth + 1)
    elif isinstance(x, np.ndarray) and x.size and x.dtype != object:
        x[...] = -7


def search_isolation(tier='quick', seed=0, count=None):
    """C09 across compositions: a random pipeline (same operations as above) over a source made by new() in a random
    immutability mode and example shape, optionally with a memory / disk cache somewhere in it, is built three times:
      twin 0 is observed untouched (the pristine observation), then everything it hands out is mutated and it is observed
             again (hits);
      twin 1: the ORIGINAL container and examples are mutated right after construction (pickle and wu modes), then observed;
      twin 2: every example is mutated at its FIRST hand-out (misses: iteration, items, indices, keys, a copy), then observed.
    Every observation must equal the pristine one."""
    import shutil
    import tempfile
    import numpy as np
    import lazy_dataset
    OPS = ops()
    names = [n for n in sorted(OPS) if n not in ('snapshot', 'boom_map', 'catch')]      # op set of the isolation search when it was written (kept: its seeds stay comparable)
    root = tempfile.mkdtemp(prefix='verif_fz_')
    counter = [0]
    N = count or (400 if tier == 'quick' else 4000)
    fails, cases = [], 0
    warnings.simplefilter('ignore')
    master = random.Random(5000 + seed)

    def mk_example(i, shape):
        if shape == 'dict':
            return {'v': [i, i + 1], 'arr': np.arange(3) + i, 'nested': {'l': [i]}}
        if shape == 'tuple':
            return ([i, i + 1], np.arange(3) + i, {'l': [i]})
        if shape == 'big-array':
            return np.arange(9000) + i
        return [[i], {'l': [i]}]

    def build(sub):
        rnd = random.Random(sub)
        n = rnd.randrange(1, 5)
        shape = rnd.choice(('dict', 'dict', 'tuple', 'list', 'big-array'))
        mode = rnd.choice(('pickle', 'copy', 'wu'))
        if mode != 'wu' and rnd.random() < 0.6:
            keys = [chr(ord('a') + i) for i in range(n)]
            orig = {k: mk_example(i, shape) for i, k in enumerate(keys)}
            ds = lazy_dataset.new(orig, immutable_warranty=mode)
            r = Ref([('v', i) for i in range(n)], keys)
            desc = "new(dict[%d] of %s, %r)" % (n, shape, mode)
        else:
            orig = [mk_example(i, shape) for i in range(n)]
            ds = lazy_dataset.new(orig, immutable_warranty=mode) if mode != 'wu' else lazy_dataset.from_list(orig, immutable_warranty='wu')
            r = Ref([('v', i) for i in range(n)])
            desc = "new(list[%d] of %s, %r)" % (n, shape, mode)
        depth = rnd.randrange(0, 4)
        applied = tries = 0
        while applied < depth and tries < 12:
            tries += 1
            name = rnd.choice(names + ['cache', 'cache', 'diskcache'])
            if name == 'diskcache':
                if not r.idx:
                    continue
                counter[0] += 1
                ds = ds.diskcache('%s/c%d' % (root, counter[0]))
                desc += '.diskcache'
                applied += 1
                continue
            if name in ('sort', 'filter', 'filter_eager') and shape == 'big-array':
                continue        # repr-based predicates on big arrays are slow and add nothing
            res = OPS[name](ds, r, rnd)
            if res is None:
                continue
            ds, r = res
            desc += '.' + name
            applied += 1
        return ds, r, desc, orig, mode

    def snapshot(ds, r):
        probe = [k for k in (r.keys or [])][:3]
        ob = O.observe(ds, probe_keys=probe)
        ob.pop('getitem_np', None)
        return repr(ob)

    def mutate_all(ds, r):
        probe = [k for k in (r.keys or [])][:3]
        for x in ds:
            _deep_mutate(x)
        for thunk in ([lambda: [_deep_mutate(x) for _, x in ds.items()]]
                      + ([lambda i=i: _deep_mutate(ds[i]) for i in range(r.n)] + [lambda i=i: _deep_mutate(ds[i - r.n]) for i in range(r.n)] if r.idx else [])
                      + [lambda k=k: _deep_mutate(ds[k]) for k in probe]
                      + [lambda: [_deep_mutate(x) for x in ds.copy()]]):
            try:
                thunk()
            except Exception:      # noqa
                pass
    np.set_printoptions(threshold=20)
    while cases < N:
        sub = master.randrange(10 ** 9)
        try:
            ds0, r, desc, _, mode = build(sub)
        except Exception:      # noqa  (construction problems belong to the conformance search)
            continue
        cases += 1
        try:
            base = snapshot(ds0, r)
            mutate_all(ds0, r)
            after_hits = snapshot(ds0, r)
            results = [('every handed-out example mutated (after a first pristine pass)', after_hits)]
            ds1, r1, _, orig, _ = build(sub)
            if mode in ('pickle', 'wu'):
                for x in (orig.values() if isinstance(orig, dict) else orig):
                    _deep_mutate(x)
                if isinstance(orig, dict):
                    orig['zzz'] = 1
                else:
                    orig.append(1)
                results.append(('the original container and examples mutated right after construction', snapshot(ds1, r1)))
            ds2, r2, _, _, _ = build(sub)
            mutate_all(ds2, r2)
            results.append(('every example mutated at its FIRST hand-out', snapshot(ds2, r2)))
        except BaseException as e:      # noqa
            fails.append({'scenario': desc, 'mismatches': [{'clause': 'observation', 'observed': '%s: %s' % (type(e).__name__, str(e)[:120]), 'expected': 'observable'}]})
            continue
        for what, got in results:
            if got != base:
                i = next((j for j in range(min(len(base), len(got))) if base[j] != got[j]), 0)
                fails.append({'scenario': desc + '; ' + what, 'mismatches': [{'clause': 'isolation-of-handed-out-examples',
                                                                            'observed': got[max(0, i - 80):i + 120], 'expected': base[max(0, i - 80):i + 120]}]})
                break
        if len(fails) >= 3:
            break
    import gc
    ds0 = ds1 = ds2 = None
    gc.collect()
    shutil.rmtree(root, ignore_errors=True)
    return cases, fails


# ------------------------------------------------------------------ seed determinism across compositions (C13)
def search_determinism(tier='quick', seed=0, count=None, only=None):
    """C13 across compositions: a random pipeline that contains seeded random stages (one-time shuffle, per-epoch reshuffle,
    buffer-local shuffle, lazy apply of a shuffle) between deterministic ones is built several times from the same recipe:
      * two builds yield identical orders in 3 epochs, whatever the global numpy state is set to in between,
      * copy() of a fresh build yields the same epochs (skipped when the recipe uses one reshuffling object twice: F25),
      * the build behind prefetch(1, b) and prefetch(2, b) yields the same epochs (the latter skipped when two live iterators
        share one reshuffling object, i.e. zip of a reshuffle with a derivative of itself),
      * copy(freeze=True) iterates in one fixed order and reports ordered=True; a pipeline with a per-epoch random stage
        reports ordered=False."""
    os.environ.setdefault('OMP_NUM_THREADS', '1')
    os.environ.setdefault('MKL_NUM_THREADS', '1')
    import numpy as np
    import lazy_dataset
    OPS = ops()
    det_ops = ['map', 'slice', 'concat', 'tile', 'zip', 'batch', 'batch_unbatch', 'filter', 'items', 'intersperse', 'copy', 'touch_keys']
    N = count or (150 if tier == 'quick' else 1500)
    fails, cases = [], 0
    warnings.simplefilter('ignore')
    master = random.Random(9000 + seed)

    def build(sub):
        rnd = random.Random(sub)
        n = rnd.randrange(0, 7)
        keyed = rnd.random() < 0.5
        vals = [10 * (i + 1) for i in range(n)]
        if keyed:
            keys = [chr(ord('a') + i) for i in range(n)]
            ds, r = lazy_dataset.new(dict(zip(keys, vals))), Ref([('v', v) for v in vals], keys)
        else:
            ds, r = lazy_dataset.new(list(vals)), Ref([('v', v) for v in vals])
        desc = ('dict[%d]' if keyed else 'list[%d]') % n
        per_epoch = False
        shared_reshuffle = False
        unfreezable = False          # local shuffle / lazy apply: the statement promises a frozen order for a per-epoch *reshuffle* only
        depth = rnd.randrange(1, 6)
        applied = tries = 0
        while applied < depth and tries < 15:
            tries += 1
            kind = rnd.random()
            if kind < 0.45:
                which = rnd.choice(('shuffle', 'reshuffle', 'local', 'apply'))
                s_ = rnd.randrange(1000)
                # both generator families numpy offers: the legacy RandomState and the new Generator (default_rng)
                mk_rng = np.random.RandomState if rnd.random() < 0.6 else np.random.default_rng
                try:
                    if which == 'shuffle':
                        if not r.idx:
                            continue
                        ds = ds.shuffle(rng=mk_rng(s_))
                    elif which == 'reshuffle':
                        if not r.len_:
                            continue
                        ds = ds.shuffle(reshuffle=True, rng=mk_rng(s_))
                        r = Ref(r.outs, r.keys, False, True, has_keys=False, has_items=r.has_items)
                        per_epoch = True
                    elif which == 'local':
                        ds = ds.shuffle(reshuffle=True, buffer_size=rnd.randrange(1, 4), rng=mk_rng(s_))
                        r = Ref(r.outs, r.keys, False, r.len_, has_keys=False, has_items=r.has_items)
                        per_epoch = unfreezable = True
                    else:
                        if not r.idx:
                            continue
                        g = mk_rng(s_)
                        if rnd.random() < 0.5:
                            ds = ds.apply(lambda d, g=g: d.shuffle(rng=g), lazy=True)
                        else:
                            ds = ds.apply(lambda d, g=g: d.shuffle(reshuffle=True, rng=g), lazy=True)
                        r = Ref(r.outs, r.keys, False, False, has_keys=False, has_items=r.has_items)
                        per_epoch = True
                except Exception:      # noqa
                    continue
                desc += '.%s(%d)' % (which, s_)
                applied += 1
                continue
            name = rnd.choice(det_ops)
            if name == 'tile' and per_epoch:
                shared_reshuffle = shared_reshuffle or 'sequential'
            if name == 'zip' and per_epoch:
                shared_reshuffle = 'interleaved'          # two live iterators over one reshuffling object (one permutation buffer)
            try:
                res = OPS[name](ds, r, rnd)
            except Exception:      # noqa
                continue
            if res is None:
                continue
            ds, r = res
            desc += '.' + name
            applied += 1
        return ds, desc, per_epoch, shared_reshuffle, unfreezable

    def epochs(ds, e=3):
        out = []
        for _ in range(e):
            np.random.seed(random.randrange(10 ** 6))        # adversarial global state
            out.append([O.norm(x) for x in ds])
        return out
    while cases < N:
        sub = master.randrange(10 ** 9)
        try:
            ds_a, desc, per_epoch, shared, unfreezable = build(sub)
            ea = epochs(ds_a)
        except Exception:      # noqa  (pipelines that cannot be built / iterated belong to the conformance search)
            continue
        cases += 1

        def check(what, got):
            if got != ea:
                fails.append({'scenario': desc + '; ' + what, 'mismatches': [{'clause': 'equal-seeds-equal-epochs', 'observed': repr(got)[:300], 'expected': repr(ea)[:300]}]})
                return False
            return True
        try:
            ok = check('a second identical build', epochs(build(sub)[0]))
            if ok and not shared and only != 'prefetch':
                ok = check('copy() of a fresh build', epochs(build(sub)[0].copy()))
            if ok:
                ds_p = build(sub)[0]
                try:
                    p1 = ds_p.prefetch(1, 2)
                except Exception:      # noqa
                    p1 = None
                if p1 is not None:
                    ok = check('the build behind prefetch(1, 2)', epochs(p1))
            if ok and shared != 'interleaved':
                ds_q = build(sub)[0]
                try:
                    p2 = ds_q.prefetch(2, 3)
                    list(p2)
                    p2 = build(sub)[0].prefetch(2, 3)
                except Exception:      # noqa
                    p2 = None
                if p2 is not None:
                    ok = check('the build behind prefetch(2, 3)', epochs(p2))
            if ok and not unfreezable and only != 'prefetch':
                orig = build(sub)[0]
                fz = orig.copy(freeze=True)
                f1 = epochs(fz, 1)[0]
                epochs(orig, 2)                 # the original goes on reshuffling; the frozen copy must not follow it
                f2 = epochs(fz, 1)[0]
                if f1 != f2:
                    fails.append({'scenario': desc + '; copy(freeze=True)', 'mismatches': [{'clause': 'frozen-stays-frozen', 'observed': repr((f1, f2))[:300], 'expected': 'one fixed order'}]})
            if per_epoch and ea[0] != ea[1] and only != 'prefetch':
                try:
                    flag = build(sub)[0].ordered
                except Exception:      # noqa
                    flag = False
                if flag:
                    fails.append({'scenario': desc, 'mismatches': [{'clause': 'reshuffling-datasets-report-unordered', 'observed': 'ordered=True', 'expected': 'False'}]})
        except BaseException as e:      # noqa
            fails.append({'scenario': desc, 'mismatches': [{'clause': 'observation', 'observed': '%s: %s' % (type(e).__name__, str(e)[:160]), 'expected': 'observable'}]})
        if len(fails) >= 3:
            break
    return cases, fails


# ------------------------------------------------------------------ demand across compositions (C08)
def _flat(x):
    if isinstance(x, (list, tuple)):
        out = []
        for i in x:
            out += _flat(i)
        return out
    return [x]

class R(object):          # reference: gen() -> generator, get(i) or None, n or None
    def __init__(self, gen, get=None, n=None, depth=0):
        self.gen, self.get, self.n, self.depth = gen, get, n, depth

def _demand_build(sub, stacked=False, boom=None):
    import lazy_dataset
    rnd = random.Random(sub)
    logs = {'real': [], 'ref': []}
    stage = [0]

    def fn_pair(kind):
        s = stage[0]
        stage[0] += 1

        def mk(which):
            if kind == 'map':
                def f(x):
                    logs[which].append((s, tuple(_flat(x))))
                    if boom is not None and s == 0 and x == boom[0]:
                        raise boom[1](x)          # an error inside the pipeline, at the first stage
                    return x
            else:
                def f(x):
                    logs[which].append((s, tuple(_flat(x))))
                    return (sum(_flat(x)) + s) % 3 != 0
            return f
        return mk('real'), mk('ref')

    def source(base):
        n = rnd.randrange(0, 7) if rnd.random() < 0.7 else rnd.randrange(7, 14)     # longer ones make read-ahead visible
        vals = [base + i for i in range(n)]
        if rnd.random() < 0.5:
            ds = lazy_dataset.new({'k%d_%d' % (base, i): v for i, v in enumerate(vals)})
        else:
            ds = lazy_dataset.new(list(vals))
        r = R(lambda: iter(list(vals)), lambda i: vals[i], n)
        f, g = fn_pair('map')
        return ds.map(f), rmap(r, g), 'src[%d].map' % n

    def rmap(r, g):
        return R(lambda: (g(x) for x in r.gen()), (lambda i: g(r.get(i))) if r.get else None, r.n, r.depth)

    def rconcat(rs):
        def gen():
            for r in rs:
                yield from r.gen()
        idx = all(r.get for r in rs)
        ln = all(r.n is not None for r in rs)

        def get(i):
            for r in rs:
                if i < r.n:
                    return r.get(i)
                i -= r.n
            raise IndexError(i)
        return R(gen, get if idx else None, sum(r.n for r in rs) if ln else None, rs[0].depth)
    ds, r, desc = source(0)
    slack = None            # (b + 1) of the prefetch stage, multiplied by the fragments per example of later unbatch stages
    unordered = [False]     # a multi-worker stage: applications of one stage may overtake each other
    depth = rnd.randrange(1, 6)
    applied = tries = 0
    while applied < depth and tries < 20:
        tries += 1
        name = rnd.choice(('map', 'filter', 'batch', 'unbatch', 'slice', 'concat_self', 'concat_other', 'zip', 'tile', 'catch', 'items', 'prefetch', 'index_list',
                           'prefetch_mt', 'parmap', 'batch_map'))
        if name == 'map':
            f, g = fn_pair('map')
            ds, r = ds.map(f), rmap(r, g)
        elif name == 'filter':
            f, g = fn_pair('filter')
            ds = ds.filter(f, lazy=True)
            r = (lambda r, g: R(lambda: (x for x in r.gen() if g(x)), None, None, r.depth))(r, g)
        elif name == 'batch':
            b = rnd.randrange(1, 4)
            dl = rnd.random() < 0.3
            ds = ds.batch(b, drop_last=dl)

            def mkb(r, b, dl):
                def gen():
                    cur = []
                    for x in r.gen():
                        cur.append(x)
                        if len(cur) == b:
                            yield cur
                            cur = []
                    if cur and not dl:
                        yield cur
                n = None if r.n is None else (r.n // b if dl else -(-r.n // b))
                get = (lambda j: [r.get(i) for i in range(j * b, min((j + 1) * b, r.n))]) if r.get else None
                return R(gen, get, n, r.depth + 1)
            r = mkb(r, b, dl)
            name = 'batch(%d%s)' % (b, ',drop_last' if dl else '')
        elif name == 'unbatch':
            if r.depth < 1:
                continue
            ds = ds.unbatch()
            r = (lambda r: R(lambda: (y for x in r.gen() for y in x), None, None, r.depth - 1))(r)
            if slack is not None:
                slack *= 3
        elif name in ('slice', 'index_list'):
            if not r.get or not r.n:
                continue
            if name == 'slice':
                sl = slice(rnd.choice((None, 0, 1, 2, -2)), rnd.choice((None, 1, 3, -1, 5)), rnd.choice((None, 1, 2, -1)))
                idx = list(range(r.n))[sl]
                ds = ds[sl]
                name = '[%s:%s:%s]' % (sl.start, sl.stop, sl.step)
            else:
                idx = [rnd.randrange(r.n) for _ in range(rnd.randrange(0, 5))]
                ds = ds[list(idx)]
                name = '[%r]' % (idx,)
            r = (lambda r, idx: R(lambda: (r.get(i) for i in idx), lambda j: r.get(idx[j]), len(idx), r.depth))(r, idx)
        elif name == 'concat_self':
            f, g = fn_pair('map')
            ds = ds.concatenate(ds.map(f))
            r = rconcat([r, rmap(r, g)])
        elif name == 'concat_other':
            if r.depth:
                continue
            ods, orr, _ = source(100 * (stage[0] + 1))
            ds = ds.concatenate(ods)
            r = rconcat([r, orr])
        elif name == 'tile':
            if r.n is None:
                continue
            ds = ds.tile(2)
            r = rconcat([r, r])
        elif name == 'zip':
            if r.n is None or (slack is not None and not stacked):        # two concurrent producers: per-stage order is scheduler-dependent
                continue
            f, g = fn_pair('map')
            ds = ds.zip(ds.map(f))
            r = (lambda r, r2: R(lambda: zip(r.gen(), r2.gen()), (lambda i: (r.get(i), r2.get(i))) if r.get else None, r.n, r.depth + 1))(r, rmap(r, g))
        elif name == 'catch':
            if not r.get:             # catch evaluates its input by index
                continue
            ds = ds.catch()
            r = (lambda r: R(lambda: (r.get(i) for i in range(r.n)), None, None, r.depth))(r)
        elif name == 'items':
            try:
                keys = list(ds.keys())
            except Exception:      # noqa
                continue
            ds = ds.items()
            # keys are strings: keep them out of the logged ids by wrapping the value only
            ds = ds.map(_second)
            r = r
            name = 'items().map(value)'
        elif name == 'prefetch':
            if slack is not None and not stacked:
                continue
            b = rnd.randrange(1, 4)
            ds = ds.prefetch(1, b)
            r = (lambda r: R(r.gen, None, r.n, r.depth))(r)
            slack = b + 1
            name = 'prefetch(1,%d)' % b
        elif name == 'prefetch_mt':
            if (slack is not None and not stacked) or not r.get:
                continue
            b = rnd.randrange(2, 5)
            ds = ds.prefetch(2, b)
            r = (lambda r: R(r.gen, None, r.n, r.depth))(r)
            slack, unordered[0] = b + 2, True
            name = 'prefetch(2,%d)' % b
        elif name == 'parmap':
            if slack is not None and not stacked:
                continue
            w = rnd.randrange(1, 3)
            b = rnd.randrange(w, 5)
            f, g = fn_pair('map')
            ds = ds.map(f, num_workers=w, buffer_size=b)
            r = (lambda r, g: R(lambda: (g(x) for x in r.gen()), None, r.n, r.depth))(r, g)
            slack, unordered[0] = b + 2, w > 1
            name = 'map(num_workers=%d,buffer_size=%d)' % (w, b)
        elif name == 'batch_map':
            if (slack is not None and not stacked) or r.depth < 1:
                continue
            w = rnd.randrange(0, 2)
            b = rnd.randrange(1, 4)
            f, g = fn_pair('map')
            ds = ds.batch_map(f, num_workers=w, buffer_size=b)
            r = (lambda r, g: R(lambda: ([g(y) for y in x] for x in r.gen()), (lambda i: [g(y) for y in r.get(i)]) if (r.get and not w) else None, r.n, r.depth))(r, g)
            if w:
                slack = b + 2
            name = 'batch_map(num_workers=%d,buffer_size=%d)' % (w, b)
        desc += '.' + name
        applied += 1
    return ds, r, desc, logs, slack, unordered[0]


def search_demand(tier='quick', seed=0, count=None):
    """C08 across compositions: a random pipeline of lazy combinators with an instrumented user function at every stage is built
    next to a reference made of plain Python generators (which are demand-driven by construction) carrying the same instrumented
    functions.  Checked: construction logs nothing; for every prefix length k of a fresh iteration the log of (stage, example)
    applications EQUALS the reference's log, interleaving included (so: nothing early, nothing twice, source order); with a
    prefetch(1, b) stage in the recipe the interleaving is scheduler-dependent, so per stage the log must be a prefix of the
    full-epoch reference log of that stage, cover the demand of k results and stay within (b + 1) * (fragments per example
    downstream) further results; ds[i] applies exactly what the reference's point evaluation applies."""
    os.environ.setdefault('OMP_NUM_THREADS', '1')
    os.environ.setdefault('MKL_NUM_THREADS', '1')
    import time
    from collections import Counter
    import lazy_dataset
    N = count or (150 if tier == 'quick' else 1500)
    fails, cases = [], 0
    warnings.simplefilter('ignore')
    master = random.Random(4000 + seed)

    def per_stage(log):
        out = {}
        for s, ids in log:
            out.setdefault(s, []).append(ids)
        return out
    while cases < N:
        sub = master.randrange(10 ** 9)
        try:
            ds, r, desc, logs, slack, unordered = _demand_build(sub)
        except Exception:      # noqa   (recipes the library refuses to build belong to the conformance search)
            continue
        if logs['real']:
            fails.append({'scenario': 'constructing ' + desc, 'mismatches': [{'clause': 'construction', 'observed': 'applied %r' % logs['real'][:6], 'expected': 'no user function runs'}]})
            break
        del logs['ref'][:]
        try:
            full = list(r.gen())
        except Exception:      # noqa
            continue
        full_log = list(logs['ref'])
        cases += 1
        bad = None
        for k in range(0, len(full) + 1):
            del logs['real'][:]
            del logs['ref'][:]
            it = r.gen()
            want = [next(it) for _ in range(k)]
            ref_log = list(logs['ref'])
            try:
                rit = iter(ds)
                got = [next(rit) for _ in range(k)]
            except BaseException as e:      # noqa
                bad = ('prefix-values', '%s: %s' % (type(e).__name__, str(e)[:120]), repr(want)[:200])
                break
            if slack is not None:
                time.sleep(0.02)         # let the producer thread run as far ahead as it is allowed to
            real_log = list(logs['real'])
            if hasattr(rit, 'close'):
                rit.close()
            if O.norm(got) != O.norm(want):
                bad = ('prefix-values', repr(got)[:200], repr(want)[:200])
                break
            if slack is None:
                if real_log != ref_log:
                    bad = ('prefix-demand(k=%d)' % k, 'applied (stage, example) %r' % (real_log,), repr(ref_log))
                    break
            else:
                del logs['ref'][:]
                it = r.gen()
                if k + slack >= len(full):
                    list(it)                 # the producer may reach the end of the data (dropped tail, filtered-out examples)
                else:
                    for _ in range(k + slack):
                        next(it)
                hi, lo, al, fl = per_stage(logs['ref']), per_stage(ref_log), per_stage(real_log), per_stage(full_log)
                for s in set(al) | set(lo):
                    a = al.get(s, [])
                    if unordered:
                        ca, ch, cl = Counter(a), Counter(hi.get(s, [])), Counter(lo.get(s, []))
                        if ca - ch:
                            bad = ('read-ahead(k=%d): stage %d, at most %d results ahead, each application once' % (k, s, slack), repr(sorted(a)), 'within %r' % (sorted(hi.get(s, [])),))
                        elif cl - ca:
                            bad = ('prefix-demand(k=%d): stage %d' % (k, s), repr(sorted(a)), 'at least %r' % (sorted(lo.get(s, [])),))
                    elif a != fl.get(s, [])[:len(a)]:
                        bad = ('prefix-demand(k=%d): stage %d in source order, once' % (k, s), repr(a), 'a prefix of %r' % (fl.get(s, []),))
                    elif len(a) < len(lo.get(s, [])):
                        bad = ('prefix-demand(k=%d): stage %d' % (k, s), repr(a), 'at least %r' % (lo.get(s),))
                    elif len(a) > len(hi.get(s, [])):
                        bad = ('read-ahead(k=%d): stage %d, at most %d results ahead' % (k, s, slack), repr(a), 'at most %r' % (hi.get(s),))
                if bad:
                    break
        if not bad and r.get and slack is None:
            for i in range(r.n):
                del logs['real'][:]
                del logs['ref'][:]
                want = r.get(i)
                try:
                    got = ds[i]
                except BaseException as e:      # noqa
                    bad = ('point-values [%d]' % i, '%s: %s' % (type(e).__name__, str(e)[:120]), repr(want)[:200])
                    break
                if O.norm(got) != O.norm(want) or sorted(logs['real']) != sorted(logs['ref']):
                    bad = ('point-demand [%d]' % i, 'value %r, applied %r' % (got, sorted(logs['real'])), 'value %r, applied %r' % (want, sorted(logs['ref'])))
                    break
        if bad:
            fails.append({'scenario': desc, 'mismatches': [{'clause': bad[0], 'observed': bad[1][:400], 'expected': bad[2][:400]}]})
            if len(fails) >= 3:
                break
    return cases, fails


def _second(kv):
    return kv[1]


# ------------------------------------------------------------------ stopping across compositions (C05)
def search_stop(tier='quick', seed=0, count=None):
    """C05 across compositions: the random recipes of the demand search, now with one OR SEVERAL buffering stages (stacked
    prefetch(1,b) / prefetch(2,b) / map(num_workers) / batch_map(num_workers) with lazy stages in between), are stopped after
    k results (k = 0, 1, the middle, all) by close(), by dropping the iterator, and by an exception thrown into it.  Checked:
    the stop returns within 20 s (no deadlock); when it has returned no user function runs any more (application log
    unchanged 50 ms later) and every thread the iteration started has exited (a pool thread may take a moment to finish its
    bookkeeping; one that is still alive after 2 s is reported)."""
    os.environ.setdefault('OMP_NUM_THREADS', '1')
    os.environ.setdefault('MKL_NUM_THREADS', '1')
    import gc
    import signal
    import threading
    import time
    N = count or (60 if tier == 'quick' else 600)
    fails, cases = [], 0
    warnings.simplefilter('ignore')
    master = random.Random(7000 + seed)

    class Hang(BaseException):
        pass

    def on_alarm(signum, frame):
        raise Hang()
    old_handler = signal.signal(signal.SIGALRM, on_alarm)
    try:
        while cases < N and len(fails) < 3:
            sub = master.randrange(10 ** 9)
            try:
                ds, r, desc, logs, slack, unordered = _demand_build(sub, stacked=True)
                if slack is None:
                    continue
                m = len(list(r.gen()))
            except Exception:      # noqa
                continue
            cases += 1
            for how in ('close', 'drop', 'throw'):
                for k in sorted({0, 1, m // 2, m}):
                    if k > m:
                        continue
                    ds, r, desc, logs, slack, unordered = _demand_build(sub, stacked=True)
                    before = set(threading.enumerate())
                    bad = None
                    signal.alarm(20)
                    try:
                        it = iter(ds)
                        for _ in range(k):
                            next(it)
                        if how == 'close':
                            it.close()
                        elif how == 'drop':
                            del it
                            gc.collect()
                        else:
                            try:
                                it.throw(KeyboardInterrupt()) if k else it.close()
                            except KeyboardInterrupt:
                                pass
                            except StopIteration:
                                pass
                        signal.alarm(0)
                    except Hang:
                        bad = ('returns-in-finite-time', 'no return within 20 s', 'the stop returns')
                    except BaseException as e:      # noqa
                        signal.alarm(0)
                        bad = ('stop', '%s: %s' % (type(e).__name__, str(e)[:120]), 'the stop returns normally')
                    if bad is None:
                        c0 = len(logs['real'])
                        alive = [t for t in threading.enumerate() if t not in before and t.is_alive()]
                        time.sleep(0.05)
                        c1 = len(logs['real'])
                        if c1 != c0:
                            bad = ('no-user-code-after-the-stop', '%d further applications: %r' % (c1 - c0, logs['real'][c0:c0 + 4]), 'none')
                        elif alive:
                            # a pool thread that is just finishing its bookkeeping is tolerated for a moment; a thread that stays is not
                            t0 = time.time()
                            while time.time() - t0 < 2 and any(t.is_alive() for t in alive):
                                time.sleep(0.01)
                            left = [t.name for t in alive if t.is_alive()]
                            if left:
                                bad = ('background-threads-have-exited', 'still alive after 2 s: %r' % left, 'none')
                    if bad:
                        fails.append({'scenario': '%s; %s after %d of %d results' % (desc, how, k, m),
                                      'mismatches': [{'clause': bad[0], 'observed': bad[1], 'expected': bad[2]}]})
                        break
                if fails and fails[-1]['scenario'].startswith(desc):
                    break
            # an error inside the pipeline (Exception and BaseException kinds) instead of a consumer stop
            n0 = int(desc[len('src['):desc.index(']')])
            for exc in (O.Boom, O.BoomBase):
                if (fails and fails[-1]['scenario'].startswith(desc)) or not n0:
                    break
                pos = master.randrange(n0)
                ds, r, desc, logs, slack, unordered = _demand_build(sub, stacked=True, boom=(pos, exc))
                before = set(threading.enumerate())
                bad = None
                signal.alarm(20)
                try:
                    try:
                        for _ in ds:
                            pass
                        ended = 'ended normally'
                    except (O.Boom, O.BoomBase) as e:
                        ended = type(e).__name__
                    signal.alarm(0)
                except Hang:
                    bad = ('returns-in-finite-time', 'no return within 20 s', 'the iteration ends')
                except BaseException as e:      # noqa
                    signal.alarm(0)
                    ended = type(e).__name__
                if bad is None:
                    c0 = len(logs['real'])
                    alive = [t for t in threading.enumerate() if t not in before and t.is_alive()]
                    time.sleep(0.05)
                    if len(logs['real']) != c0:
                        bad = ('no-user-code-after-the-error', '%d further applications' % (len(logs['real']) - c0), 'none')
                    else:
                        t0 = time.time()
                        while time.time() - t0 < 2 and any(t.is_alive() for t in alive):
                            time.sleep(0.01)
                        left = [t.name for t in alive if t.is_alive()]
                        if left:
                            bad = ('background-threads-have-exited', 'still alive after 2 s: %r' % left, 'none')
                if bad:
                    fails.append({'scenario': '%s; %s raised by the first stage at example %d' % (desc, exc.__name__, pos),
                                  'mismatches': [{'clause': bad[0], 'observed': bad[1], 'expected': bad[2]}]})
    finally:
        signal.alarm(0)
        signal.signal(signal.SIGALRM, old_handler)
    return cases, fails


# ------------------------------------------------------------------ the laws at every position of random pipelines (C16)
def _gf(x):
    return _g(_f(x))


def _batch_f(xs):
    return [_f(x) for x in xs]


def search_laws(tier='quick', seed=0, count=None):
    """C16 across compositions: a random pipeline P (0..3 operations of the conformance search, errors excluded) is the
    operand of a randomly chosen law; both sides of the law are built on P, the SAME random suffix of 0..2 operations is put on
    top of both, and both results are observed completely (len, indexable, two iterations, items, keys, every index in
    [-n-2, n+2) also as numpy scalars, present and absent keys; which exception refuses an undefined operation is not part
    of a law).  Laws: map fusion; map over slice / index list / shuffle / sort by keys / concatenation / cache / batch;
    nested slices compose; concatenate(split(k)) = identity; tile(2) = 2-fold concatenation; batch(b).unbatch() = identity
    (iteration); filter commutes with an increasing selection (iteration)."""
    os.environ.setdefault('OMP_NUM_THREADS', '1')
    os.environ.setdefault('MKL_NUM_THREADS', '1')
    import numpy as np
    import lazy_dataset
    from harness import laws_standin as LS
    OPS = ops()
    safe = [n for n in sorted(OPS) if n not in ('boom_map', 'catch', 'snapshot', 'prefetch', 'parmap', 'cache')]
    N = count or (200 if tier == 'quick' else 2000)
    fails, cases = [], 0
    warnings.simplefilter('ignore')
    master = random.Random(12000 + seed)

    def source(rnd, base=0):
        n = rnd.randrange(0, 6)
        vals = [base + 10 * (i + 1) for i in range(n)]
        if rnd.random() < 0.6:
            keys = ['%s%d' % ('q' if base else 'k', i) for i in range(n)]
            return lazy_dataset.new(dict(zip(keys, vals))), Ref([('v', v) for v in vals], keys), 'dict[%d]' % n
        return lazy_dataset.new(list(vals)), Ref([('v', v) for v in vals]), 'list[%d]' % n

    def apply_ops(ds_list, r, rnd_seed, k, names):
        """the same k operations (same parameters) on every dataset of ds_list; -> (datasets, ref, description) or None"""
        desc = ''
        rnds = [random.Random(rnd_seed) for _ in ds_list]
        pick = random.Random(rnd_seed + 1)
        applied = tries = 0
        while applied < k and tries < 10:
            tries += 1
            name = pick.choice(names)
            states = [rn.getstate() for rn in rnds]
            res = [OPS[name](d, r, rn) for d, rn in zip(ds_list, rnds)]
            if any(x is None for x in res):
                for rn, stt in zip(rnds, states):
                    rn.setstate(stt)
                continue
            ds_list = [x[0] for x in res]
            r = res[0][1]
            desc += '.' + name
            applied += 1
        return ds_list, r, desc
    while cases < N and len(fails) < 3:
        rnd = random.Random(master.randrange(10 ** 9))
        try:
            ds, r, desc = source(rnd)
            (ds,), r, d2 = apply_ops([ds], r, rnd.randrange(10 ** 6), rnd.randrange(0, 4), safe)
            desc += d2
        except Exception:      # noqa
            continue
        if not _vals_ok(r):
            continue
        n = r.n
        law = rnd.choice(('fusion', 'map-slice', 'nested', 'concat-split', 'tile', 'map-shuffle', 'map-sort', 'map-concat', 'map-cache',
                          'map-batch', 'batch-unbatch', 'filter-slice'))
        only = None
        rr_of = None
        try:
            if law == 'fusion':
                a, b = ds.map(_f).map(_g), ds.map(_gf)
                rr_of = lambda: O.ref_map(r, _gf)       # noqa
            elif law == 'map-slice':
                if not r.idx:
                    continue
                spec = rnd.choice(_slice_specs(n, rnd))
                a, b = ds.map(_f)[spec], ds[spec].map(_f)
                rr_of = lambda: O.ref_map(O.ref_slice(r, _positions(n, spec)), _f)       # noqa
                law += ' %r' % (spec,)
            elif law == 'nested':
                if not r.idx:
                    continue
                s1 = rnd.choice([s_ for s_ in _slice_specs(n, rnd) if isinstance(s_, slice)])
                s2 = rnd.choice([slice(1, None), slice(None, None, 2), slice(None, None, -1), slice(-2, None), slice(None, 1)])
                idx = list(range(n))[s1][s2]
                a, b = ds[s1][s2], (ds[idx] if idx else ds[:0])
                rr_of = lambda: O.ref_slice(r, idx)       # noqa
                law += ' [%s][%s]' % (s1, s2)
            elif law == 'concat-split':
                if not (r.idx and n):
                    continue
                k = rnd.randrange(1, min(n, 3) + 1)
                a, b = lazy_dataset.concatenate(*ds.split(k)), ds
                law += ' k=%d' % k
            elif law == 'tile':
                if not (r.len_ and n):
                    continue
                a, b = ds.tile(2), lazy_dataset.concatenate(ds, ds)
                rr_of = lambda: O.ref_concat([r, r])       # noqa
            elif law == 'map-shuffle':
                if not r.idx:
                    continue
                s_ = rnd.randrange(100)
                a, b = ds.map(_f).shuffle(rng=np.random.RandomState(s_)), ds.shuffle(rng=np.random.RandomState(s_)).map(_f)
            elif law == 'map-sort':
                if not (r.idx and r.has_keys):
                    continue
                a, b = ds.map(_f).sort(), ds.sort().map(_f)
            elif law == 'map-concat':
                q, rq, _ = source(rnd, base=5000)
                a, b = ds.map(_f).concatenate(q.map(_f)), ds.concatenate(q).map(_f)
                rr_of = lambda: O.ref_map(O.ref_concat([r, rq]), _f)       # noqa
            elif law == 'map-cache':
                if not r.idx:
                    continue
                a, b = ds.map(_f).cache(), ds.cache().map(_f)
            elif law == 'map-batch':
                bs = rnd.randrange(1, 4)
                a, b = ds.map(_f).batch(bs), ds.batch(bs).map(_batch_f)
                rr_of = lambda: O.ref_batch(O.ref_map(r, _f), bs, False)       # noqa
                law += ' b=%d' % bs
            elif law == 'batch-unbatch':
                bs = rnd.randrange(1, 4)
                a, b = ds.batch(bs).unbatch(), ds
                only = ('iter0', 'iter1')
                law += ' b=%d' % bs
            else:
                if not r.idx:
                    continue
                sl = rnd.choice([slice(1, None), slice(None, None, 2), slice(None, -1), slice(1, None, 3)])
                pos = [i for i in list(range(n))[sl] if _p(r.outs[i][1])]
                a, b = ds[sl].filter(_p), (ds[pos] if pos else ds[:0])
                only = ('iter0', 'iter1')
                law += ' [%s]' % (sl,)
        except Exception as e:      # noqa
            fails.append({'scenario': '%s; law %s' % (desc, law), 'mismatches': [{'clause': 'law:construction', 'observed': '%s: %s' % (type(e).__name__, str(e)[:120]), 'expected': 'both sides can be built'}]})
            continue
        cases += 1
        # the reference of the law's result (only to steer which suffix operations are applicable)
        try:
            rr = rr_of() if rr_of is not None else None
        except Exception:      # noqa
            rr = None
        sdesc = ''
        if rr is not None and only is None:
            try:
                (a, b), rr, sdesc = apply_ops([a, b], rr, rnd.randrange(10 ** 6), rnd.randrange(0, 3), safe)
            except Exception as e:      # noqa
                fails.append({'scenario': '%s; law %s; suffix' % (desc, law), 'mismatches': [{'clause': 'law:suffix-construction', 'observed': '%s: %s' % (type(e).__name__, str(e)[:120]), 'expected': 'same operations apply to both sides'}]})
                continue
        probe = [k for k in (r.keys or [])][:3]
        try:
            oa, ob = LS._obs(a, probe), LS._obs(b, probe)
        except BaseException as e:      # noqa
            fails.append({'scenario': '%s; law %s%s' % (desc, law, sdesc), 'mismatches': [{'clause': 'law:observation', 'observed': '%s: %s' % (type(e).__name__, str(e)[:120]), 'expected': 'observable'}]})
            continue
        f28 = r.keys is not None and not r.has_keys        # keys exist but are refused (duplicates): selections on top cannot pair them -- listed finding F28

        def refusal(o):
            # items() that ends with an exception is a refusal, however many correctly paired items came before it (a
            # concatenation of a keyed and a key-less part refuses when it reaches the key-less part)
            return 'refused' if (isinstance(o, tuple) and len(o) == 2 and isinstance(o[1], tuple) and o[1] and o[1][0] in ('e', 'E')) else o
        for k_ in (only or ('len', 'indexable', 'iter0', 'iter1', 'getitem', 'getitem_np', 'keys', 'items', 'getkey')):
            if f28 and k_ == 'items':
                continue
            va, vb = oa.get(k_), ob.get(k_)
            if k_ == 'items':
                va, vb = refusal(va), refusal(vb)
            if k_ in ('keys', 'items', 'getkey'):
                # duplicate keys (a selection that repeats a position): a concatenation refuses them, a selection lists them --
                # the uniqueness policy of keys() is not part of a law
                dup = [o for o in (oa.get('keys'), ob.get('keys')) if isinstance(o, tuple) and o and o[0] == 'v' and len(set(o[1])) != len(o[1])]
                if dup and 'refused' in (oa.get('keys'), ob.get('keys'), va, vb):
                    continue
            if va != vb:
                fails.append({'scenario': '%s; law %s%s' % (desc, law, sdesc),
                              'mismatches': [{'clause': 'law:' + k_, 'observed': repr(va)[:300], 'expected': repr(vb)[:300]}]})
                break
    return cases, fails
