"""Bounded stand-in across COMPOSITIONS (labelled bounded; never counted as proved): random pipelines of depth 1..4 over
small dict- and list-backed sources, built from the stages of the C01 grammar, are observed completely (len, indexable,
two iterations, items, keys, every index in [-n-2, n+2) also as numpy scalars, present and absent keys) and compared with
the eager reference built by the same sequence of list operations (harness/oracle.py).  The single-stage scenario sets
exercise each class alone; this search exercises what a stage does on top of ANOTHER derived dataset (a sort over a key
list, a split of a slice whose keys were queried, a batch over a concatenation ...).
Deterministic for a given seed (VERIF_SEED); the number of pipelines is the stated bound."""
import random
import warnings

from harness import oracle as O
from harness.oracle import Ref


def _vals_ok(r):
    return all(o[0] == 'v' for o in r.outs)


def _f(x):
    return ('f', x)


def _g(x):
    return ('g', x)


def _p(x):
    return len(repr(x)) % 2 == 0


def _sort_key(x):
    return repr(x)


def _slice_specs(n, rnd):
    specs = [slice(None), slice(1, None), slice(None, -1), slice(None, None, 2), slice(None, None, -1), slice(-2, None),
             slice(0, 0)]
    if n:
        specs += [[rnd.randrange(n) for _ in range(rnd.randrange(1, n + 2))], [n - 1, 0], [0, 0], [-1],
                  [rnd.random() < 0.5 for _ in range(n)], tuple(range(n))[::-1]]
    return specs


def _positions(n, spec):
    import numpy as np
    if isinstance(spec, slice):
        return list(range(n))[spec]
    if len(spec) and isinstance(spec[0], bool):
        return [i for i, b in enumerate(spec) if b]
    return [int(p) for p in np.arange(n)[list(spec),]]


def ops():
    """name -> apply(ds, ref, rnd) -> (ds, ref) | None when the operation is not applicable to this dataset"""
    import lazy_dataset

    def op_map(ds, r, rnd):
        return ds.map(_f), O.ref_map(r, _f)

    def op_slice(ds, r, rnd):
        if not r.idx:
            return None
        spec = rnd.choice(_slice_specs(r.n, rnd))
        return ds[spec], O.ref_slice(r, _positions(r.n, spec))

    def op_keylist(ds, r, rnd):
        if not (r.has_keys and r.idx and r.n):
            return None
        ks = [rnd.choice(r.keys) for _ in range(rnd.randrange(1, r.n + 1))]
        ks = list(dict.fromkeys(ks))
        ks = ks if rnd.random() < 0.5 else tuple(ks)
        return ds[ks], O.ref_slice(r, [r.keys.index(k) for k in ks])

    def op_concat(ds, r, rnd):
        m = rnd.randrange(0, 3)
        if r.keys is not None and rnd.random() < 0.7:
            other_keys = ['z%d' % i for i in range(m)] if rnd.random() < 0.7 else list(dict.fromkeys(r.keys[:m]))
            vals = [1000 + i for i in range(len(other_keys))]
            other = lazy_dataset.new(dict(zip(other_keys, vals)))
            ro = Ref([('v', v) for v in vals], other_keys)
        else:
            vals = [2000 + i for i in range(m)]
            other = lazy_dataset.new(list(vals))
            ro = Ref([('v', v) for v in vals])
        return ds.concatenate(other), O.ref_concat([r, ro])

    def op_tile(ds, r, rnd):
        if not r.len_:
            return None
        return ds.tile(2), O.ref_concat([r, r])

    def op_zip(ds, r, rnd):
        if not r.len_:
            return None
        return ds.zip(ds.map(_g)), O.ref_zip([r, O.ref_map(r, _g)])

    def op_key_zip(ds, r, rnd):
        if not (r.has_keys and r.idx):
            return None
        return ds.key_zip(ds.map(_g)), O.ref_key_zip([r, O.ref_map(r, _g)])

    def op_items(ds, r, rnd):
        if not r.has_keys:
            return None
        return ds.items(), O.ref_items(r)

    def op_batch(ds, r, rnd):
        b = rnd.randrange(1, 4)
        drop = rnd.random() < 0.4
        return ds.batch(b, drop_last=drop), O.ref_batch(r, b, drop)

    def op_batch_unbatch(ds, r, rnd):
        b = rnd.randrange(1, 4)
        return ds.batch(b).unbatch(), Ref(r.outs, None, False, False)

    def op_filter(ds, r, rnd):
        return ds.filter(_p), O.ref_filter(r, _p)

    def op_filter_eager(ds, r, rnd):
        if not (r.idx and _vals_ok(r)):
            return None
        pos = [i for i, o in enumerate(r.outs) if _p(o[1])]
        return ds.filter(_p, lazy=False), O.ref_slice(r, pos)

    def op_sort(ds, r, rnd):
        if not (r.idx and _vals_ok(r)):
            return None
        rev = rnd.random() < 0.5
        order = sorted(range(r.n), key=lambda i: (_sort_key(r.outs[i][1]), i), reverse=rev)
        return ds.sort(_sort_key, reverse=rev), O.ref_slice(r, order)

    def op_sort_keys(ds, r, rnd):
        if not (r.idx and r.has_keys):
            return None
        rev = rnd.random() < 0.5
        order = sorted(range(r.n), key=lambda i: r.keys[i], reverse=rev)
        return ds.sort(reverse=rev), O.ref_slice(r, order)

    def op_cache(ds, r, rnd):
        if not r.idx:
            return None
        c = ds.cache()
        if r.n and rnd.random() < 0.5 and _vals_ok(r):
            c[-1]       # an out-of-order first access
        # a cache pairs keys and examples through keys(): it offers items() exactly when its input offers keys()
        return c, Ref(r.outs, r.keys, r.idx, r.len_, has_keys=r.has_keys, has_items=r.has_keys)

    def op_copy(ds, r, rnd):
        with warnings.catch_warnings():
            warnings.simplefilter('ignore')
            return ds.copy(freeze=rnd.random() < 0.5), r

    def op_prefetch(ds, r, rnd):
        w = rnd.choice((1, 2))
        if w > 1 and not r.idx:
            return None
        b = rnd.choice((w, w + 2))
        # single thread: the input's key iteration is passed through; several workers: the keys come from keys() of the input
        return ds.prefetch(w, b), Ref(r.outs, r.keys, False, r.len_, has_keys=False, has_items=r.has_items if w == 1 else r.has_keys)

    def op_split(ds, r, rnd):
        if not (r.idx and r.n):
            return None
        k = rnd.randrange(1, min(r.n, 3) + 1)
        i = rnd.randrange(k)
        import numpy as np
        parts = np.array_split(np.arange(r.n), k)
        pos = [int(p) for p in parts[i]]
        if rnd.random() < 0.5:
            return ds.split(k)[i], O.ref_slice(r, pos)
        return ds.shard(k, i), O.ref_slice(r, pos)

    def op_intersperse(ds, r, rnd):
        if not (r.len_ and r.n):
            return None
        m = rnd.randrange(1, 4)
        vals = [3000 + i for i in range(m)]
        if r.keys is not None:
            ok = ['y%d' % i for i in range(m)]
            other, ro = lazy_dataset.new(dict(zip(ok, vals))), Ref([('v', v) for v in vals], ok)
        else:
            other, ro = lazy_dataset.new(list(vals)), Ref([('v', v) for v in vals])
        return ds.intersperse(other), O.ref_intersperse([r, ro])

    def op_snapshot(ds, r, rnd):
        if not _vals_ok(r):
            return None
        snap = lazy_dataset.from_dataset(ds) if rnd.random() < 0.5 else lazy_dataset.new(ds)
        keys = r.keys if (r.has_items and r.keys is not None and len(set(r.keys)) == len(r.keys)) else None
        return snap, Ref(r.outs, keys)

    def op_touch_keys(ds, r, rnd):
        # queries that may fill lazily cached state (keys, a key lookup, a length) -- no change of meaning
        if r.has_keys:
            ds.keys()
            if r.n:
                try:
                    ds[r.keys[0]]
                except Exception:      # noqa
                    pass
        if r.len_:
            len(ds)
        return ds, r
    return {k[3:]: v for k, v in locals().items() if k.startswith('op_')}


def search(tier='quick', seed=0, count=None):
    import lazy_dataset
    rnd = random.Random(1000 + seed)
    OPS = ops()
    names = sorted(OPS)
    N = count or (250 if tier == 'quick' else 2500)
    fails, cases = [], 0
    warnings.simplefilter('ignore')
    while cases < N:
        n = rnd.randrange(0, 6)
        vals = [10 * (i + 1) for i in range(n)]
        if rnd.random() < 0.6:
            keys = [chr(ord('a') + i) for i in range(n)]
            ds, r = lazy_dataset.new(dict(zip(keys, vals))), Ref([('v', v) for v in vals], keys)
            desc = 'dict[%d]' % n
        else:
            ds, r = lazy_dataset.new(list(vals)), Ref([('v', v) for v in vals])
            desc = 'list[%d]' % n
        depth = rnd.randrange(1, 5)
        applied = 0
        tries = 0
        try:
            while applied < depth and tries < 12:
                tries += 1
                name = rnd.choice(names)
                res = OPS[name](ds, r, rnd)
                if res is None:
                    continue
                ds, r = res
                desc += '.' + name
                applied += 1
        except Exception as e:      # noqa
            if isinstance(e, AssertionError) and 'Keys are not unique' in str(e) and not r.has_keys:
                continue        # listed finding F28 (keys exist but are refused below a selection): has its own probe
            cases += 1
            fails.append({'scenario': desc + '.' + name, 'mismatches': [{'clause': 'construction', 'observed': '%s: %s' % (type(e).__name__, str(e)[:120]),
                                                                           'expected': 'the pipeline can be built'}]})
            if len(fails) >= 3:
                break
            continue
        cases += 1
        probe = [k for k in (r.keys or [])][:3]
        try:
            ob = O.observe(ds, probe_keys=probe)
        except BaseException as e:      # noqa
            fails.append({'scenario': desc, 'mismatches': [{'clause': 'observation', 'observed': '%s: %s' % (type(e).__name__, str(e)[:120]), 'expected': 'observable'}]})
            continue
        ex = O.expected(r, probe_keys=probe)
        if getattr(r, 'tail_exc', None) is not None:
            continue
        bad = O.compare(ob, ex, None)
        if bad:
            fails.append({'scenario': desc, 'mismatches': [{'clause': b[0], 'observed': repr(b[1])[:300], 'expected': repr(b[2])[:300]} for b in bad[:4]]})
            if len(fails) >= 3:
                break
    return cases, fails


if __name__ == '__main__':
    import sys
    c, f = search(sys.argv[1] if len(sys.argv) > 1 else 'quick', int(sys.argv[2]) if len(sys.argv) > 2 else 0)
    print(c, len(f))
    for x in f[:5]:
        print(x)


# ------------------------------------------------------------------ isolation across compositions (C09)
def _deep_mutate(x, depth=0):
    import numpy as np
    if depth > 6:
        return
    if isinstance(x, dict):
        for v in list(x.values()):
            _deep_mutate(v, depth + 1)
        x['MUTATED'] = 1
    elif isinstance(x, list):
        for v in list(x):
            _deep_mutate(v, depth + 1)
        x.append('MUTATED')
    elif isinstance(x, tuple):
        for v in x:
            _deep_mutate(v, depth + 1)
    elif isinstance(x, np.ndarray) and x.size and x.dtype != object:
        x[...] = -7


def search_isolation(tier='quick', seed=0, count=None):
    """C09 across compositions: a random pipeline (same operations as above) over a source made by new() in a random
    immutability mode and example shape, optionally with a memory / disk cache somewhere in it, is built three times:
      twin 0 is observed untouched (the pristine observation), then everything it hands out is mutated and it is observed
             again (hits);
      twin 1: the ORIGINAL container and examples are mutated right after construction (pickle and wu modes), then observed;
      twin 2: every example is mutated at its FIRST hand-out (misses: iteration, items, indices, keys, a copy), then observed.
    Every observation must equal the pristine one."""
    import shutil
    import tempfile
    import numpy as np
    import lazy_dataset
    OPS = ops()
    names = [n for n in sorted(OPS) if n not in ('snapshot',)]
    root = tempfile.mkdtemp(prefix='verif_fz_')
    counter = [0]
    N = count or (400 if tier == 'quick' else 4000)
    fails, cases = [], 0
    warnings.simplefilter('ignore')
    master = random.Random(5000 + seed)

    def mk_example(i, shape):
        if shape == 'dict':
            return {'v': [i, i + 1], 'arr': np.arange(3) + i, 'nested': {'l': [i]}}
        if shape == 'tuple':
            return ([i, i + 1], np.arange(3) + i, {'l': [i]})
        if shape == 'big-array':
            return np.arange(9000) + i
        return [[i], {'l': [i]}]

    def build(sub):
        rnd = random.Random(sub)
        n = rnd.randrange(1, 5)
        shape = rnd.choice(('dict', 'dict', 'tuple', 'list', 'big-array'))
        mode = rnd.choice(('pickle', 'copy', 'wu'))
        if mode != 'wu' and rnd.random() < 0.6:
            keys = [chr(ord('a') + i) for i in range(n)]
            orig = {k: mk_example(i, shape) for i, k in enumerate(keys)}
            ds = lazy_dataset.new(orig, immutable_warranty=mode)
            r = Ref([('v', i) for i in range(n)], keys)
            desc = "new(dict[%d] of %s, %r)" % (n, shape, mode)
        else:
            orig = [mk_example(i, shape) for i in range(n)]
            ds = lazy_dataset.new(orig, immutable_warranty=mode) if mode != 'wu' else lazy_dataset.from_list(orig, immutable_warranty='wu')
            r = Ref([('v', i) for i in range(n)])
            desc = "new(list[%d] of %s, %r)" % (n, shape, mode)
        depth = rnd.randrange(0, 4)
        applied = tries = 0
        while applied < depth and tries < 12:
            tries += 1
            name = rnd.choice(names + ['cache', 'cache', 'diskcache'])
            if name == 'diskcache':
                if not r.idx:
                    continue
                counter[0] += 1
                ds = ds.diskcache('%s/c%d' % (root, counter[0]))
                desc += '.diskcache'
                applied += 1
                continue
            if name in ('sort', 'filter', 'filter_eager') and shape == 'big-array':
                continue        # repr-based predicates on big arrays are slow and add nothing
            res = OPS[name](ds, r, rnd)
            if res is None:
                continue
            ds, r = res
            desc += '.' + name
            applied += 1
        return ds, r, desc, orig, mode

    def snapshot(ds, r):
        probe = [k for k in (r.keys or [])][:3]
        ob = O.observe(ds, probe_keys=probe)
        ob.pop('getitem_np', None)
        return repr(ob)

    def mutate_all(ds, r):
        probe = [k for k in (r.keys or [])][:3]
        for x in ds:
            _deep_mutate(x)
        for thunk in ([lambda: [_deep_mutate(x) for _, x in ds.items()]]
                      + ([lambda i=i: _deep_mutate(ds[i]) for i in range(r.n)] + [lambda i=i: _deep_mutate(ds[i - r.n]) for i in range(r.n)] if r.idx else [])
                      + [lambda k=k: _deep_mutate(ds[k]) for k in probe]
                      + [lambda: [_deep_mutate(x) for x in ds.copy()]]):
            try:
                thunk()
            except Exception:      # noqa
                pass
    np.set_printoptions(threshold=20)
    while cases < N:
        sub = master.randrange(10 ** 9)
        try:
            ds0, r, desc, _, mode = build(sub)
        except Exception:      # noqa  (construction problems belong to the conformance search)
            continue
        cases += 1
        try:
            base = snapshot(ds0, r)
            mutate_all(ds0, r)
            after_hits = snapshot(ds0, r)
            results = [('every handed-out example mutated (after a first pristine pass)', after_hits)]
            ds1, r1, _, orig, _ = build(sub)
            if mode in ('pickle', 'wu'):
                for x in (orig.values() if isinstance(orig, dict) else orig):
                    _deep_mutate(x)
                if isinstance(orig, dict):
                    orig['zzz'] = 1
                else:
                    orig.append(1)
                results.append(('the original container and examples mutated right after construction', snapshot(ds1, r1)))
            ds2, r2, _, _, _ = build(sub)
            mutate_all(ds2, r2)
            results.append(('every example mutated at its FIRST hand-out', snapshot(ds2, r2)))
        except BaseException as e:      # noqa
            fails.append({'scenario': desc, 'mismatches': [{'clause': 'observation', 'observed': '%s: %s' % (type(e).__name__, str(e)[:120]), 'expected': 'observable'}]})
            continue
        for what, got in results:
            if got != base:
                i = next((j for j in range(min(len(base), len(got))) if base[j] != got[j]), 0)
                fails.append({'scenario': desc + '; ' + what, 'mismatches': [{'clause': 'isolation-of-handed-out-examples',
                                                                            'observed': got[max(0, i - 80):i + 120], 'expected': base[max(0, i - 80):i + 120]}]})
                break
        if len(fails) >= 3:
            break
    import gc
    ds0 = ds1 = ds2 = None
    gc.collect()
    shutil.rmtree(root, ignore_errors=True)
    return cases, fails
