"""Native run-time oracle (runs under /venv/bin/python against the real lazy_dataset):
the executable mirror of the spec table (DESIGN section 3) plus an observer of real
datasets.  Used for (a) replaying / searching counterexamples of failed obligations,
(b) bounded conformance runs (labelled bounded, never counted as proved),
(c) sanity of the specification itself.

A reference dataset is `Ref(outs, keys, idx, len_, has_keys, has_items)`:
outs[i] = ('v', value) or ('e', exception class name).
"""
import itertools
import numbers


class Boom(Exception):
    pass


class BoomIndex(IndexError):
    pass


class BoomBase(BaseException):
    pass


class Ref:
    def __init__(self, outs, keys=None, idx=True, len_=True, has_keys=None, has_items=None, infinite=False):
        self.outs = list(outs)
        self.keys = list(keys) if keys is not None else None
        self.idx = idx
        self.len_ = len_
        self.has_keys = (keys is not None) if has_keys is None else has_keys
        self.has_items = (keys is not None) if has_items is None else has_items

    @property
    def n(self):
        return len(self.outs)


EXC_BASES = {}


def _note(e):
    EXC_BASES[type(e).__name__] = [c.__name__ for c in type(e).__mro__]
    return type(e).__name__


def is_a(name, base):
    return base in EXC_BASES.get(name, [name])


def outcome(thunk):
    try:
        return ('v', thunk())
    except Exception as e:      # noqa
        return ('e', _note(e))
    except BaseException as e:  # noqa
        return ('E', _note(e))


def norm(x):
    """Make values comparable (tuples/lists structurally)."""
    if isinstance(x, (list, tuple)):
        return (type(x).__name__, tuple(norm(i) for i in x))
    return x


# ------------------------------------------------------------------ observation
ABSENT_KEYS = ['zzz_absent', '']


def observe(ds, probe_keys=(), index_range=None, max_iter=10000):
    """Everything a user can see of a finite dataset."""
    ob = {}
    ob['len'] = outcome(lambda: len(ds))
    try:
        ob['indexable'] = ('v', bool(ds.indexable))
    except Exception as e:  # noqa
        ob['indexable'] = ('e', _note(e))
    for rep in (0, 1):
        seq = []
        end = ('end',)
        try:
            for x in itertools.islice(iter(ds), max_iter):
                seq.append(norm(x))
        except Exception as e:  # noqa
            end = ('e', _note(e))
        except BaseException as e:  # noqa
            end = ('E', _note(e))
        ob['iter%d' % rep] = (seq, end)
    seq = []
    end = ('end',)
    try:
        for x in itertools.islice(iter(ds.items()), max_iter):
            seq.append(norm(x))
    except Exception as e:  # noqa
        end = ('e', _note(e))
    except BaseException as e:  # noqa
        end = ('E', _note(e))
    ob['items'] = (seq, end)
    ob['keys'] = outcome(lambda: tuple(ds.keys()))
    n = ob['len'][1] if ob['len'][0] == 'v' else len(ob['iter0'][0])
    rng = index_range if index_range is not None else range(-n - 2, n + 2)
    ob['getitem'] = {}
    if ob['indexable'] == ('v', True):
        for i in rng:
            o = outcome(lambda: ds[i])
            ob['getitem'][i] = (o[0], norm(o[1]) if o[0] == 'v' else o[1])
    # the same indices as numpy fixed-width scalars (C02: "including numpy integer types")
    ob['getitem_np'] = {}
    if ob['indexable'] == ('v', True):
        import numpy as np
        import warnings
        for dt in (np.int8, np.uint8, np.int64):
            for i in rng:
                try:
                    v = dt(i)
                except OverflowError:
                    continue
                with warnings.catch_warnings():
                    warnings.simplefilter('ignore')
                    o = outcome(lambda: ds[v])
                ob['getitem_np'][(dt.__name__, i)] = (o[0], norm(o[1]) if o[0] == 'v' else o[1])
    ob['getkey'] = {}
    for k in list(probe_keys) + ABSENT_KEYS:
        o = outcome(lambda: ds[k])
        ob['getkey'][k] = (o[0], norm(o[1]) if o[0] == 'v' else o[1])
    return ob


def expected(ref, probe_keys=()):
    """The observation the eager reference semantics predicts (None = not specified)."""
    ex = {}
    ex['len'] = ('v', ref.n) if ref.len_ else ('e', 'TypeError')
    ex['indexable'] = ('v', bool(ref.idx))
    seq = []
    end = ('end',)
    for o in ref.outs:
        if o[0] == 'v':
            seq.append(norm(o[1]))
        else:
            end = (o[0], o[1])
            break
    ex['iter0'] = ex['iter1'] = (seq, end)
    if ref.has_items:
        seq = []
        end = ('end',)
        for k, o in zip(ref.keys, ref.outs):
            if o[0] == 'v':
                seq.append(norm((k, o[1])))
            else:
                end = (o[0], o[1])
                break
        ex['items'] = (seq, end)
    else:
        ex['items'] = 'refused'
    ex['keys'] = ('v', tuple(ref.keys)) if ref.has_keys else 'undefined'
    ex['getitem'] = {}
    if ref.idx:
        n = ref.n
        for i in range(-n - 2, n + 2):
            if -n <= i < n:
                o = ref.outs[i]
                ex['getitem'][i] = (o[0], norm(o[1]) if o[0] == 'v' else o[1])
            else:
                ex['getitem'][i] = ('e', 'IndexError')
    ex['getkey'] = {}
    if ref.has_keys:
        for k in list(probe_keys) + ABSENT_KEYS:
            if k in ref.keys:
                o = ref.outs[ref.keys.index(k)]
                ex['getkey'][k] = (o[0], norm(o[1]) if o[0] == 'v' else o[1])
            else:
                ex['getkey'][k] = 'lookup-error'
    return ex


LOOKUP_ERRORS = {'KeyError', 'IndexError', 'LookupError', 'KeyErrorCloseMatches'}


def compare(ob, ex, what=None):
    """-> list of mismatches (clause, observed, expected)."""
    bad = []

    def chk(name, o, e):
        if what is not None and name.split('[')[0] not in what:
            return
        if e is None:
            return
        if e == 'refused':
            if not (isinstance(o, tuple) and o[1][0] in ('e', 'E')):
                bad.append((name, o, 'refused loudly'))
            return
        if e == 'undefined':
            if o[0] != 'e':
                bad.append((name, o, 'raises'))
            return
        if e == 'lookup-error':
            if not (o[0] == 'e' and is_a(o[1], 'LookupError')):
                bad.append((name, o, 'LookupError'))
            return
        if e in (('e', 'IndexError'), ('e', 'TypeError')):
            if not (o[0] == 'e' and is_a(o[1], e[1])):
                bad.append((name, o, e))
            return
        if o != e:
            bad.append((name, o, e))

    chk('len', ob['len'], ex['len'])
    chk('indexable', ob['indexable'], ex['indexable'])
    chk('iter', ob['iter0'], ex['iter0'])
    chk('iter-repeat', ob['iter1'], ex['iter1'])
    chk('items', ob['items'], ex['items'])
    chk('keys', ob['keys'], ex['keys'])
    for i, e in ex['getitem'].items():
        if i in ob['getitem']:
            chk('getitem[%d]' % i, ob['getitem'][i], e)
    for (dt, i), o in ob.get('getitem_np', {}).items():
        if i in ex['getitem']:
            chk('getitem[np.%s(%d)]' % (dt, i), o, ex['getitem'][i])
    for k, e in ex['getkey'].items():
        if k in ob['getkey']:
            chk('getkey[%r]' % k, ob['getkey'][k], e)
    return bad


# ------------------------------------------------------------------- sources
def mk_sources(sizes=(0, 1, 2, 3, 5), raising=True):
    """(description, real dataset, Ref) for small list- and dict-backed sources, optionally
    behind a map that raises at chosen positions."""
    import lazy_dataset
    out = []
    for n in sizes:
        vals = [10 * (i + 1) for i in range(n)]
        out.append(('list[%d]' % n, lazy_dataset.new(list(vals)), Ref([('v', v) for v in vals])))
        keys = [chr(ord('a') + i) for i in range(n)]
        out.append(('dict[%d]' % n, lazy_dataset.new(dict(zip(keys, vals))),
                    Ref([('v', v) for v in vals], keys)))
        if raising and n >= 2:
            for exc, bad in ((Boom, {1}), (BoomIndex, {n - 1}), (Boom, {0, n - 1})):
                badv = {vals[i] for i in bad}

                def f(x, badv=badv, exc=exc):
                    if x in badv:
                        raise exc(x)
                    return x
                outs = [('e', exc.__name__) if i in bad else ('v', vals[i]) for i in range(n)]
                out.append(('dict[%d].map(raise %s at %s)' % (n, exc.__name__, sorted(bad)),
                            lazy_dataset.new(dict(zip(keys, vals))).map(f), Ref(outs, keys)))
    return out


# ------------------------------------------------------------ eager mirrors
def ref_map(r, f):
    outs = []
    for o in r.outs:
        if o[0] != 'v':
            outs.append(o)
        else:
            outs.append(outcome(lambda: f(o[1])))
    return Ref(outs, r.keys, r.idx, r.len_, r.has_keys, r.has_items)


def ref_slice(r, positions):
    return Ref([r.outs[p] for p in positions], [r.keys[p] for p in positions] if r.keys is not None else None,
               True, True, r.has_keys, r.has_keys)


def ref_concat(rs):
    outs = [o for r in rs for o in r.outs]
    allk = all(r.keys is not None for r in rs)
    keys = [k for r in rs for k in r.keys] if allk else None
    # keys() of a concatenation needs keys() of every part (a part may offer items() only) and unique keys
    uniq = allk and all(r.has_keys for r in rs) and len(set(keys)) == len(keys)
    return Ref(outs, keys, all(r.idx for r in rs), all(r.len_ for r in rs), has_keys=uniq,
               has_items=allk and all(r.has_items for r in rs))


def ref_zip(rs):
    outs = []
    for i in range(rs[0].n):
        col = [r.outs[i] for r in rs]
        bad = [o for o in col if o[0] != 'v']
        outs.append(bad[0] if bad else ('v', tuple(o[1] for o in col)))
    return Ref(outs, None, all(r.idx for r in rs), True)


def ref_key_zip(rs):
    outs = []
    for k in rs[0].keys:
        col = [r.outs[r.keys.index(k)] for r in rs]
        bad = [o for o in col if o[0] != 'v']
        outs.append(bad[0] if bad else ('v', tuple(o[1] for o in col)))
    return Ref(outs, rs[0].keys, all(r.idx for r in rs), True)


def ref_items(r):
    outs = [(o if o[0] != 'v' else ('v', (k, o[1]))) for k, o in zip(r.keys, r.outs)]
    return Ref(outs, r.keys, r.idx, r.len_, r.has_keys, r.has_items)


def ref_batch(r, b, drop_last):
    outs = []
    n = r.n
    nb = n // b if drop_last else -(-n // b)
    for i in range(nb):
        chunk = r.outs[i * b:(i + 1) * b]
        bad = [o for o in chunk if o[0] != 'v']
        outs.append(bad[0] if bad else ('v', [o[1] for o in chunk]))
    ref = Ref(outs, None, r.idx, r.len_)
    # iteration consumes the whole input: a raising example in the dropped tail surfaces
    tail = r.outs[nb * b:]
    ref.tail_exc = next((o for o in tail if o[0] != 'v'), None)
    return ref


def ref_filter(r, p):
    outs = []
    keys = [] if r.keys is not None else None
    for i, o in enumerate(r.outs):
        if o[0] != 'v':
            outs.append(o)
            if keys is not None:
                keys.append(r.keys[i])
            continue
        t = outcome(lambda: p(o[1]))
        if t[0] != 'v':
            outs.append(t)
            if keys is not None:
                keys.append(r.keys[i])
        elif t[1]:
            outs.append(o)
            if keys is not None:
                keys.append(r.keys[i])
    return Ref(outs, keys, False, False, has_keys=False, has_items=r.has_items)


def ref_catch(r, names):
    outs = []
    keys = [] if r.keys is not None else None
    for i, o in enumerate(r.outs):
        if o[0] != 'v' and o[1] in names:
            continue
        outs.append(o)
        if keys is not None:
            keys.append(r.keys[i])
    return Ref(outs, keys, False, False, has_keys=False, has_items=r.has_keys)


def ref_intersperse(rs):
    order = sorted(((e + 1) / r.n, d, e) for d, r in enumerate(rs) for e in range(r.n))
    outs = [rs[d].outs[e] for _, d, e in order]
    allk = all(r.keys is not None for r in rs)
    keys = [rs[d].keys[e] for _, d, e in order] if allk else None
    uniq = allk and all(r.has_keys for r in rs) and len(set(keys)) == len(keys)
    return Ref(outs, keys, all(r.idx for r in rs), True, has_keys=uniq, has_items=allk and all(r.has_items for r in rs))
