"""Bounded stand-in for DynamicBucketDataset.__iter__ (C17): exhaustive length sequences over a
small alphabet on the real code, checked against the property's clauses.  Labelled bounded."""
import itertools


def run(seq, bs, rate, expiration, max_buf, max_total, drop):
    import lazy_dataset
    pulls = []

    class Src(lazy_dataset.core.Dataset):
        def __iter__(self, with_key=False):
            for i, n in enumerate(seq):
                pulls.append(i)
                yield (i, [0] * n)

        def copy(self, freeze=False):
            return self

        @property
        def ordered(self):
            return True

        @property
        def indexable(self):
            return False
    ds = Src().batch_dynamic_time_series_bucket(
        batch_size=bs, len_key=lambda ex: len(ex[1]), max_padding_rate=rate, max_total_size=max_total,
        expiration=expiration, max_buffered_examples=max_buf, drop_incomplete=drop)
    batches = []
    bad = []
    emitted = 0
    it = iter(ds)
    while True:
        before = len(pulls)
        try:
            b = next(it)
        except StopIteration:
            break
        consumed = len(pulls)
        # withheld examples at every moment the source is asked for another example
        if max_buf is not None and consumed > before and not drop:
            for c in range(before, consumed):
                if c - emitted > max_buf:
                    bad.append('withheld %d > max_buffered_examples %d when pulling example %d' % (c - emitted, max_buf, c))
        ids = [e[0] for e in b]
        lens = [len(e[1]) for e in b]
        batches.append(ids)
        if not b:
            bad.append('empty batch')
        if len(b) > bs:
            bad.append('batch larger than batch_size: %r' % lens)
        if min(lens) < max(lens) * (1 - rate) - 1e-9:
            bad.append('padding bound violated: %r rate %s' % (lens, rate))
        if max_total is not None and len(b) > 1 and len(b) * max(lens) > max_total:
            bad.append('max_total_size violated: %r > %s' % (lens, max_total))
        if expiration is not None:
            age = (consumed - 1) - min(ids)
            if age > expiration:
                bad.append('bucket of example %d emitted after %d further examples (expiration %d)' % (min(ids), age, expiration))
        emitted += len(b)
    flat = [i for b in batches for i in b]
    if len(flat) != len(set(flat)):
        bad.append('an example was emitted twice: %r' % batches)
    if not drop and sorted(flat) != list(range(len(seq))):
        bad.append('examples lost/invented: %r' % batches)
    if drop:
        for b in batches:
            lens = [len(seq_i) for seq_i in ([0] * seq[i] for i in b)]
            complete = len(b) >= bs or (max_total is not None and (len(b) + 1) * max(lens) > max_total)
            if not complete:
                bad.append('an incomplete batch was emitted although drop_incomplete: %r' % b)
    return batches, bad


def search(tier='quick', first_only=True):
    alphabet = (1, 2, 3, 6)
    maxlen = 5 if tier == 'quick' else 7
    cases = 0
    fails = []
    grid = list(itertools.product((1, 2, 3), (0.0, 0.2, 0.5), (None, 1, 2, 3), (None, 1, 2, 4), (None, 6, 10), (False, True)))
    if tier == 'quick':
        grid = grid[::5]
    for n in range(0, maxlen + 1):
        for seq in itertools.product(alphabet, repeat=n):
            for bs, rate, exp, mb, mt, drop in grid:
                cases += 1
                try:
                    batches, bad = run(seq, bs, rate, exp, mb, mt, drop)
                except Exception as e:      # noqa
                    bad = ['exception %s: %s' % (type(e).__name__, e)]
                    batches = None
                if bad:
                    fails.append({'scenario': 'lengths=%r batch_size=%d rate=%s expiration=%s max_buffered=%s '
                                              'max_total_size=%s drop_incomplete=%s' % (list(seq), bs, rate, exp, mb, mt, drop),
                                  'mismatches': [{'clause': 'bucket', 'observed': repr(batches), 'expected': b} for b in bad[:3]]})
                    if first_only:
                        return cases, fails
    return cases, fails


if __name__ == '__main__':
    import json
    import sys
    c, f = search(sys.argv[1] if len(sys.argv) > 1 else 'quick')
    print(json.dumps({'cases': c, 'failures': f[:3]}))
