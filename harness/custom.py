"""Native searches for classes without a generic scenario set."""


def search(cls, meth, rep):
    return {'reproduced': False, 'note': 'no native scenario set for %s.%s' % (cls, meth)}
