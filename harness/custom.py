"""Native searches for functions without a generic scenario set (parallel utilities ...)."""
import itertools
import os
import threading
import time

os.environ.setdefault('OMP_NUM_THREADS', '1')
os.environ.setdefault('MKL_NUM_THREADS', '1')


class SrcBoom(Exception):
    pass


class FnBoom(Exception):
    pass


class BaseBoom(BaseException):
    pass


def _source(n, bad_at=None, exc=SrcBoom, log=None):
    for i in range(n):
        if bad_at is not None and i == bad_at:
            raise exc(i)
        if log is not None:
            log.append(('pull', i))
        yield i
    if bad_at is not None and bad_at == n:
        raise exc(n)


def expected_stream(n, src_bad, fn_bad):
    out = []
    for i in range(n + 1):
        if src_bad is not None and i == src_bad:
            return out, 'SrcBoom'
        if i == n:
            break
        if fn_bad is not None and i == fn_bad:
            return out, 'FnBoom'
        out.append(i * 10)
    return out, None


def run_stream(make):
    got = []
    err = None
    try:
        for x in make():
            got.append(x)
    except BaseException as e:  # noqa
        err = type(e).__name__
    return got, err


def search_lazy_parallel_map(rep):
    from lazy_dataset.parallel_utils import lazy_parallel_map
    cases = 0
    for n, b, w in itertools.product((0, 1, 3, 6), (1, 2, 4), (1, 2)):
        if b < w:
            continue
        for src_bad, fn_bad in [(None, None)] + [(i, None) for i in range(n + 1)] + [(None, i) for i in range(n)]:
            def f(x, fn_bad=fn_bad):
                if x == fn_bad:
                    raise FnBoom(x)
                return x * 10
            cases += 1
            got = run_stream(lambda: lazy_parallel_map(f, _source(n, src_bad), buffer_size=b, max_workers=w,
                                                       backend='t'))
            exp = expected_stream(n, src_bad, fn_bad)
            if got != exp:
                return {'reproduced': True, 'cases_searched': cases,
                        'scenario': 'lazy_parallel_map(f, source(n=%d, raises at %s), buffer_size=%d, max_workers=%d, '
                                    "backend='t'), f raises at %s" % (n, src_bad, b, w, fn_bad),
                        'mismatches': [{'clause': 'stream', 'observed': repr(got), 'expected': repr(exp)}],
                        'class': 'lazy_parallel_map'}
    return {'reproduced': False, 'cases_searched': cases, 'class': 'lazy_parallel_map',
            'bound': 'n in {0,1,3,6}, buffer in {1,2,4}, workers in {1,2}, thread backend, every single failing position'}


def search_single_thread_prefetch(rep):
    from lazy_dataset.parallel_utils import single_thread_prefetch
    cases = 0
    for n, b in itertools.product((0, 1, 3, 6), (1, 2, 4)):
        for src_bad, exc in [(None, SrcBoom)] + [(i, SrcBoom) for i in range(n + 1)] + [(i, BaseBoom) for i in range(n + 1)]:
            cases += 1
            got = run_stream(lambda: single_thread_prefetch(_source(n, src_bad, exc), b))
            exp_vals = list(range(n if src_bad is None else src_bad))
            exp = (exp_vals, None if src_bad is None else exc.__name__)
            if got != exp:
                return {'reproduced': True, 'cases_searched': cases, 'class': 'single_thread_prefetch',
                        'scenario': 'single_thread_prefetch(source(n=%d, raises %s at %s), buffer_size=%d)'
                                    % (n, exc.__name__, src_bad, b),
                        'mismatches': [{'clause': 'stream', 'observed': repr(got), 'expected': repr(exp)}]}
    return {'reproduced': False, 'cases_searched': cases, 'class': 'single_thread_prefetch',
            'bound': 'n in {0,1,3,6}, buffer in {1,2,4}, every failing position, Exception and BaseException'}


SEARCHES = {'lazy_parallel_map': search_lazy_parallel_map, 'single_thread_prefetch': search_single_thread_prefetch}


def search(cls, meth, rep):
    f = SEARCHES.get(meth) or SEARCHES.get(cls)
    if f is None:
        return {'reproduced': False, 'note': 'no native scenario set for %s.%s' % (cls, meth)}
    return f(rep)
