"""Native searches for functions without a generic scenario set (parallel utilities ...)."""
import itertools
import os
import threading
import time

os.environ.setdefault('OMP_NUM_THREADS', '1')
os.environ.setdefault('MKL_NUM_THREADS', '1')


class SrcBoom(Exception):
    pass


class FnBoom(Exception):
    pass


class BaseBoom(BaseException):
    pass


def _source(n, bad_at=None, exc=SrcBoom, log=None):
    for i in range(n):
        if bad_at is not None and i == bad_at:
            raise exc(i)
        if log is not None:
            log.append(('pull', i))
        yield i
    if bad_at is not None and bad_at == n:
        raise exc(n)


def expected_stream(n, src_bad, fn_bad):
    out = []
    for i in range(n + 1):
        if src_bad is not None and i == src_bad:
            return out, 'SrcBoom'
        if i == n:
            break
        if fn_bad is not None and i == fn_bad:
            return out, 'FnBoom'
        out.append(i * 10)
    return out, None


def run_stream(make):
    got = []
    err = None
    try:
        for x in make():
            got.append(x)
    except BaseException as e:  # noqa
        err = type(e).__name__
    return got, err


def search_lazy_parallel_map(rep):
    from lazy_dataset.parallel_utils import lazy_parallel_map
    cases = 0
    listed = None       # a mismatch of the listed finding F19 (examples lost before a failing SOURCE element): reported
    #                     only when nothing else fails, so that it cannot mask a different violation
    for n, b, w in itertools.product((0, 1, 3, 6), (1, 2, 4), (1, 2)):
        if b < w:
            continue
        for src_bad, fn_bad in [(None, None)] + [(i, None) for i in range(n + 1)] + [(None, i) for i in range(n)]:
            def f(x, fn_bad=fn_bad):
                if x == fn_bad:
                    raise FnBoom(x)
                return x * 10
            cases += 1
            got = run_stream(lambda: lazy_parallel_map(f, _source(n, src_bad), buffer_size=b, max_workers=w,
                                                       backend='t'))
            exp = expected_stream(n, src_bad, fn_bad)
            if got != exp:
                r_ = {'reproduced': True, 'cases_searched': cases,
                      'scenario': 'lazy_parallel_map(f, source(n=%d, raises at %s), buffer_size=%d, max_workers=%d, '
                                  "backend='t'), f raises at %s" % (n, src_bad, b, w, fn_bad),
                      'mismatches': [{'clause': 'stream', 'observed': repr(got), 'expected': repr(exp)}],
                      'class': 'lazy_parallel_map'}
                if src_bad is not None and got[1] == 'SrcBoom' and got[0] == exp[0][:len(got[0])]:
                    listed = listed or r_
                    continue
                return r_
    for n, b, w in itertools.product((1, 3, 6), (1, 2, 4), (1, 2)):
        if b < w:
            continue
        for at in range(n):
            cases += 1

            def g(x, at=at):
                return ValueError(x) if x == at else x * 10
            got = run_stream(lambda: lazy_parallel_map(g, iter(range(n)), buffer_size=b, max_workers=w, backend='t'))
            ok = got[1] is None and len(got[0]) == n and all((isinstance(a, ValueError) if i == at else a == i * 10) for i, a in enumerate(got[0]))
            if not ok:
                return {'reproduced': True, 'cases_searched': cases, 'class': 'lazy_parallel_map',
                        'scenario': 'lazy_parallel_map(g, range(%d), buffer_size=%d, max_workers=%d), g RETURNS a ValueError instance at %d' % (n, b, w, at),
                        'mismatches': [{'clause': 'stream', 'observed': repr(got), 'expected': 'all %d results, no exception' % n}]}
    if listed is not None:
        listed['cases_searched'] = cases
        return listed
    return {'reproduced': False, 'cases_searched': cases, 'class': 'lazy_parallel_map',
            'bound': 'n in {0,1,3,6}, buffer in {1,2,4}, workers in {1,2}, thread backend, every single failing position; exception instances as results'}


def search_single_thread_prefetch(rep):
    from lazy_dataset.parallel_utils import single_thread_prefetch
    cases = 0
    for n, b in itertools.product((0, 1, 3, 6), (1, 2, 4)):
        for src_bad, exc in [(None, SrcBoom)] + [(i, SrcBoom) for i in range(n + 1)] + [(i, BaseBoom) for i in range(n + 1)] \
                + [(i, SystemExit) for i in range(n + 1)] + [(i, KeyboardInterrupt) for i in range(0, n + 1, 2)]:
            cases += 1
            got = run_stream(lambda: single_thread_prefetch(_source(n, src_bad, exc), b))
            exp_vals = list(range(n if src_bad is None else src_bad))
            exp = (exp_vals, None if src_bad is None else exc.__name__)
            if got != exp:
                return {'reproduced': True, 'cases_searched': cases, 'class': 'single_thread_prefetch',
                        'scenario': 'single_thread_prefetch(source(n=%d, raises %s at %s), buffer_size=%d)'
                                    % (n, exc.__name__, src_bad, b),
                        'mismatches': [{'clause': 'stream', 'observed': repr(got), 'expected': repr(exp)}]}
    # examples that ARE exception instances are ordinary values (signalling must be out of band)
    for n, b in itertools.product((1, 3, 6), (1, 2, 4)):
        for at in range(n):
            for mk in (ValueError, StopIteration, KeyboardInterrupt, SrcBoom):
                cases += 1
                vals = [mk(i) if i == at else i for i in range(n)]
                got = run_stream(lambda: single_thread_prefetch(iter(vals), b))
                ok = got[1] is None and len(got[0]) == n and all(a is v for a, v in zip(got[0], vals))
                if not ok:
                    return {'reproduced': True, 'cases_searched': cases, 'class': 'single_thread_prefetch',
                            'scenario': 'single_thread_prefetch over %d examples, example %d is the value %s(%d), buffer_size=%d'
                                        % (n, at, mk.__name__, at, b),
                            'mismatches': [{'clause': 'stream', 'observed': repr(got), 'expected': 'all %d examples, no exception' % n}]}
    return {'reproduced': False, 'cases_searched': cases, 'class': 'single_thread_prefetch',
            'bound': 'n in {0,1,3,6}, buffer in {1,2,4}, every failing position, Exception and BaseException; exception instances as values'}


def _with_watchdog(fn, timeout=8.0):
    """run fn() in a helper thread; -> ('ok', result) | ('hang', None)"""
    box = {}

    def run():
        try:
            box['r'] = fn()
        except BaseException as e:  # noqa
            box['r'] = ('exc', type(e).__name__)
    t = threading.Thread(target=run, daemon=True)
    t.start()
    t.join(timeout)
    if t.is_alive():
        return 'hang', None
    return 'ok', box.get('r')


def search_readahead(make, label, bound_of):
    """slow consumer: after every received item wait for the producer side to settle and record
    pulled - delivered; make(n, b, log) -> iterator"""
    cases = 0
    for n, b in itertools.product((8, 20), (1, 2, 3, 5)):
        cases += 1
        log = []
        it = iter(make(n, b, log))
        worst = 0
        worst_started = 0
        delivered = 0
        try:
            for _ in range(min(n, 6)):
                next(it)
                delivered += 1
                time.sleep(0.15)
                pulled = len([e for e in log if e[0] == 'pull'])
                started = len([e for e in log if e[0] == 'start'])
                worst = max(worst, pulled - delivered)
                worst_started = max(worst_started, started - delivered)
        finally:
            st, _ = _with_watchdog(lambda: it.close())
        if worst_started > b:
            return {'reproduced': True, 'cases_searched': cases, 'class': label,
                    'scenario': '%s with n=%d buffer_size=%d, consumer pausing 0.15 s after each item' % (label, n, b),
                    'mismatches': [{'clause': 'read-ahead', 'observed': 'function applications started beyond those delivered = %d' % worst_started,
                                    'expected': '<= buffer_size = %d' % b}]}
        if worst > bound_of(b):
            return {'reproduced': True, 'cases_searched': cases, 'class': label,
                    'scenario': '%s with n=%d buffer_size=%d, consumer pausing 0.15 s after each item' % (label, n, b),
                    'mismatches': [{'clause': 'read-ahead', 'observed': 'pulled-delivered=%d' % worst,
                                    'expected': '<= %d' % bound_of(b)}]}
    return {'reproduced': False, 'cases_searched': cases, 'class': label,
            'bound': 'n in {8,20}, buffer in {1,2,3,5}, first 6 items, 0.15 s settle time'}


def search_started_ahead(label='lazy_parallel_map'):
    """C07, second bound: at the moment a function application starts, the number of applications started so far minus the
    examples already delivered is at most buffer_size -- measured inside the mapped function, with slow examples at the
    head of the buffer and a consumer that reads as fast as it can"""
    from lazy_dataset.parallel_utils import lazy_parallel_map
    cases = 0
    for n, b, w in itertools.product((12,), (1, 2, 3, 4, 6), (1, 2, 3)):
        if b < w:
            continue
        cases += 1
        lock = threading.Lock()
        state = {'started': 0, 'delivered': 0, 'worst': 0}

        def f(x):
            with lock:
                state['started'] += 1
                state['worst'] = max(state['worst'], state['started'] - state['delivered'])
            if x % 4 == 0:
                time.sleep(0.12)
            return x
        for _ in lazy_parallel_map(f, iter(range(n)), buffer_size=b, max_workers=w, backend='t'):
            with lock:
                state['delivered'] += 1
        if state['worst'] > b:
            return {'reproduced': True, 'cases_searched': cases, 'class': label,
                    'scenario': 'lazy_parallel_map over %d examples (every 4th slow), buffer_size=%d, max_workers=%d, fast consumer' % (n, b, w),
                    'mismatches': [{'clause': 'read-ahead', 'observed': 'applications started beyond those delivered: %d' % state['worst'],
                                    'expected': '<= buffer_size = %d' % b}]}
    return {'reproduced': False, 'cases_searched': cases, 'class': label,
            'bound': 'n=12, buffer in {1,2,3,4,6}, workers 1..3, slow head examples'}


def search_stop(make, label):
    """stop after k items by close(): must return (no deadlock), leave no extra thread"""
    cases = 0
    for n, b in itertools.product((0, 1, 3, 6), (1, 2, 4)):
        for k in range(0, n + 1):
            cases += 1
            base = threading.active_count()

            def run():
                it = iter(make(n, b, None))
                for _ in range(k):
                    next(it)
                it.close()
                return True
            st, r = _with_watchdog(run)
            time.sleep(0.05)
            extra = threading.active_count() - base
            if st == 'hang' or (extra > 0 and st == 'ok' and _settle(base)):
                return {'reproduced': True, 'cases_searched': cases, 'class': label,
                        'scenario': '%s n=%d buffer_size=%d close() after %d items' % (label, n, b, k),
                        'mismatches': [{'clause': 'stop', 'observed': 'hang' if st == 'hang' else 'threads alive: %d' % extra,
                                        'expected': 'returns, threads exited'}]}
    return {'reproduced': False, 'cases_searched': cases, 'class': label,
            'bound': 'n in {0,1,3,6}, buffer in {1,2,4}, every stop point'}


def _slow_identity(x):
    time.sleep(0.25)
    return x


def search_stop_processes():
    """C05 for the process pools: after close() returned no worker process and no helper thread of the pool is alive"""
    import multiprocessing
    from lazy_dataset.parallel_utils import lazy_parallel_map
    cases = 0
    for backend in ('concurrent_mp', 'mp'):
        for k in (1, 2):
            cases += 1
            base = threading.active_count()

            def run():
                it = iter(lazy_parallel_map(_slow_identity, iter(range(6)), buffer_size=3, max_workers=2, backend=backend))
                for _ in range(k):
                    next(it)
                it.close()
                return (len(multiprocessing.active_children()), threading.active_count())
            try:
                st, r = _with_watchdog(run, timeout=30.0)
            except Exception:      # noqa
                continue
            if st == 'hang':
                return {'reproduced': True, 'cases_searched': cases, 'class': 'lazy_parallel_map',
                        'scenario': "lazy_parallel_map(slow f, range(6), buffer_size=3, max_workers=2, backend=%r), close() after %d items" % (backend, k),
                        'mismatches': [{'clause': 'stop', 'observed': 'hang', 'expected': 'returns'}]}
            if isinstance(r, tuple) and r and r[0] == 'exc':
                continue        # the backend is not usable here (e.g. pathos missing)
            children, threads = r
            if children > 0 or threads > base + 1:
                return {'reproduced': True, 'cases_searched': cases, 'class': 'lazy_parallel_map',
                        'scenario': "lazy_parallel_map(slow f, range(6), buffer_size=3, max_workers=2, backend=%r), close() after %d items" % (backend, k),
                        'mismatches': [{'clause': 'stop', 'observed': 'after close(): %d worker processes and %d extra threads alive' % (children, threads - base - 1),
                                        'expected': 'no process, no thread of the pool left'}]}
            for p_ in multiprocessing.active_children():
                p_.join(2)
    return {'reproduced': False, 'cases_searched': cases, 'class': 'lazy_parallel_map', 'bound': 'concurrent_mp and mp backends, stop after 1 and 2 of 6 slow examples'}


def _settle(base, timeout=2.0):
    t0 = time.time()
    while time.time() - t0 < timeout:
        if threading.active_count() <= base:
            return False
        time.sleep(0.05)
    return True


def search_single_thread_prefetch_prop(rep):
    from lazy_dataset.parallel_utils import single_thread_prefetch
    prop = rep.get('property')
    if prop == 'C07':
        return search_readahead(lambda n, b, log: single_thread_prefetch(_source(n, log=log), b),
                                'single_thread_prefetch', lambda b: b + 2)
    if prop == 'C05':
        r = search_stop(lambda n, b, log: single_thread_prefetch(_source(n), b), 'single_thread_prefetch')
        if r['reproduced']:
            return r
    return search_single_thread_prefetch(rep)


def search_lazy_parallel_map_prop(rep):
    from lazy_dataset.parallel_utils import lazy_parallel_map
    prop = rep.get('property')

    def f(x):
        return x * 10
    if prop == 'C07':
        def mk(n, b, log):
            def fl(x):
                log.append(('start', x))
                return x * 10
            return lazy_parallel_map(fl, _source(n, log=log), buffer_size=b, max_workers=min(2, b), backend='t')
        r = search_started_ahead()
        if r['reproduced']:
            return r
        return search_readahead(mk, 'lazy_parallel_map', lambda b: b + 2)
    if prop == 'C05':
        r = search_stop(lambda n, b, log: lazy_parallel_map(f, _source(n), buffer_size=b, max_workers=1, backend='t'),
                        'lazy_parallel_map')
        if r['reproduced']:
            return r
        r = search_stop_processes()
        if r['reproduced']:
            return r
    return search_lazy_parallel_map(rep)


def _scenario_search(cls):
    def run(rep):
        from harness import scenarios
        c, f = scenarios.run_class(cls)
        if f:
            return {'reproduced': True, 'cases_searched': c, 'class': cls, 'scenario': f[0]['scenario'], 'mismatches': f[0]['mismatches']}
        return {'reproduced': False, 'cases_searched': c, 'class': cls}
    return run


SEARCHES = {'from_dataset': _scenario_search('FromDataset'), 'lazy_parallel_map': search_lazy_parallel_map_prop,
            'single_thread_prefetch': search_single_thread_prefetch_prop}


def _shuffle_search(rep):
    from harness import shuffle_standin
    if 'random_choice' in rep.get('obligation', ''):
        c, f = shuffle_standin.search_random_choice()
    else:
        c, f = shuffle_standin.search('thorough')
    if f:
        return {'reproduced': True, 'cases_searched': c, 'class': 'shuffle', 'scenario': f[0]['scenario'],
                'mismatches': f[0]['mismatches']}
    return {'reproduced': False, 'cases_searched': c, 'class': 'shuffle'}


def _bucket_search(rep):
    from harness import bucket_standin
    c, f = bucket_standin.search('quick')
    if f:
        return {'reproduced': True, 'cases_searched': c, 'class': 'bucket', 'scenario': f[0]['scenario'],
                'mismatches': f[0]['mismatches']}
    return {'reproduced': False, 'cases_searched': c, 'class': 'bucket'}


def _split_search(rep):
    from harness import more_standins
    c, f = more_standins.split_exhaustive('quick')
    if f:
        return {'reproduced': True, 'cases_searched': c, 'class': 'split', 'scenario': f[0]['scenario'], 'mismatches': f[0]['mismatches']}
    return {'reproduced': False, 'cases_searched': c, 'class': 'split'}


SEARCHES['split'] = SEARCHES['shard'] = _split_search
for _k in ('random_choice', 'shuffle', 'ReShuffleDataset', 'LocalShuffleDataset', 'ApplyDataset', 'tile'):
    SEARCHES[_k] = _shuffle_search
for _k in ('DynamicTimeSeriesBucket', 'DynamicBucket', 'DynamicBucketDataset'):
    SEARCHES[_k] = _bucket_search


PROP_SEARCH = {'C09': 'c09_native', 'C10': 'cache_histories', 'C14': 'catch_epochs', 'C15': 'split_exhaustive',
               'C18': 'sort_group', 'C20': 'c20_native', 'C19': 'database', 'C02': 'c02_native', 'C04': 'parallel_equals_sequential', 'C11': 'diskcache_lifecycles', 'C13': 'parallel_equals_sequential'}


def _prop_search(rep):
    from harness import more_standins
    fn = PROP_SEARCH.get(rep.get('property'))
    if fn is None:
        return None
    c, f = getattr(more_standins, fn)('thorough')
    if f:
        return {'reproduced': True, 'cases_searched': c, 'class': fn, 'scenario': f[0]['scenario'], 'mismatches': f[0]['mismatches']}
    return {'reproduced': False, 'cases_searched': c, 'class': fn}


def search(cls, meth, rep):
    f = SEARCHES.get(meth) or SEARCHES.get(cls)
    if f is None:
        r = _prop_search(rep)
        if r is not None:
            return r
        return {'reproduced': False, 'note': 'no native scenario set for %s.%s' % (cls, meth)}
    return f(rep)
