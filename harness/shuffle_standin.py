"""Bounded stand-ins for C12/C13 clauses that are not proved: local-shuffle multiset and
displacement, shuffled tiling, sampling without replacement, frozen copies staying frozen,
equal seeds giving equal orders (also behind prefetch and through copy())."""
import itertools
import os
os.environ.setdefault('OMP_NUM_THREADS', '1')
os.environ.setdefault('MKL_NUM_THREADS', '1')


def search(tier='quick'):
    import numpy as np
    import lazy_dataset
    fails = []
    cases = 0
    sizes = (0, 1, 2, 5, 9) if tier == 'quick' else (0, 1, 2, 3, 5, 9, 17)
    seeds = range(6 if tier == 'quick' else 40)

    def bad(sc, what, obs, exp):
        fails.append({'scenario': sc, 'mismatches': [{'clause': what, 'observed': repr(obs), 'expected': exp}]})
    for n in sizes:
        src = lazy_dataset.new({'k%d' % i: i for i in range(n)})
        for seed in seeds:
            for B in sorted({1, 2, 3, n, n + 1}):
                if B < 1:
                    continue
                cases += 1
                ds = src.shuffle(True, buffer_size=B, rng=np.random.RandomState(seed))
                out = list(ds)
                if sorted(out) != list(range(n)):
                    bad('local shuffle n=%d B=%d seed=%d' % (n, B, seed), 'local-shuffle-multiset', out, 'a permutation')
                for pos, x in enumerate(out):
                    if pos < x - (B - 1):
                        bad('local shuffle n=%d B=%d seed=%d' % (n, B, seed), 'local-shuffle-displacement', out,
                            'no example more than %d positions early' % (B - 1))
                        break
                if len(ds) != len(out):
                    bad('local shuffle n=%d' % n, 'len', len(ds), 'number yielded')
                # the same two clauses for what copy() / copy(freeze=True) of the stage deliver (whether or not a frozen copy
                # is a fixed order, it is a local shuffle: a permutation, nothing more than B-1 positions early)
                for fz in (False, True):
                    try:
                        out2 = list(src.shuffle(True, buffer_size=B, rng=np.random.RandomState(seed)).copy(freeze=fz))
                    except Exception as e:      # noqa
                        bad('copy(freeze=%s) of local shuffle n=%d B=%d seed=%d' % (fz, n, B, seed), 'iterates', type(e).__name__, 'a permutation')
                        continue
                    if sorted(out2) != list(range(n)):
                        bad('copy(freeze=%s) of local shuffle n=%d B=%d seed=%d' % (fz, n, B, seed), 'local-shuffle-multiset', out2, 'a permutation')
                    elif any(pos < x - (B - 1) for pos, x in enumerate(out2)):
                        bad('copy(freeze=%s) of local shuffle n=%d B=%d seed=%d' % (fz, n, B, seed), 'local-shuffle-displacement', out2,
                            'no example more than %d positions early' % (B - 1))
            # iterators in flight over ONE local-shuffle object: every schedule of next() calls (exhaustive for short
            # runs, round robin / bursts otherwise); each iterator must still deliver a permutation
            if n and seed < 3:
                for B in sorted({1, 2, 3, n + 1}):
                    for nit in (2, 3):
                        total = nit * n
                        if total <= 6:
                            scheds = set(itertools.permutations([j for j in range(nit) for _ in range(n)]))
                        else:
                            scheds = {tuple(j for _ in range(n) for j in range(nit)),
                                      tuple(j for j in range(nit) for _ in range(n)),
                                      tuple(([0] * 2 + [1] * 3 + list(range(nit))) * n)}
                        for sched in sorted(scheds):
                            cases += 1
                            ds = src.shuffle(True, buffer_size=B, rng=np.random.RandomState(seed))
                            its = [iter(ds) for _ in range(nit)]
                            outs = [[] for _ in range(nit)]
                            for j in sched:
                                try:
                                    outs[j].append(next(its[j]))
                                except StopIteration:
                                    pass
                            for j in range(nit):
                                outs[j].extend(its[j])
                            for j in range(nit):
                                if sorted(outs[j]) != list(range(n)):
                                    bad('local shuffle n=%d B=%d seed=%d, %d interleaved iterators, schedule %r' % (n, B, seed, nit, sched[:12]),
                                        'local-shuffle-multiset-under-interleaving', outs, 'every iterator a permutation')
                                    break
                            if fails:
                                return cases, fails
                z = list(zip(*[src.shuffle(True, buffer_size=2, rng=np.random.RandomState(seed))] * 1))
                dsl = src.shuffle(True, buffer_size=2, rng=np.random.RandomState(seed))
                za, zb = zip(*zip(dsl, dsl)) if n else ((), ())
                if sorted(za) != list(range(n)) or sorted(zb) != list(range(n)):
                    bad('zip(ds, ds) over one local shuffle n=%d seed=%d' % (n, seed), 'local-shuffle-self-zip', (za, zb), 'two permutations')
            cases += 1
            out = list(src.shuffle(False, rng=np.random.RandomState(seed)))
            if sorted(out) != list(range(n)):
                bad('shuffle(False) n=%d seed=%d' % (n, seed), 'one-time-shuffle', out, 'a permutation')
            rs = src.shuffle(True, rng=np.random.RandomState(seed))
            e1, e2 = list(rs), list(rs)
            if sorted(e1) != list(range(n)) or sorted(e2) != list(range(n)):
                bad('reshuffle n=%d seed=%d' % (n, seed), 'reshuffle-permutation', (e1, e2), 'permutations')
            if n:
                np.random.seed(seed)
                t = list(src.tile(3, shuffle=True))
                if sorted(t) != sorted(list(range(n)) * 3):
                    bad('tile(3, shuffle) n=%d' % n, 'shuffled-tiling', t, 'each example 3 times')
                for size in (1, n):
                    c = list(src.random_choice(size, rng_state=np.random.RandomState(seed)))
                    if len(set(c)) != len(c):
                        bad('random_choice n=%d size=%d seed=%d' % (n, size, seed), 'sampling-without-replacement', c, 'distinct')
            # C13: equal seeds, copies, frozen copies, prefetch
            a = src.shuffle(True, rng=np.random.RandomState(seed))
            b = src.shuffle(True, rng=np.random.RandomState(seed))
            np.random.seed(12345 + seed)
            ea = [list(a) for _ in range(3)]
            np.random.seed(999)
            eb = [list(b) for _ in range(3)]
            if ea != eb:
                bad('equal seeds n=%d seed=%d' % (n, seed), 'seed-determinism', (ea, eb), 'equal epochs')
            c = src.shuffle(True, rng=np.random.RandomState(seed)).copy()
            np.random.seed(4)
            if [list(c) for _ in range(3)] != ea:
                bad('copy of a fresh seeded reshuffle n=%d seed=%d' % (n, seed), 'copy-determinism', None, 'same epochs as an equal build')
            fz = src.shuffle(True, rng=np.random.RandomState(seed)).copy(freeze=True)
            first = list(fz)
            orig = src.shuffle(True, rng=np.random.RandomState(seed + 1))
            fz2 = orig.copy(freeze=True)
            f2 = list(fz2)
            list(orig)
            orig.copy(freeze=True)
            if list(fz) != first or list(fz2) != f2 or not fz.ordered:
                bad('frozen copy n=%d seed=%d' % (n, seed), 'frozen-stays-frozen', None, 'one fixed order forever')
            p = src.shuffle(True, rng=np.random.RandomState(seed)).prefetch(1, 2)
            np.random.seed(77)
            if n and [list(p) for _ in range(3)] != ea:
                bad('seeded reshuffle behind prefetch n=%d seed=%d' % (n, seed), 'prefetch-determinism', None, 'same epochs')
            if fails:
                return cases, fails
    # C13 "copy() of a freshly built pipeline": a pipeline that contains the SAME reshuffle object twice
    # (r.concatenate(r), r.tile(2)).  Listed as known finding F25 (failures carry its id).
    for n in (3, 6):
        for seed in range(3):
            for name, build in (('r.concatenate(r)', lambda: (lambda r: r.concatenate(r))(lazy_dataset.new(list(range(n))).shuffle(True, rng=np.random.RandomState(seed)))),
                                ('r.tile(2)', lambda: lazy_dataset.new(list(range(n))).shuffle(True, rng=np.random.RandomState(seed)).tile(2))):
                cases += 1
                twin = [list(build()) for _ in range(1)][0]
                ea = (lambda p: [list(p) for _ in range(2)])(build())
                ec = (lambda p: [list(p) for _ in range(2)])(build().copy())
                if ec != ea:
                    fails.append({'scenario': 'copy() of a freshly built %s, n=%d seed=%d' % (name, n, seed), 'finding': 'F25',
                                  'mismatches': [{'clause': 'copy-of-a-pipeline-sharing-one-reshuffle-object', 'observed': repr(ec), 'expected': repr(ea)}]})
    return cases, fails


if __name__ == '__main__':
    import json
    import sys
    c, f = search(sys.argv[1] if len(sys.argv) > 1 else 'quick')
    print(json.dumps({'cases': c, 'failures': f[:3]}))


def search_random_choice(nseeds=1500):
    import numpy as np
    import lazy_dataset
    cases = 0
    for n, size in ((3001, 30), (500, 4), (50, 50), (7, 3)):
        src = lazy_dataset.new(list(range(n)))
        for seed in range(nseeds):
            cases += 1
            c = list(src.random_choice(size, replace=False, rng_state=np.random.RandomState(seed)))
            if len(set(c)) != len(c) or len(c) != size or not all(0 <= x < n for x in c):
                return cases, [{'scenario': 'new(range(%d)).random_choice(%d, replace=False, RandomState(%d))' % (n, size, seed),
                                'mismatches': [{'clause': 'sampling-without-replacement', 'observed': repr(sorted(c)),
                                                'expected': '%d distinct examples' % size}]}]
    return cases, []
