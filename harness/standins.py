"""python -m harness.standins <property> --tier quick|thorough --seed N
Bounded conformance runs that accompany the proofs of a property (labelled bounded, never
counted as discharged obligations): the run-time oracle of the spec table on the real code.
One JSON line {"standins": [{name, bound, cases, failures:[...]}]}"""
import argparse
import json
import os
import sys
import traceback

from harness import scenarios

CLASSES_FOR = {
    'C01': ['IntersperseDataset', 'NumpySerializedList', 'ListDataset', 'DictDataset', 'MapDataset', 'SliceDataset', 'ConcatenateDataset', 'ZipDataset',
            'KeyZipDataset', 'ItemsDataset', 'BatchDataset', 'UnbatchDataset', 'FilterDataset',
            'CatchExceptionDataset'],
    'C02': ['IntersperseDataset', 'NumpySerializedList', 'ListDataset', 'DictDataset', 'MapDataset', 'SliceDataset', 'ConcatenateDataset', 'ZipDataset',
            'KeyZipDataset', 'ItemsDataset', 'BatchDataset'],
    'C03': ['IntersperseDataset', 'DictDataset', 'MapDataset', 'SliceDataset', 'ConcatenateDataset', 'KeyZipDataset', 'ItemsDataset',
            'FilterDataset', 'CatchExceptionDataset'],
    'C14': ['FilterDataset', 'CatchExceptionDataset'],
}


def _bucket(tier):
    from harness import bucket_standin
    c, f = bucket_standin.search(tier)
    return c, f, ('DynamicBucketDataset.__iter__: every length sequence over {1,2,3,6} up to length %d, '
                  'parameter grid batch_size 1..3 x rate {0,.2,.5} x expiration {None,1,2,3} x max_buffered '
                  '{None,1,2,4} x max_total_size {None,6,10} x drop modes' % (5 if tier == 'quick' else 7))


def _shuffle(tier):
    from harness import shuffle_standin
    c, f = shuffle_standin.search(tier)
    c2, f2 = shuffle_standin.search_random_choice(200 if tier == 'quick' else 1500)
    return c + c2, f + f2, ('dataset sizes up to 9 (17 thorough), 6 (40) seeds, buffer sizes {1,2,3,n,n+1}; '
                            'random_choice on sizes up to 3001 with 200 (1500) seeds')


def _effects(tier):
    from harness import effects_standin
    c, f = effects_standin.search(tier)
    return c, f, '19 lazy pipelines over a 12-example source, every prefix length and every index'


def _laws(tier):
    from harness import laws_standin
    c, f = laws_standin.search(tier)
    return c, f, 'every law on list- and dict-backed sources of 0..7 (13) examples, full observation of both sides'


def _mk(fn_name, bound):
    def run(tier):
        from harness import more_standins
        c, f = getattr(more_standins, fn_name)(tier)
        return c, f, bound
    return run


def _intersperse_init(tier):
    """ORDER(self) after the real __init__ for every tuple of input lengths"""
    import itertools
    import lazy_dataset
    from lazy_dataset.core import IntersperseDataset
    cases, fails = 0, []
    M, LEN = (3, 5) if tier == 'quick' else (4, 9)
    for m in range(1, M + 1):
        for lens in itertools.product(range(1, LEN + 1), repeat=m):
            cases += 1
            ds = IntersperseDataset(*[lazy_dataset.new(list(range(n))) for n in lens])
            seen = [0] * m
            ok = len(ds.order) == sum(lens)
            for _, d, e in ds.order:
                ok = ok and 0 <= d < m and e == seen[d] and e < lens[d]
                seen[d] += 1
            if not ok or seen != list(lens):
                fails.append({'scenario': 'IntersperseDataset of lengths %r' % (lens,), 'mismatches': [
                    {'clause': 'ORDER', 'observed': repr(ds.order)[:200], 'expected': 'rank table covering every example once'}]})
                return cases, fails, 'all length tuples with m <= %d, each <= %d' % (M, LEN)
    return cases, fails, 'all length tuples with m <= %d, each <= %d' % (M, LEN)


EXTRA_MORE = {
    'C09': [('bounded-isolation', _mk('isolation', 'new/from_list in pickle, copy, wu mode and memory/disk cache; 7 access paths, miss and hit, nested in-place mutations'))],
    'C10': [('bounded-cache-histories', _mk('cache_histories', 'all access histories of length 2 (3 thorough) over 17 operations on a 4-example cache with a freshly random upstream; memory threshold crossed after 0..4 stores'))],
    'C14': [('bounded-catch', _mk('catch_epochs', 'sources of 0..7 examples, all failing subsets up to size 3, single type / tuple / subclass, values and items, two epochs, reshuffled upstream over 4 epochs, lazy/eager/FilterException selection'))],
    'C15': [('bounded-split', _mk('split_exhaustive', 'all (n, k, i) with n <= 40 (300 thorough), k in [-1, n+2], shard indices {0, k-1, -1}'))],
    'C20': [('bounded-profiling-transparency', _mk('profiling_transparency', 'the scenario pipelines of 13 stage classes (every third one in the quick tier), all observations incl. indices [-n-2, n+2), wrapped vs unwrapped, hit counts of the top wrapper'))],
    'C19': [('bounded-database', _mk('database', 'descriptions over 4 datasets (0..2 examples) and 6 aliases (overlapping ids, unknown and empty members), 0..3 datasets x 0..2 aliases, 1..3 merged parts, alias section in any part, extra top-level keys; requests: names, aliases, unknown, lists, repeats, after gc; DictDatabase, JsonDatabase, pickled JsonDatabase (every 4th description in the quick tier)'))],
    'C18': [('bounded-sort-groupby', _mk('sort_group', 'all value sequences over {0,1,2} up to length 5 (7 thorough), reverse on/off, incomparable payloads, scalar and tuple group ids'))],
}

EXTRA_INIT = [('bounded-intersperse-init', _intersperse_init)]

EXTRA = {'C16': [('bounded-laws', _laws)], 'C08': [('bounded-demand', _effects)], 'C17': [('bounded-bucket-iter', _bucket)], 'C12': [('bounded-shuffles', _shuffle)],
         'C13': [('bounded-seed-determinism', _shuffle)]}


def known_finding_of(cls, mismatch, findings):
    for f in findings:
        for pat in f.get('native_patterns', []):
            if pat.get('class') == cls and pat.get('clause') == mismatch['clause'].split('[')[0] \
                    and pat.get('observed_contains', '') in mismatch['observed']:
                return f['id']
    return None


def main():
    ap = argparse.ArgumentParser()
    ap.add_argument('prop')
    ap.add_argument('--tier', default='quick')
    ap.add_argument('--seed', default='0')
    a = ap.parse_args()
    here = os.path.dirname(os.path.dirname(os.path.abspath(__file__)))
    kfp = os.path.join(here, 'known_findings.json')
    findings = [f for f in json.load(open(kfp))['findings'] if f.get('status') == 'open'] if os.path.exists(kfp) else []
    out = []
    try:
        what = scenarios.CLAUSES.get(a.prop)
        for cls in CLASSES_FOR.get(a.prop, []):
            if cls not in scenarios.SCENARIOS:
                continue
            cases, fails = scenarios.run_class(cls, what=what)
            fl = []
            for f in fails:
                ms = []
                for m in f['mismatches']:
                    m = dict(m)
                    m['finding'] = known_finding_of(cls, m, findings)
                    ms.append(m)
                fid = {m['finding'] for m in ms}
                fl.append({'scenario': f['scenario'], 'mismatches': ms,
                           'finding': (fid.pop() if len(fid) == 1 else None)})
            unexplained = [x for x in fl if x['finding'] is None]
            out.append({'name': 'conformance-' + cls, 'kind': 'bounded', 'cases': cases,
                        'bound': 'source lengths 0..6 and the parameter grid of harness/scenarios.py',
                        'failures': (unexplained or fl)[:5],
                        'known_finding_cases': len(fl) - len(unexplained)})
        for name, fn in EXTRA.get(a.prop, []) + EXTRA_MORE.get(a.prop, []) + (EXTRA_INIT if a.prop in ('C01', 'C02') else []):
            cases, fails, bound = fn(a.tier)
            out.append({'name': name, 'kind': 'bounded', 'cases': cases, 'bound': bound, 'failures': fails[:5],
                        'known_finding_cases': 0})
        print(json.dumps({'standins': out}))
    except BaseException:  # noqa
        print(json.dumps({'standins': out, 'error': traceback.format_exc()[-800:]}))


if __name__ == '__main__':
    main()
