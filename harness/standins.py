"""python -m harness.standins <property> --tier quick|thorough --seed N
Bounded conformance runs that accompany the proofs of a property (labelled bounded, never
counted as discharged obligations): the run-time oracle of the spec table on the real code.
One JSON line {"standins": [{name, bound, cases, failures:[...]}]}"""
import argparse
import json
import os
import sys
import traceback

from harness import scenarios

CLASSES_FOR = {
    'C01': ['IntersperseDataset', 'NumpySerializedList', 'CacheDataset', 'FromDataset', 'ListDataset', 'DictDataset', 'MapDataset', 'SliceDataset', 'ConcatenateDataset', 'ZipDataset',
            'KeyZipDataset', 'ItemsDataset', 'BatchDataset', 'UnbatchDataset', 'FilterDataset',
            'CatchExceptionDataset'],
    'C02': ['IntersperseDataset', 'NumpySerializedList', 'CacheDataset', 'ListDataset', 'DictDataset', 'MapDataset', 'SliceDataset', 'ConcatenateDataset', 'ZipDataset',
            'KeyZipDataset', 'ItemsDataset', 'BatchDataset'],
    'C03': ['IntersperseDataset', 'CacheDataset', 'DictDataset', 'MapDataset', 'SliceDataset', 'ConcatenateDataset', 'KeyZipDataset', 'ItemsDataset',
            'FilterDataset', 'CatchExceptionDataset'],
    'C14': ['FilterDataset', 'CatchExceptionDataset'],
    # the stages the algebraic laws rest on
    'C16': ['MapDataset', 'SliceDataset', 'ConcatenateDataset', 'BatchDataset', 'UnbatchDataset', 'FilterDataset', 'CacheDataset'],
}


def _bucket(tier):
    from harness import bucket_standin
    c, f = bucket_standin.search(tier)
    return c, f, ('DynamicBucketDataset.__iter__: every length sequence over {1,2,3,6} up to length %d, '
                  'parameter grid batch_size 1..3 x rate {0,.2,.5} x expiration {None,1,2,3} x max_buffered '
                  '{None,1,2,4} x max_total_size {None,6,10} x drop modes' % (5 if tier == 'quick' else 7))


def _shuffle(tier):
    from harness import shuffle_standin
    c, f = shuffle_standin.search(tier)
    c2, f2 = shuffle_standin.search_random_choice(200 if tier == 'quick' else 1500)
    return c + c2, f + f2, ('dataset sizes up to 9 (17 thorough), 6 (40) seeds, buffer sizes {1,2,3,n,n+1}; '
                            'random_choice on sizes up to 3001 with 200 (1500) seeds')


def _effects(tier):
    from harness import effects_standin
    c, f = effects_standin.search(tier)
    return c, f, '19 lazy pipelines over a 12-example source, every prefix length and every index'


def _laws(tier):
    from harness import laws_standin
    c, f = laws_standin.search(tier)
    return c, f, 'every law on list- and dict-backed sources of 0..7 (13) examples, full observation of both sides'


def _mk(fn_name, bound):
    def run(tier):
        from harness import more_standins
        c, f = getattr(more_standins, fn_name)(tier)
        return c, f, bound
    return run


def _intersperse_init(tier):
    """ORDER(self) after the real __init__ for every tuple of input lengths"""
    import itertools
    import lazy_dataset
    from lazy_dataset.core import IntersperseDataset
    cases, fails = 0, []
    M, LEN = (3, 5) if tier == 'quick' else (4, 9)
    for m in range(1, M + 1):
        for lens in itertools.product(range(1, LEN + 1), repeat=m):
            cases += 1
            ds = IntersperseDataset(*[lazy_dataset.new(list(range(n))) for n in lens])
            seen = [0] * m
            ok = len(ds.order) == sum(lens)
            for _, d, e in ds.order:
                ok = ok and 0 <= d < m and e == seen[d] and e < lens[d]
                seen[d] += 1
            if not ok or seen != list(lens):
                fails.append({'scenario': 'IntersperseDataset of lengths %r' % (lens,), 'mismatches': [
                    {'clause': 'ORDER', 'observed': repr(ds.order)[:200], 'expected': 'rank table covering every example once'}]})
                return cases, fails, 'all length tuples with m <= %d, each <= %d' % (M, LEN)
    return cases, fails, 'all length tuples with m <= %d, each <= %d' % (M, LEN)


def _keyzip_init(tier):
    """KeyZipDataset(*inputs) is accepted iff all inputs have the same key set (any order); an accepted one delivers,
    for every key, the tuple of the inputs' examples under that key; unique-key concatenations likewise"""
    import itertools
    import lazy_dataset
    cases, fails = 0, []
    keys = ['a', 'b', 'c']
    subsets = [list(c) for r in range(0, 4) for c in itertools.permutations(keys, r)]
    if tier == 'quick':
        subsets = [s_ for s_ in subsets if len(s_) != 3 or s_ in (['a', 'b', 'c'], ['c', 'a', 'b'])]
    bound = 'all ordered key subsets of {a,b,c} for 2 inputs (3 inputs in the thorough tier)'
    for m in ((2,) if tier == 'quick' else (2, 3)):
        for combo in itertools.product(subsets, repeat=m):
            cases += 1
            dss = [lazy_dataset.new({k: '%s%d' % (k, j) for k in ks}) for j, ks in enumerate(combo)]
            same = all(set(ks) == set(combo[0]) for ks in combo)
            try:
                kz = dss[0].key_zip(*dss[1:])
                err = None
            except Exception as e:   # noqa
                kz, err = None, type(e).__name__
            sc = 'key_zip of inputs with keys %r' % (combo,)
            if same and err is not None:
                fails.append({'scenario': sc, 'mismatches': [{'clause': 'equal key sets are accepted', 'observed': err, 'expected': 'a dataset'}]})
            elif not same and err is None:
                fails.append({'scenario': sc, 'mismatches': [{'clause': 'different key sets are refused at construction', 'observed': 'accepted', 'expected': 'AssertionError'}]})
            elif same and combo[0]:
                exp = [tuple('%s%d' % (k, j) for j in range(m)) for k in combo[0]]
                try:
                    got = list(kz)
                    got_k = [kz[k] for k in combo[0]]
                except Exception as e:   # noqa
                    got = got_k = type(e).__name__
                if got != exp or got_k != exp or tuple(kz.keys()) != tuple(combo[0]):
                    fails.append({'scenario': sc, 'mismatches': [{'clause': 'examples paired by key in the first input order', 'observed': repr(got)[:200], 'expected': repr(exp)[:200]}]})
            if fails:
                return cases, fails, bound
    return cases, fails, bound


def _concat_keys(tier):
    """ConcatenateDataset.keys(): refused (AssertionError / ValueError ...) iff some key occurs in two parts -- for every
    assignment of key sets to 2..4 parts, neighbouring or not"""
    import itertools
    import lazy_dataset
    cases, fails = 0, []
    pool = [[], ['a'], ['b'], ['a', 'b'], ['c'], ['b', 'c']]
    bound = 'parts with key sets from %r, 2..%d parts' % (pool, 3 if tier == 'quick' else 4)
    for m in ((2, 3) if tier == 'quick' else (2, 3, 4)):
        for combo in itertools.product(pool, repeat=m):
            cases += 1
            dss = [lazy_dataset.new({k: '%s%d' % (k, j) for k in ks}) for j, ks in enumerate(combo)]
            cat = dss[0].concatenate(*dss[1:])
            allk = [k for ks in combo for k in ks]
            unique = len(set(allk)) == len(allk)
            try:
                got = tuple(cat.keys())
                err = None
            except Exception as e:   # noqa
                got, err = None, type(e).__name__
            sc = 'concatenate of parts with keys %r' % (combo,)
            if unique and (err is not None or got != tuple(allk)):
                fails.append({'scenario': sc, 'mismatches': [{'clause': 'keys() of unique keys', 'observed': err or repr(got), 'expected': repr(tuple(allk))}]})
            if not unique and err is None:
                fails.append({'scenario': sc, 'mismatches': [{'clause': 'duplicate keys across parts are refused by keys()', 'observed': repr(got), 'expected': 'an exception'}]})
            if not unique:
                dup = [k for k in set(allk) if allk.count(k) > 1][0]
                try:
                    v = cat[dup]
                    fails.append({'scenario': sc, 'mismatches': [{'clause': 'ds[key] of a duplicated key is refused', 'observed': repr(v), 'expected': 'an exception'}]})
                except Exception:   # noqa
                    pass
            if fails:
                return cases, fails, bound
    return cases, fails, bound


def _fuzz(tier):
    import os
    from harness import fuzz_pipelines
    seed = int(os.environ.get('VERIF_SEED', '0') or 0)
    c, f = fuzz_pipelines.search(tier, seed)
    return c, f, ('%d random pipelines of depth 1..4 (seed %d) over sources of 0..5 examples from 27 operations (map, parallel map, raising map, catch, slices, masks, '
                  'key lists, concatenate, tile, zip, key_zip, items, batch, unbatch, lazy/eager filter, sort, cache, copy, prefetch, '
                  'split/shard, intersperse, snapshots, cached-state queries); complete observation vs the eager reference'
                  % (250 if tier == 'quick' else 2500, seed))


def _fuzz_isolation(tier):
    import os
    from harness import fuzz_pipelines
    seed = int(os.environ.get('VERIF_SEED', '0') or 0)
    c, f = fuzz_pipelines.search_isolation(tier, seed)
    return c, f, ('%d random pipelines (seed %d) over new() sources in pickle / copy / wu mode with dict / tuple / list / big-array '
                  'examples, memory and disk caches inside; three twins: mutate after a pristine pass, mutate the originals right after '
                  'construction, mutate at the first hand-out' % (400 if tier == 'quick' else 4000, seed))


def _fuzz_determinism(tier):
    import os
    from harness import fuzz_pipelines
    seed = int(os.environ.get('VERIF_SEED', '0') or 0)
    c, f = fuzz_pipelines.search_determinism(tier, seed)
    return c, f, ('%d random recipes (seed %d) of 1..5 stages mixing seeded one-time shuffles, per-epoch reshuffles, buffer-local shuffles and '
                  'lazily applied (re)shuffles with map / slice / concatenate / tile / zip / batch / unbatch / filter / items / intersperse / '
                  'copy; 3 epochs with the global numpy state reseeded before every epoch: second build, copy() of a fresh build (not when one '
                  'reshuffling object is used twice: F25), behind prefetch(1,2) and prefetch(2,3), copy(freeze=True) while the original keeps '
                  'iterating (reshuffle / lazy apply only), ordered flag' % (150 if tier == 'quick' else 1500, seed))


def _fuzz_demand(tier):
    import os
    from harness import fuzz_pipelines
    seed = int(os.environ.get('VERIF_SEED', '0') or 0)
    c, f = fuzz_pipelines.search_demand(tier, seed)
    return c, f, ('%d random recipes (seed %d) of 1..5 lazy stages (map, lazy filter, batch, unbatch, slices, index lists, concatenate, tile, zip, '
                  'catch, items, batch_map; at most one of prefetch(1,b) / prefetch(2,b) / map(num_workers) / batch_map(num_workers)) over sources '
                  'of 0..13 examples with an instrumented function at every stage, next to a reference of Python generators: construction applies '
                  'nothing; for EVERY prefix length the application log equals the reference log (interleaving included); with a buffering stage: '
                  'per stage a source-ordered once-only prefix within (b+1) [(b+2) for worker pools] results ahead; ds[i] applies what the '
                  'reference point evaluation applies' % (150 if tier == 'quick' else 1500, seed))


def _fuzz_prefetch_determinism(tier):
    import os
    from harness import fuzz_pipelines
    seed = int(os.environ.get('VERIF_SEED', '0') or 0)
    c, f = fuzz_pipelines.search_determinism(tier, seed, only='prefetch')
    return c, f, ('%d random recipes (seed %d) of 1..5 stages mixing seeded shuffles / reshuffles / local shuffles / lazily applied shuffles with '
                  'deterministic stages; 3 epochs: the recipe behind prefetch(1,2) and prefetch(2,3) delivers the epochs of the plain recipe'
                  % (150 if tier == 'quick' else 1500, seed))


def _fuzz_stop(tier):
    import os
    from harness import fuzz_pipelines
    seed = int(os.environ.get('VERIF_SEED', '0') or 0)
    c, f = fuzz_pipelines.search_stop(tier, seed)
    return c, f, ('%d random recipes (seed %d) of lazy stages with one or SEVERAL buffering stages (prefetch(1,b), prefetch(2,b), '
                  'map(num_workers), batch_map(num_workers), stacked), each stopped after k in {0, 1, middle, all} results by close(), by '
                  'dropping the iterator and by an exception thrown into it, and once by an Exception / a BaseException raised by the first '
                  'stage: the stop returns within 20 s, no user function runs afterwards (log unchanged 50 ms later), every thread started '
                  'by the iteration has exited (2 s grace)' % (60 if tier == 'quick' else 600, seed))


def _fuzz_laws(tier):
    import os
    from harness import fuzz_pipelines
    seed = int(os.environ.get('VERIF_SEED', '0') or 0)
    c, f = fuzz_pipelines.search_laws(tier, seed)
    return c, f, ('%d random law instances (seed %d): a random pipeline of 0..3 operations as the operand of one of 12 laws (map fusion; map over '
                  'slice / index list / shuffle / sort / concatenation / cache / batch; nested slices; concatenate(split(k)); tile(2); '
                  'batch(b).unbatch(); filter vs increasing selection), the same 0..2 random operations on top of both sides, complete '
                  'observation of both (refusals normalised; the uniqueness policy of keys() and listed finding F28 left out)'
                  % (200 if tier == 'quick' else 2000, seed))


EXTRA_FUZZ = [('bounded-pipeline-fuzz', _fuzz)]

_KEYLESS = ('bounded-keyless-snapshots', _mk('keyless_snapshots', '28 stage constructions over list-backed (key-less) inputs of 0,1,3 (0..4) examples: items() is refused with ItemsNotDefined (never another exception), from_dataset(ds) and new(ds) deliver the examples of one iteration'))

_VIEWS = ('bounded-views-alignment', _mk('views_alignment', 'selections by int64 / int32 array, list, key list, one-time shuffle, sort, shard, groupby group, frozen copy of a reshuffle (plain and below a map) over 1, 3, 6 keyed examples, keys() asked first or not: keys / items / iteration / integer and key lookup aligned and unchanged after the caller changed the index object in place and the parent went on reshuffling'))
_CATCH_MATRIX = ('bounded-prefetch-catch-matrix', _mk('prefetch_catch_matrix', 'prefetch(w, b, catch_filter_exception=sel), sel in {True, FilterException, A, (A, KeyError)}, w in {1, 2}, values and items, 5 (7) examples (one of them None), every subset of up to 2 raising positions with FilterException / its subclass / A / its subclass / KeyError / ValueError: exactly the selected ones are omitted, the first other one arrives after all that precede it'))

EXTRA_MORE = {
    'C06': [_CATCH_MATRIX],
    'C05': [('bounded-stop-inside-user-code', _mk('stop_inside_user_code', 'close() of prefetch(1, b), b in {1, 2}, while the background thread is inside a 1.5 s user function: when it has returned nothing more is applied and the thread is gone; close() after 1 of 10 slow examples of a parallel map over multiprocessing / concurrent_mp / mp pools (buffer 6, 2 workers): started <= delivered + workers + 1 (+ workers + 1 for the executor call queue), nothing starts afterwards')), ('bounded-stop-fuzz', _fuzz_stop)],
    'C07': [('bounded-readahead-dataset-level', _mk('readahead_dataset_level', 'list of 24 .map(f0) below map(g, num_workers=w, buffer_size=b) [fast and slow g, thread backend; multiprocessing and concurrent_mp (+ mp, dill_mp thorough) for the source side] and below prefetch(1, b) / prefetch(2, 3): f0 applications beyond the examples delivered <= b + 2 at the pause points of a slow consumer AND at the instant of every application (fast consumer, 12 reads); g applications started beyond those delivered <= b'))],
    'C02': [('bounded-offered-lengths', _mk('offered_lengths', 'sources of 0,1,2,5,8 examples; lazy apply (slice / eager filter / tile / shuffle), filter, catch, unbatch, reshuffle, local shuffle, prefetch, dynamic buckets, each also under map / batch / local shuffle: len() is refused or equals the iteration count')),
            ('bounded-numpy-indices', _mk('numpy_indices', '18 pipelines over 300 examples, 28 boundary indices, np.int8/uint8/int16 (quick) plus uint16/int32/int64 (thorough): ds[dtype(i)] equals ds[int(i)]'))],
    'C04': [_CATCH_MATRIX, ('bounded-prefetch-fuzz', _fuzz_prefetch_determinism), ('bounded-parallel-equals-sequential', _mk('parallel_equals_sequential', 'thread backend; n in {0,1,2,5,9} (.. 12), workers 1..2 (3), buffers 1,2,4 (1..7); map(num_workers), prefetch, seeded reshuffle / shared-reshuffle tile below prefetch, stacked; values and items; 3 epochs; lengths'))],
    'C11': [('bounded-diskcache-random-histories', _mk('cache_random_histories_disk', 'as bounded-cache-random-histories of C10 over a disk cache, plus release-and-reopen (reuse=True) steps in the middle of the history')), ('bounded-diskcache-kill-points', _mk('diskcache_kill_points', 'a forked child populating 12 examples is killed (SIGKILL) after 0, 20, 50, 90 ms (0..150 ms in 10 ms steps); reopen with reuse=True: all values correct, stored ones not recomputed')),
            ('bounded-diskcache-lifecycles', _mk('diskcache_lifecycles', 'cache_dir given / None x clear x {copy outlives original, original outlives copy, no copy} x {0, 2, all of 4 examples read}; release by garbage collection; reopen with reuse=False (refused) and reuse=True (no recomputation)'))],
    'C13': [_VIEWS, ('bounded-determinism-fuzz', _fuzz_determinism), ('bounded-prefetch-determinism', _mk('parallel_equals_sequential', 'as for C04: seeded per-epoch reshuffles below prefetch / parallel map reproduce the sequential epochs'))],
    'C09': [('bounded-isolation-fuzz', _fuzz_isolation), ('bounded-snapshot-isolation', _mk('snapshot_isolation', 'from_dataset / new(src) / cache(lazy=False) of dict- and list-backed sources stored in pickle, copy, wu mode: isolated from later mutation of the original objects and of handed-out examples')),
            ('bounded-isolation-more', _mk('isolation_more', 'example shapes dict / tuple / namedtuple / list with mutable parts; pickle, copy, wu, memory and disk cache; mutation inside a running first-epoch loop, over items(), through a copy, after an aborted epoch, after the next example was requested; re-read by iteration, index, copy')),
            ('bounded-isolation', _mk('isolation', 'new/from_list in pickle, copy, wu mode and memory/disk cache; 7 access paths, miss and hit, nested in-place mutations'))],
    'C10': [('bounded-cache-random-histories', _mk('cache_random_histories', '150 (1500) random histories of 10..14 steps (VERIF_SEED) over a 5-example memory cache with a freshly random mutable upstream value: index of either sign, key, full / aborted iteration, items, slices, index lists, copies, single-thread prefetch, in-place mutation of what was handed out: every value equals the first one returned for its example, at most one upstream evaluation per example')), _KEYLESS, ('bounded-cache-histories', _mk('cache_histories', 'all access histories of length 2 (3 thorough) over 17 operations on a 4-example cache with a freshly random upstream; memory threshold crossed after 0..4 stores'))],
    'C14': [_CATCH_MATRIX, ('bounded-catch', _mk('catch_epochs', 'sources of 0..7 examples, all failing subsets up to size 3, single type / tuple / subclass, values and items, two epochs, reshuffled upstream over 4 epochs, lazy/eager/FilterException selection'))],
    'C15': [_VIEWS, ('bounded-split', _mk('split_exhaustive', 'all (n, k, i) with n <= 40 (300 thorough), k in [-1, n+2], shard indices {0, k-1, -1}'))],
    'C20': [('bounded-profiling-stage-counts', _mk('profiling_stage_counts', '10 linear element-wise pipelines (map / slice / shuffles / catch / prefetch(1) / cache / sort) over 3 and 6 (1,3,6,9) examples, two epochs: per-stage hits = examples delivered, profiled = identically seeded unprofiled twin')),
            ('bounded-profiling-transparency', _mk('profiling_transparency', 'the scenario pipelines of 13 stage classes (every third one in the quick tier), all observations incl. indices [-n-2, n+2), wrapped vs unwrapped, hit counts of the top wrapper'))],
    'C19': [('bounded-database', _mk('database', 'descriptions over 4 datasets (0..2 examples) and 6 aliases (overlapping ids, unknown and empty members), 0..3 datasets x 0..2 aliases, 1..3 merged parts, alias section in any part, extra top-level keys; requests: names, aliases, unknown, lists, repeats, after gc; DictDatabase, JsonDatabase, pickled JsonDatabase (every 4th description in the quick tier)'))],
    'C18': [_VIEWS, ('bounded-sort-groupby', _mk('sort_group', 'all value sequences over {0,1,2} up to length 5 (7 thorough), reverse on/off, incomparable payloads, scalar and tuple group ids'))],
}

EXTRA_INIT = [('bounded-intersperse-init', _intersperse_init)]
EXTRA_KEYS = [('bounded-keyzip-init', _keyzip_init), ('bounded-concatenate-keys', _concat_keys), _KEYLESS, _VIEWS]

_C13_CLAUSES = {'seed-determinism', 'copy-determinism', 'frozen-stays-frozen', 'prefetch-determinism',
                'copy-of-a-pipeline-sharing-one-reshuffle-object'}


def _shuffle_for(c13):
    # one search, two properties: each reports only the clauses that belong to it
    def run(tier):
        c, f, b = _shuffle(tier)
        f = [x for x in f if (x['mismatches'][0]['clause'] in _C13_CLAUSES) == c13]
        return c, f, b
    return run


EXTRA = {'C16': [('bounded-laws', _laws), ('bounded-law-fuzz', _fuzz_laws)], 'C08': [('bounded-demand', _effects), ('bounded-demand-fuzz', _fuzz_demand)], 'C17': [('bounded-bucket-iter', _bucket)],
         'C12': [('bounded-shuffles', _shuffle_for(False)), _VIEWS], 'C13': [('bounded-seed-determinism', _shuffle_for(True))]}


def known_finding_of(cls, mismatch, findings):
    for f in findings:
        for pat in f.get('native_patterns', []):
            if pat.get('class') == cls and pat.get('clause') == mismatch['clause'].split('[')[0] \
                    and pat.get('observed_contains', '') in mismatch['observed']:
                return f['id']
    return None


def main():
    ap = argparse.ArgumentParser()
    ap.add_argument('prop')
    ap.add_argument('--tier', default='quick')
    ap.add_argument('--seed', default='0')
    a = ap.parse_args()
    here = os.path.dirname(os.path.dirname(os.path.abspath(__file__)))
    kfp = os.path.join(here, 'known_findings.json')
    findings = [f for f in json.load(open(kfp))['findings'] if f.get('status') == 'open'] if os.path.exists(kfp) else []
    out = []
    try:
        what = scenarios.CLAUSES.get(a.prop)
        for cls in CLASSES_FOR.get(a.prop, []):
            if cls not in scenarios.SCENARIOS:
                continue
            cases, fails = scenarios.run_class(cls, what=what)
            fl = []
            for f in fails:
                ms = []
                for m in f['mismatches']:
                    m = dict(m)
                    m['finding'] = known_finding_of(cls, m, findings)
                    ms.append(m)
                fid = {m['finding'] for m in ms}
                fl.append({'scenario': f['scenario'], 'mismatches': ms,
                           'finding': (fid.pop() if len(fid) == 1 else None)})
            unexplained = [x for x in fl if x['finding'] is None]
            out.append({'name': 'conformance-' + cls, 'kind': 'bounded', 'cases': cases,
                        'bound': 'source lengths 0..6 and the parameter grid of harness/scenarios.py',
                        'failures': (unexplained or fl)[:5],
                        'known_finding_cases': len(fl) - len(unexplained)})
        os.environ['VERIF_SEED'] = str(a.seed)
        for name, fn in EXTRA.get(a.prop, []) + EXTRA_MORE.get(a.prop, []) + (EXTRA_INIT if a.prop in ('C01', 'C02') else []) + (EXTRA_KEYS if a.prop in ('C03', 'C01') else []) + (EXTRA_FUZZ if a.prop in ('C01', 'C02', 'C03', 'C04', 'C16') else []):
            cases, fails, bound = fn(a.tier)
            out.append({'name': name, 'kind': 'bounded', 'cases': cases, 'bound': bound, 'failures': fails[:5],
                        'known_finding_cases': 0})
        print(json.dumps({'standins': out}))
    except BaseException:  # noqa
        print(json.dumps({'standins': out, 'error': traceback.format_exc()[-800:]}))


if __name__ == '__main__':
    import os as _os
    import sys as _sys
    try:
        main()
    finally:
        # a defect under test may leave a non-daemon thread blocked for ever (that is what some checks detect): the verdict
        # is on stdout by now, do not wait for such threads at interpreter exit
        _sys.stdout.flush()
        _sys.stderr.flush()
        try:
            import atexit as _atexit
            _atexit._run_exitfuncs()          # scratch directories of the stand-ins are removed here
        except BaseException:      # noqa
            pass
        _os._exit(0)
