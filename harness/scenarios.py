"""Small concrete scenarios per stage class: (description, real dataset, reference).
Bounded by construction (source sizes 0..5, a few parameter values per stage)."""
import itertools

from harness import oracle as O
from harness.oracle import Ref, Boom, BoomIndex


def _f(x):
    return ('f', x)


def _p(x):
    return (x // 10) % 2 == 1


def _raise_filter(x):
    import lazy_dataset
    if not _p(x):
        raise lazy_dataset.FilterException()
    return x


def scen_ListDataset():
    from lazy_dataset.core import ListDataset
    for n in (0, 1, 2, 5):
        vals = [10 * (i + 1) for i in range(n)]
        yield 'ListDataset[%d]' % n, ListDataset(list(vals)), Ref([('v', v) for v in vals]), []
        yield 'ListDataset(tuple)[%d]' % n, ListDataset(tuple(vals)), Ref([('v', v) for v in vals]), []


def scen_NumpySerializedList():
    # immutable_warranty='wu': a ListDataset over the numpy-serialised list
    import lazy_dataset
    for n in (1, 2, 3, 5):      # n = 0 cannot be constructed in this mode (np.concatenate of no arrays: ValueError)
        vals = [10 * (i + 1) for i in range(n)]
        yield "from_list(%r, immutable_warranty='wu')" % (vals,), lazy_dataset.from_list(list(vals), immutable_warranty='wu'), \
            Ref([('v', v) for v in vals]), []


def scen_DictDataset():
    from lazy_dataset.core import DictDataset
    for n in (0, 1, 2, 5):
        vals = [10 * (i + 1) for i in range(n)]
        keys = [chr(ord('a') + i) for i in range(n)]
        yield 'DictDataset[%d]' % n, DictDataset(dict(zip(keys, vals))), Ref([('v', v) for v in vals], keys), keys


def scen_MapDataset():
    for d, ds, r in O.mk_sources():
        yield d + '.map(f)', ds.map(_f), O.ref_map(r, _f), r.keys or []


def _slice_specs(n):
    specs = [slice(None), slice(0, 0), slice(1, None), slice(None, -1), slice(None, None, 2), slice(None, None, -1),
             slice(-2, None), [], [0] if n else [], [n - 1, 0] if n else [], [-1] if n else [],
             [0, 0] if n else [], tuple(range(n)), list(range(n))[::-1]]
    # index lists that start at their minimum, end at their maximum and have the length of the range, but are NOT the range
    if n >= 3:
        specs += [[0, 0, 2], [0, 2, 2]]
    if n >= 4:
        specs += [[0, 2, 1, 3], [0, 0, 3, 3], [1, 3, 2, 4] if n >= 5 else [0, 2, 1, 3]]
    return specs


def scen_SliceDataset():
    import numpy as np
    for d, ds, r in O.mk_sources():
        n = r.n
        for sp in _slice_specs(n):
            pos = list(np.arange(n)[sp,]) if not isinstance(sp, slice) else list(range(n))[sp]
            pos = [int(p) for p in pos]
            yield '%s[%r]' % (d, sp), ds[sp], O.ref_slice(r, pos), (r.keys or [])
        if r.keys:
            ks = [r.keys[-1], r.keys[0]]
            yield '%s[%r]' % (d, ks), ds[ks], O.ref_slice(r, [r.keys.index(k) for k in ks]), r.keys
            ks = (r.keys[0],)
            yield '%s[%r]' % (d, ks), ds[ks], O.ref_slice(r, [0]), r.keys
        if n:
            arr = np.array([n - 1, 0])
            yield '%s[array]' % d, ds[arr], O.ref_slice(r, [n - 1, 0]), (r.keys or [])
            # boolean masks: a python list / tuple of bools and a numpy bool array select the True positions
            for mask in ([i % 2 == 0 for i in range(n)], [i % 3 == 1 for i in range(n)], [True] * n, [False] * n):
                pos = [i for i, b in enumerate(mask) if b]
                yield '%s[%r]' % (d, mask), ds[mask], O.ref_slice(r, pos), (r.keys or [])
                yield '%s[%r]' % (d, tuple(mask)), ds[tuple(mask)], O.ref_slice(r, pos), (r.keys or [])
                yield '%s[np.array(%r)]' % (d, mask), ds[np.array(mask)], O.ref_slice(r, pos), (r.keys or [])


def scen_ConcatenateDataset():
    import lazy_dataset
    srcs = O.mk_sources(sizes=(0, 1, 3))
    for (d1, a, ra), (d2, b, rb) in itertools.product(srcs, srcs):
        yield '%s ++ %s' % (d1, d2), a.concatenate(b), O.ref_concat([ra, rb]), (ra.keys or []) + (rb.keys or [])
    vals = {'x': 1, 'y': 2}
    a = lazy_dataset.new(vals)
    b = lazy_dataset.new({'p': 7, 'q': 8, 'r': 9})
    c = lazy_dataset.new({'s': 0})
    ra, rb, rc = Ref([('v', 1), ('v', 2)], ['x', 'y']), Ref([('v', 7), ('v', 8), ('v', 9)], ['p', 'q', 'r']), \
        Ref([('v', 0)], ['s'])
    yield 'a++b++c', a.concatenate(b, c), O.ref_concat([ra, rb, rc]), ['x', 'q', 's']


def scen_IntersperseDataset():
    srcs = [x for x in O.mk_sources(sizes=(1, 2, 3, 5)) if x[2].n > 0]
    import lazy_dataset
    for (d1, a, ra), (d2, b, rb) in itertools.product(srcs, srcs):
        if ra.keys is not None and rb.keys is not None:
            # distinct key spaces for the second operand
            kb = ['z' + k for k in rb.keys]
            b2 = lazy_dataset.new(dict(zip(kb, [10 * (i + 1) for i in range(rb.n)])))
            if 'map' in d2:
                continue
            rb2 = Ref(rb.outs, kb)
            yield '%s <intersperse> %s(renamed keys)' % (d1, d2), a.intersperse(b2), O.ref_intersperse([ra, rb2]), ra.keys + kb
        yield '%s <intersperse> %s' % (d1, d2), a.intersperse(b), O.ref_intersperse([ra, rb]), (ra.keys or []) + (rb.keys or [])
    a = lazy_dataset.new({'a': 1, 'b': 2, 'c': 3})
    b = lazy_dataset.new({'p': 7})
    c = lazy_dataset.new({'s': 0, 't': 5})
    ra, rb, rc = Ref([('v', 1), ('v', 2), ('v', 3)], ['a', 'b', 'c']), Ref([('v', 7)], ['p']), Ref([('v', 0), ('v', 5)], ['s', 't'])
    yield 'a <i> b <i> c', a.intersperse(b, c), O.ref_intersperse([ra, rb, rc]), ['a', 'p', 't']


def scen_ZipDataset():
    srcs = O.mk_sources(sizes=(0, 1, 3))
    for (d1, a, ra), (d2, b, rb) in itertools.product(srcs, srcs):
        if ra.n == rb.n:
            yield 'zip(%s, %s)' % (d1, d2), a.zip(b), O.ref_zip([ra, rb]), []


def scen_KeyZipDataset():
    srcs = [s for s in O.mk_sources(sizes=(0, 1, 3)) if s[2].keys is not None]
    for (d1, a, ra), (d2, b, rb) in itertools.product(srcs, srcs):
        if set(ra.keys) == set(rb.keys):
            yield 'key_zip(%s, %s)' % (d1, d2), a.key_zip(b), O.ref_key_zip([ra, rb]), ra.keys
    import lazy_dataset
    a = lazy_dataset.new({'a': 1, 'b': 2, 'c': 3})
    b = lazy_dataset.new({'c': 30, 'a': 10, 'b': 20})
    yield 'key_zip(perm)', a.key_zip(b), O.ref_key_zip([Ref([('v', 1), ('v', 2), ('v', 3)], ['a', 'b', 'c']),
                                                         Ref([('v', 30), ('v', 10), ('v', 20)], ['c', 'a', 'b'])]), ['a']


def scen_ItemsDataset():
    for d, ds, r in O.mk_sources():
        if r.keys is not None:
            yield d + '.items()', ds.items(), O.ref_items(r), r.keys


def scen_BatchDataset():
    for d, ds, r in O.mk_sources(sizes=(0, 1, 2, 3, 5, 6)):
        for b in (1, 2, 3, 4):
            for drop in (False, True):
                yield '%s.batch(%d,%s)' % (d, b, drop), ds.batch(b, drop_last=drop), O.ref_batch(r, b, drop), []


def scen_UnbatchDataset():
    for d, ds, r in O.mk_sources(sizes=(0, 1, 3, 5), raising=False):
        for b in (1, 2, 3):
            ref = Ref(r.outs, None, False, False)
            yield '%s.batch(%d).unbatch()' % (d, b), ds.batch(b).unbatch(), ref, []
            # drop_last: the incomplete tail batch is gone, unbatch flattens exactly what batch yields
            keep = (r.n // b) * b
            yield '%s.batch(%d, drop_last=True).unbatch()' % (d, b), ds.batch(b, drop_last=True).unbatch(), \
                Ref(r.outs[:keep], None, False, False), []
        # unbatching examples that are lists / tuples themselves (a map that fragments an example)
        yield '%s.map(fragment).unbatch()' % d, ds.map(lambda x: [x, ('again', x)]).unbatch(), \
            Ref([o for out in r.outs for o in (out, ('v', ('again', out[1])))], None, False, False), []


def scen_FilterDataset():
    for d, ds, r in O.mk_sources():
        yield d + '.filter(p)', ds.filter(_p), O.ref_filter(r, _p), []


def scen_CatchExceptionDataset():
    for d, ds, r in O.mk_sources():
        yield d + '.catch(Boom)', ds.catch(Boom), O.ref_catch(r, {'Boom'}), []
        yield d + '.catch((Boom,BoomIndex))', ds.catch((Boom, BoomIndex)), O.ref_catch(r, {'Boom', 'BoomIndex'}), []
        yield d + '.catch(LookupError)', ds.catch(LookupError), O.ref_catch(r, {'BoomIndex'}), []
        yield d + '.map(raise FilterException).catch()', ds.map(_raise_filter).catch(), \
            O.ref_catch(O.ref_map(r, _raise_filter), {'FilterException'}), []


def scen_FromDataset():
    # lazy_dataset.from_dataset(ds) / new(ds): a snapshot with every example of one pass, in order; it has the keys of ds
    # when they are unique, and no keys when a key occurs twice (then it is list-backed) -- sized or not
    import lazy_dataset
    a = lazy_dataset.new({'a': 1, 'b': 2, 'c': 3})
    b = lazy_dataset.new({'b': 12, 'c': 13, 'd': 14})
    lst = lazy_dataset.new([5, 6, 7])

    def odd(x):
        return x % 2 == 1
    cases = {
        'dict': (a, [1, 2, 3], ['a', 'b', 'c']),
        'list': (lst, [5, 6, 7], None),
        'dict.filter(odd)': (a.filter(odd), [1, 3], ['a', 'c']),
        'a ++ b (duplicate keys, sized)': (a.concatenate(b), [1, 2, 3, 12, 13, 14], None),
        '(a ++ b).filter(odd) (duplicate keys, no length)': (a.concatenate(b).filter(odd), [1, 3, 13], None),
        'a.tile(2).filter(odd)': (a.tile(2).filter(odd), [1, 3, 1, 3], None),
        'a.filter(odd) ++ b.filter(odd) (unique after filtering)': (a.filter(odd).concatenate(b.filter(odd)), [1, 3, 13], None),
        'a.map(f)[::-1]': (a.map(lambda x: x * 10)[::-1], [30, 20, 10], ['c', 'b', 'a']),
        'empty': (a[:0], [], []),
    }
    # the last-but-one case has keys a, c, c: duplicate
    for name, (ds, vals, keys) in cases.items():
        for how in ('from_dataset', 'new'):
            snap = lazy_dataset.from_dataset(ds) if how == 'from_dataset' else lazy_dataset.new(ds)
            yield '%s(%s)' % (how, name), snap, Ref([('v', v) for v in vals], keys), (keys or [])


def scen_CacheDataset():
    # a memory cache over deterministic indexable sources shows exactly what the source shows (first and later reads:
    # observe() reads every position several times)
    for d, ds, r in O.mk_sources():
        if r.idx:
            yield d + '.cache()', ds.cache(), r, r.keys or []
            # the cache filled OUT OF ORDER before anything is observed (last example first, by index and by key)
            if r.n >= 2 and all(o[0] == 'v' for o in r.outs):
                c = ds.cache()
                for i in list(range(r.n))[::-1]:
                    c[i - r.n] if i % 2 else c[i]
                yield d + '.cache() filled back to front', c, r, r.keys or []
                if r.keys:
                    c = ds.cache()
                    for k in [r.keys[-1]] + list(r.keys[:-1]):
                        c[k]
                    yield d + '.cache() filled by key, last key first', c, r, r.keys or []


SCENARIOS = {k[5:]: v for k, v in list(globals().items()) if k.startswith('scen_')}

# which observation clauses count for which property
CLAUSES = {
    'C01': {'iter', 'iter-repeat'},
    'C02': {'len', 'getitem', 'indexable'},
    'C03': {'keys', 'items', 'getkey'},
    'C14': {'iter', 'items'},
}


def adjust_expected(cls, ref, ex):
    """Class-specific parts of the expectation that the generic Ref cannot express."""
    cls = getattr(ref, 'inner_cls', cls)
    if cls == 'BatchDataset' and getattr(ref, 'tail_exc', None) is not None:
        seq, end = ex['iter0']
        if end == ('end',):
            ex['iter0'] = ex['iter1'] = (seq, (ref.tail_exc[0], ref.tail_exc[1]))
        # ds[len(ds)] may surface the tail exception instead of IndexError
        n = ref.n
        for i in (n,):
            if i in ex['getitem']:
                ex['getitem'][i] = None
    if cls in ('FilterDataset', 'CatchExceptionDataset', 'UnbatchDataset'):
        ex['getkey'] = {}
        ex['keys'] = None
    if cls == 'UnbatchDataset':
        ex['items'] = 'refused'
    return ex


def run_class(cls, what=None, limit=None, first_only=False):
    """-> (cases, failures[list of dict])"""
    gen = SCENARIOS[cls]()
    cases = 0
    failures = []
    while True:
        try:
            desc, ds, ref, probe = next(gen)
        except StopIteration:
            break
        except Exception as e:      # noqa  -- building a scenario pipeline must not fail on the unchanged tree
            import traceback
            where = traceback.extract_tb(e.__traceback__)[-1]
            failures.append({'scenario': 'building scenario #%d of %s' % (cases + 1, cls), 'class': cls,
                             'mismatches': [{'clause': 'construction', 'observed': '%s: %s (%s:%d)' % (type(e).__name__, str(e)[:120], where.filename.split('/')[-1], where.lineno),
                                             'expected': 'the pipeline can be built'}]})
            break
        cases += 1
        if limit and cases > limit:
            break
        ob = O.observe(ds, probe_keys=probe)
        ex = adjust_expected(cls, ref, O.expected(ref, probe_keys=probe))
        bad = O.compare(ob, ex, what)
        if bad:
            failures.append({'scenario': desc, 'class': cls,
                             'mismatches': [{'clause': b[0], 'observed': repr(b[1]), 'expected': repr(b[2])}
                                            for b in bad[:6]]})
            if first_only:
                break
    return cases, failures
