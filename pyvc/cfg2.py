"""Two-thread control-flow compiler for `parallel_utils.single_thread_prefetch` (DESIGN 2.10).

The nested `worker` and the generator body after `thread.start()` share closure cells
(`shutdown`, `exc_info`), a bounded `queue.Queue` and the source iterator.  Both bodies are
compiled *mechanically from the current AST* into control-flow graphs whose edges are atomic
steps: exactly one access to shared state (one closure-cell read or write, one Queue method
call, one `next` of the source, `join`) followed by thread-local computation -- the
granularity the GIL gives.  Statement forms handled: if / for-over-the-source / while True /
break / return / try-except-finally (pending completion) / yield / raise / assignments and
calls matching the *action table* below.  Anything else makes extraction fail (UNDECIDED).

State vector (z3): see `Model.vars`.  Each edge is (thread, src node, guard, update, dst node,
label).  The global invariant is supplied per *role* of a node (thread, kind of the shared
action at that node, ordinal of that kind in source order), never per line.
"""
import ast

import z3

from .values import Unsupported

INT, BOOL = z3.IntSort(), z3.BoolSort()

# completion kinds of a try/finally
NORMAL, RETURN, RAISE_EXC, RAISE_BASE, BREAK, GENEXIT, RAISE_STORED, RAISE_EMPTY = range(8)


class Node:
    def __init__(self, nid, thread, kind, ordinal=None, lineno=None):
        self.id = nid
        self.thread = thread
        self.kind = kind          # kind of the shared action performed *at* this node
        self.ordinal = ordinal
        self.lineno = lineno

    @property
    def role(self):
        return (self.thread, self.kind, self.ordinal)


class Ctx:
    """compile-time continuation targets"""

    def __init__(self, ret=None, brk=None, cont=None, rais=None):
        self.ret, self.brk, self.cont, self.rais = ret, brk, cont, rais

    def but(self, **kw):
        c = Ctx(self.ret, self.brk, self.cont, self.rais)
        for k, v in kw.items():
            setattr(c, k, v)
        return c


class ThreadCFG:
    """Raw CFG of one thread: nodes with at most one shared action, local edges in between."""

    def __init__(self, thread, shared_names):
        self.thread = thread
        self.shared = shared_names
        self.nodes = {}
        self.edges = []      # (src, kind, payload, dst): kind in shared/local
        self.counts = {}
        self._n = 0
        self.start = None
        self.fin_entries = []
        self.end = self.new('end')

    def new(self, kind, lineno=None, count=True):
        o = None
        if count and kind not in ('local', 'end', 'start'):
            o = self.counts.get(kind, 0)
            self.counts[kind] = o + 1
        n = Node(self._n, self.thread, kind, o, lineno)
        self.nodes[self._n] = n
        self._n += 1
        return n.id

    def edge(self, src, payload, dst):
        self.edges.append((src, payload, dst))


# ------------------------------------------------------------------ action table
def classify_expr(e, shared):
    """Recognise the shared action an expression performs.  -> (kind, detail) or None (local)."""
    if isinstance(e, ast.Call) and isinstance(e.func, ast.Attribute) and isinstance(e.func.value, ast.Name):
        obj, meth = e.func.value.id, e.func.attr
        if obj == 'data_queue':
            if meth == 'put' and len(e.args) == 1 and isinstance(e.args[0], ast.Name):
                return ('put-sentinel' if e.args[0].id == 'unique_object' else 'put-item', e.args[0].id)
            if meth == 'get' and not e.args and not e.keywords:
                return ('get', None)
            if meth == 'get_nowait' and not e.args:
                return ('get_nowait', None)
            raise Unsupported('queue operation data_queue.%s%s not in the action table' % (meth, ast.dump(e)[:60]))
        if obj == 'thread' and meth == 'join' and not e.args:
            return ('join', None)
        if obj == 'thread' and meth == 'start' and not e.args:
            return ('start', None)
    if isinstance(e, ast.Call) and ast.unparse(e) == 'sys.exc_info()':
        return ('exc_info()', None)
    return None


class Compiler:
    """AST -> ThreadCFG.  Edge payload: ('act', kind, detail) | ('test', cond-ast, polarity) |
    ('set', name, value-descr) | ('nop',)"""

    def __init__(self, thread, shared, locals_):
        self.g = ThreadCFG(thread, shared)
        self.locals = locals_
        self.shared = shared

    def fresh_local(self):
        return self.g.new('local', count=False)

    def compile_body(self, stmts, nxt, ctx):
        """returns entry node id; flows to nxt after the last statement"""
        entry = nxt
        for s in reversed(stmts):
            entry = self.stmt(s, entry, ctx)
        return entry

    def stmt(self, s, nxt, ctx):
        g = self.g
        if isinstance(s, ast.Pass):
            return nxt
        if isinstance(s, ast.Nonlocal):
            return nxt
        if isinstance(s, ast.Expr) and isinstance(s.value, ast.Constant):
            return nxt
        if isinstance(s, ast.Return):
            if s.value is not None:
                raise Unsupported('return with value in thread body')
            n = self.fresh_local()
            g.edge(n, ('nop',), ctx.ret)
            return n
        if isinstance(s, ast.Break):
            n = self.fresh_local()
            g.edge(n, ('nop',), ctx.brk)
            return n
        if isinstance(s, ast.If):
            return self.branch(s.test, self.compile_body(s.body, nxt, ctx),
                               self.compile_body(s.orelse, nxt, ctx) if s.orelse else nxt, s)
        if isinstance(s, ast.Expr) and isinstance(s.value, ast.Yield):
            n = g.new('yield', s.lineno)
            g.edge(n, ('act', 'yield', ast.unparse(s.value.value) if s.value.value else None), nxt)
            g.edge(n, ('act', 'yield-close', None), ctx.rais)
            return n
        if isinstance(s, ast.Expr):
            c = classify_expr(s.value, self.shared)
            if c is None:
                raise Unsupported('expression statement %s' % ast.unparse(s))
            n = g.new(c[0], s.lineno)
            g.edge(n, ('act', c[0], c[1]), nxt)
            if c[0] == 'get_nowait':
                g.edge(n, ('act', 'get_nowait-empty', None), ctx.rais)
            return n
        if isinstance(s, ast.Assign) and len(s.targets) == 1 and isinstance(s.targets[0], ast.Name):
            name = s.targets[0].id
            c = classify_expr(s.value, self.shared)
            if c is not None:
                n = g.new(c[0] if name not in self.shared else 'write-' + name, s.lineno)
                g.edge(n, ('act', c[0], (name, c[1])), nxt)
                return n
            if name in self.shared:
                if isinstance(s.value, ast.Constant):
                    n = g.new('write-' + name, s.lineno)
                    g.edge(n, ('act', 'write', (name, s.value.value)), nxt)
                    return n
                raise Unsupported('write to shared %s = %s' % (name, ast.unparse(s.value)))
            raise Unsupported('local assignment %s' % ast.unparse(s))
        if isinstance(s, ast.For):
            if not (isinstance(s.iter, ast.Name) and s.iter.id == 'generator' and isinstance(s.target, ast.Name)):
                raise Unsupported('for loop other than `for <name> in generator`')
            head = g.new('pull', s.lineno)
            body = self.compile_body(s.body, head, ctx.but(brk=nxt, cont=head))
            g.edge(head, ('act', 'pull-item', s.target.id), body)
            g.edge(head, ('act', 'pull-end', None), nxt)
            g.edge(head, ('act', 'pull-raise-exc', None), ctx.rais)
            g.edge(head, ('act', 'pull-raise-base', None), ctx.rais)
            return head
        if isinstance(s, ast.While):
            if s.orelse:
                raise Unsupported('while/else')
            head = self.fresh_local()
            body = self.compile_body(s.body, head, ctx.but(brk=nxt, cont=head))
            if isinstance(s.test, ast.Constant) and s.test.value is True:
                g.edge(head, ('nop',), body)
            else:
                g.edge(head, ('nop',), self.branch(s.test, body, nxt, s))
            return head
        if isinstance(s, ast.Raise):
            n = g.new('reraise', s.lineno)
            src = ast.unparse(s.exc) if s.exc is not None else ''
            if 'exc_info' not in src:
                raise Unsupported('raise %s' % src)
            g.edge(n, ('act', 'raise-stored', None), ctx.rais)
            return n
        if isinstance(s, ast.Try):
            return self.try_(s, nxt, ctx)
        raise Unsupported('statement %s in thread body' % type(s).__name__)

    def branch(self, test, then_n, else_n, s):
        g = self.g
        if isinstance(test, ast.BoolOp):
            # short circuit, left to right
            vals = test.values
            if isinstance(test.op, ast.Or):
                nxt_test = else_n
                for v in reversed(vals):
                    nxt_test = self.branch(v, then_n, nxt_test, s)
                return nxt_test
            nxt_test = then_n
            for v in reversed(vals):
                nxt_test = self.branch(v, nxt_test, else_n, s)
            return nxt_test
        neg = False
        t = test
        if isinstance(t, ast.UnaryOp) and isinstance(t.op, ast.Not):
            neg, t = True, t.operand
        if isinstance(t, ast.Name) and t.id in self.shared:
            n = g.new('read-' + t.id, s.lineno)
            g.edge(n, ('act', 'read-true', t.id), else_n if neg else then_n)
            g.edge(n, ('act', 'read-false', t.id), then_n if neg else else_n)
            return n
        src = ast.unparse(t)
        if src in ('item is unique_object',):
            n = self.fresh_local()
            g.edge(n, ('test', 'item-is-sentinel', True), else_n if neg else then_n)
            g.edge(n, ('test', 'item-is-sentinel', False), then_n if neg else else_n)
            return n
        if src in ('exc_info is not None', 'exc_info is None'):
            if src == 'exc_info is None':
                neg = not neg
            n = g.new('read-exc_info', s.lineno)
            g.edge(n, ('act', 'read-true', 'exc_info'), else_n if neg else then_n)
            g.edge(n, ('act', 'read-false', 'exc_info'), then_n if neg else else_n)
            return n
        raise Unsupported('branch condition %s not in the action table' % src)

    def try_(self, s, nxt, ctx):
        """try/except/finally with a pending-completion variable per thread."""
        g = self.g
        after = nxt
        if s.finalbody:
            # dispatch node after the finally body: continue according to the pending completion
            disp = self.fresh_local()
            g.edge(disp, ('test', 'pend', NORMAL), nxt)
            if ctx.ret is not None:
                g.edge(disp, ('test', 'pend', RETURN), ctx.ret)
            if ctx.brk is not None:
                g.edge(disp, ('test', 'pend', BREAK), ctx.brk)
            g.edge(disp, ('test', 'pend', 'raise'), ctx.rais)
            fin = self.compile_body(s.finalbody, disp, ctx)
            g.fin_entries.append(fin)

            def via(kind):
                n = self.fresh_local()
                g.edge(n, ('set', 'pend', kind), fin)
                return n
            inner = ctx.but(ret=via(RETURN) if ctx.ret is not None else None,
                            brk=via(BREAK) if ctx.brk is not None else None,
                            rais=via('raise'))
            after = via(NORMAL)
        else:
            inner = ctx
        body_ctx = inner
        if s.handlers:
            # exceptions raised in the body go to the handler dispatch
            hd = self.fresh_local()
            unmatched = inner.rais
            cur = hd
            for h in s.handlers:
                hname = ast.unparse(h.type) if h.type is not None else None
                hbody = self.compile_body(h.body, after, inner)
                nxt_h = self.fresh_local()
                g.edge(cur, ('test', 'exc-matches', hname), hbody)
                g.edge(cur, ('test', 'exc-not-matches', hname), nxt_h)
                cur = nxt_h
            g.edge(cur, ('nop',), unmatched)
            body_ctx = inner.but(rais=hd)
        if s.orelse:
            raise Unsupported('try/else in thread body')
        return self.compile_body(s.body, after, body_ctx)


def compile_single_thread_prefetch(fn):
    """fn: ast.FunctionDef of single_thread_prefetch.  -> (worker ThreadCFG, consumer ThreadCFG)"""
    body = [s for s in fn.body if not (isinstance(s, ast.Expr) and isinstance(s.value, ast.Constant))]
    shared = {'shutdown', 'exc_info', 'data_queue', 'generator', 'thread', 'unique_object'}
    # preamble: the four initialisations, the worker def, Thread(...), start()
    init = {}
    worker = None
    idx = 0
    for idx, s in enumerate(body):
        if isinstance(s, ast.Assign) and isinstance(s.targets[0], ast.Name):
            init[s.targets[0].id] = ast.unparse(s.value)
        elif isinstance(s, ast.FunctionDef) and s.name == 'worker':
            worker = s
        elif isinstance(s, ast.Expr) and ast.unparse(s.value) == 'thread.start()':
            break
        else:
            raise Unsupported('preamble statement %s' % ast.unparse(s)[:60])
    if worker is None:
        raise Unsupported('no nested worker()')
    expect = {'shutdown': 'False', 'exc_info': 'None', 'unique_object': 'object()',
              'thread': 'threading.Thread(target=worker, args=())'}
    for k, v in expect.items():
        if init.get(k) != v:
            raise Unsupported('preamble: %s = %s (expected %s)' % (k, init.get(k), v))
    if init.get('data_queue') not in ('queue.Queue(buffer_size)', 'queue.Queue(maxsize=buffer_size)'):
        # an unbounded or differently sized queue is a different program
        qinit = init.get('data_queue')
    else:
        qinit = 'bounded'
    rest = body[idx + 1:]
    def top(c):
        end = c.g.end
        n_raise = c.fresh_local()
        c.g.edge(n_raise, ('set', 'outcome', 'exc'), end)     # the function is left by an exception
        n_ret = c.fresh_local()
        c.g.edge(n_ret, ('set', 'outcome', 'none'), end)
        return Ctx(ret=n_ret, rais=n_raise), n_ret
    cw = Compiler('w', shared, {'item'})
    ctx, fall = top(cw)
    # an exception that leaves the worker function ends the thread
    cw.g.start = cw.compile_body([s for s in worker.body], fall, ctx)
    cc = Compiler('c', shared, {'item'})
    ctx, fall = top(cc)
    cc.g.start = cc.compile_body(rest, fall, ctx)
    return cw.g, cc.g, qinit
