"""Symbolic python values of the pyvc symbolic executor.

The *kind* of a value (int, key, opaque object, tuple, dataset reference ...) is
always known concretely on a path; what is symbolic is the z3 term inside.
"""
import z3

from . import smt
from .smt import I


class Unsupported(Exception):
    """A construct outside the supported subset: the obligation becomes UNDECIDED."""


class Val:
    kind = 'val'

    def subst(self, var, e):
        return self

    def terms(self):
        return []


class IntV(Val):
    kind = 'int'

    def __init__(self, t):
        if isinstance(t, int):
            t = I(t)
        self.t = t

    def subst(self, var, e):
        return IntV(z3.substitute(self.t, (var, e)))

    def __repr__(self):
        return 'IntV(%s)' % self.t


class NpIntV(IntV):
    """A numpy fixed-width integer scalar (np.int8, np.uint8, ...): value t with lo <= t <= hi.  Arithmetic with a
    python int follows NEP 50 (NumPy 2): the python operand is converted to the scalar's dtype (OverflowError when it
    does not fit) and + - * wrap around silently (a RuntimeWarning only)."""
    kind = 'int'

    def __init__(self, t, lo, hi, dtype):
        IntV.__init__(self, t)
        self.lo, self.hi, self.dtype = lo, hi, dtype

    def subst(self, var, e):
        return NpIntV(z3.substitute(self.t, (var, e)), self.lo, self.hi, self.dtype)

    def wrap(self, x):
        m = self.hi - self.lo + 1
        return NpIntV(self.lo + (x - self.lo) % m, self.lo, self.hi, self.dtype)

    def __repr__(self):
        return 'NpIntV(%s:%s)' % (self.dtype, self.t)


class BoolV(Val):
    kind = 'bool'

    def __init__(self, t):
        if isinstance(t, bool):
            t = z3.BoolVal(t)
        self.t = t

    def subst(self, var, e):
        return BoolV(z3.substitute(self.t, (var, e)))

    def __repr__(self):
        return 'BoolV(%s)' % self.t


class RealV(Val):
    kind = 'real'

    def __init__(self, t):
        if isinstance(t, (int, float)):
            t = z3.RealVal(t)
        self.t = t

    def subst(self, var, e):
        return RealV(z3.substitute(self.t, (var, e)))

    def __repr__(self):
        return 'RealV(%s)' % self.t


class NoneV(Val):
    kind = 'none'

    def __repr__(self):
        return 'NoneV'


NONE = NoneV()


class StrV(Val):
    """A concrete string (mode names, backend names, attribute names)."""
    kind = 'str'

    def __init__(self, s):
        self.s = s

    def __repr__(self):
        return 'StrV(%r)' % self.s


class OpaqueStrV(Val):
    """Result of an f-string / repr / message expression: text is dropped."""
    kind = 'opaquestr'


class KeyV(Val):
    """A symbolic dataset key (a python str)."""
    kind = 'key'

    def __init__(self, t):
        self.t = t

    def subst(self, var, e):
        return KeyV(z3.substitute(self.t, (var, e)))

    def __repr__(self):
        return 'KeyV(%s)' % self.t


class ObjV(Val):
    """An opaque python object (an example)."""
    kind = 'obj'

    def __init__(self, t):
        self.t = t

    def subst(self, var, e):
        return ObjV(z3.substitute(self.t, (var, e)))

    def __repr__(self):
        return 'ObjV(%s)' % self.t


class TupleV(Val):
    """Tuple (or list display never mutated) of statically known arity."""
    kind = 'tuple'

    def __init__(self, items, is_list=False):
        self.items = list(items)
        self.is_list = is_list

    def subst(self, var, e):
        return TupleV([x.subst(var, e) for x in self.items], self.is_list)

    def __repr__(self):
        return 'TupleV(%r)' % (self.items,)


class SymSeqV(Val):
    """Immutable sequence of symbolic length: element j is fn(j) (a python callable that
    builds the element for an index term, so that the axiom instances an element needs
    are created for the index actually used).  `pytype` records whether python sees a
    tuple, a list or a numpy array."""
    kind = 'symseq'

    def __init__(self, length, fn, pytype='tuple'):
        self.length = length
        self.fn = fn
        self.pytype = pytype

    @classmethod
    def from_term(cls, length, jvar, elem, pytype='tuple'):
        return cls(length, lambda e: elem.subst(jvar, e), pytype)

    def at(self, e):
        return self.fn(e)

    def subst(self, var, e):
        ln = z3.substitute(self.length, (var, e))
        fn = self.fn
        r = SymSeqV(ln, lambda i: fn(i).subst(var, e), self.pytype)
        if hasattr(self, 'keyview'):
            r.keyview = self.keyview
        if hasattr(self, 'range'):
            r.range = tuple(z3.substitute(t, (var, e)) for t in self.range)
        return r

    def retype(self, pytype):
        r = SymSeqV(self.length, self.fn, pytype)
        if hasattr(self, 'keyview'):
            r.keyview = self.keyview
        return r

    def __repr__(self):
        return 'SymSeqV(len=%s, %s)' % (self.length, self.pytype)


class ListV(Val):
    """A python list of opaque objects with symbolic content, referenced by exactly
    one local name (aliasing is outside the subset and raises Unsupported)."""
    kind = 'list'

    def __init__(self, seq, elemkind='obj'):
        self.seq = seq
        self.elemkind = elemkind

    def subst(self, var, e):
        return ListV(z3.substitute(self.seq, (var, e)), self.elemkind)

    def __repr__(self):
        return 'ListV(%s)' % self.seq


class DSRefV(Val):
    """Reference to an abstract dataset that satisfies the interface contract I(d)."""
    kind = 'ds'

    def __init__(self, t):
        self.t = t

    def subst(self, var, e):
        return DSRefV(z3.substitute(self.t, (var, e)))

    def __repr__(self):
        return 'DSRefV(%s)' % self.t


class DSTupleV(Val):
    """`*input_datasets`: tuple of symbolic length m whose j-th element is IN(owner,j)."""
    kind = 'dstuple'

    def __init__(self, owner, m, pytype='tuple'):
        self.owner = owner
        self.m = m
        self.pytype = pytype

    def at(self, e):
        return DSRefV(smt.IN(I(self.owner), e))

    def __repr__(self):
        return 'DSTupleV(owner=%s, m=%s)' % (self.owner, self.m)


class InstV(Val):
    """An instance of a repository class under verification; fields live in the heap."""
    kind = 'inst'

    def __init__(self, oid, cls):
        self.oid = oid
        self.cls = cls

    def __repr__(self):
        return 'InstV(%s#%d)' % (self.cls, self.oid)


class StageV(Val):
    """A freshly constructed dataset stage `Cls(*args, **kwargs)` (constructor of a
    class under contract; its __init__ is verified separately)."""
    kind = 'stage'

    def __init__(self, cls, args, kwargs):
        self.cls = cls
        self.args = args
        self.kwargs = kwargs

    def subst(self, var, e):
        def sub(a):
            if isinstance(a, tuple):
                return (a[0], a[1].subst(var, e))
            return a.subst(var, e)
        return StageV(self.cls, [sub(a) for a in self.args], {k: sub(v) for k, v in self.kwargs.items()})

    def __repr__(self):
        return 'StageV(%s, %r, %r)' % (self.cls, self.args, self.kwargs)


class FnV(Val):
    """User callable (A-PURE)."""
    kind = 'fn'

    def __init__(self, t):
        self.t = t

    def __repr__(self):
        return 'FnV(%s)' % self.t


class BuiltinV(Val):
    kind = 'builtin'

    def __init__(self, name):
        self.name = name

    def __repr__(self):
        return 'BuiltinV(%s)' % self.name


class BoundV(Val):
    kind = 'bound'

    def __init__(self, recv, name):
        self.recv = recv
        self.name = name

    def __repr__(self):
        return 'BoundV(%r.%s)' % (self.recv, self.name)


class ClosureV(Val):
    kind = 'closure'

    def __init__(self, node, env_cells, name=None):
        self.node = node            # ast.FunctionDef / ast.Lambda
        self.env_cells = env_cells  # dict name -> value captured at definition (by-value snapshot)
        self.name = name


class ClassV(Val):
    """A class object: exception classes, repository classes, python types."""
    kind = 'class'

    def __init__(self, name):
        self.name = name

    def __repr__(self):
        return 'ClassV(%s)' % self.name


class ExcSpecV(Val):
    """Symbolic `except` specification held in a field (self.exceptions): an opaque
    object; matching is the uninterpreted CATCH(spec, e)."""
    kind = 'excspec'

    def __init__(self, t):
        self.t = t


class ExcV(Val):
    kind = 'exc'

    def __init__(self, t, clsname=None):
        self.t = t
        self.clsname = clsname

    def __repr__(self):
        return 'ExcV(%s:%s)' % (self.t, self.clsname)


class ModuleV(Val):
    kind = 'module'

    def __init__(self, name):
        self.name = name

    def __repr__(self):
        return 'ModuleV(%s)' % self.name


class IterV(Val):
    """An iterator object; state (position) lives in the heap under oid."""
    kind = 'iter'

    def __init__(self, oid):
        self.oid = oid


class StreamV(Val):
    """A lazily evaluated stream described by a View-like object (result of
    map(f, ds), ds.__iter__(with_key=True), zip(*dss), enumerate(...))."""
    kind = 'stream'

    def __init__(self, view, with_key=False, desc=''):
        self.view = view
        self.with_key = with_key
        self.desc = desc


class OpaqueV(Val):
    """Anything whose value is irrelevant (log handles, messages)."""
    kind = 'opaque'

    def __init__(self, what=''):
        self.what = what

    def __repr__(self):
        return 'OpaqueV(%s)' % self.what


def fresh_like(v, name):
    """A fresh symbolic value of the same kind (loop havoc)."""
    if isinstance(v, IntV):
        return IntV(smt.fresh(name, smt.Int))
    if isinstance(v, BoolV):
        return BoolV(smt.fresh(name, smt.Bool))
    if isinstance(v, RealV):
        return RealV(smt.fresh(name, smt.Real))
    if isinstance(v, KeyV):
        return KeyV(smt.fresh(name, smt.Key))
    if isinstance(v, ObjV):
        return ObjV(smt.fresh(name, smt.Obj))
    if isinstance(v, ListV):
        return ListV(smt.fresh(name, smt.ObjSeq), v.elemkind)
    if isinstance(v, TupleV):
        return TupleV([fresh_like(x, name) for x in v.items], v.is_list)
    if isinstance(v, DSRefV):
        return DSRefV(smt.fresh(name, smt.DS))
    if isinstance(v, ExcV):
        return ExcV(smt.fresh(name, smt.Exc))
    if isinstance(v, SymSeqV):
        probe = v.at(z3.Int('_probe'))
        sort = {IntV: smt.Int, KeyV: smt.Key, ObjV: smt.Obj}.get(type(probe))
        if sort is None:
            return None
        ln = smt.fresh(name + '_len', smt.Int)
        fn = z3.Function('%s_elem!%d' % (name, next(smt._counter)), smt.Int, sort)
        cls = type(probe)
        r = SymSeqV(ln, lambda e: cls(fn(e)), v.pytype)
        r.fresh_len_nonneg = ln >= 0
        return r
    if isinstance(v, (NoneV, StrV, OpaqueV, OpaqueStrV)):
        # a variable that is None/str before the loop may hold something else after
        # an iteration; the caller decides (see Engine._havoc)
        return None
    return None


def veq(a, b):
    """z3 Bool: python-level equality / identity of two symbolic values of known kind.
    Returns None when the kinds cannot be compared (caller reports Unsupported)."""
    if isinstance(a, IntV) and isinstance(b, IntV):
        return a.t == b.t
    if isinstance(a, BoolV) and isinstance(b, BoolV):
        return a.t == b.t
    if isinstance(a, RealV) and isinstance(b, (RealV, IntV)):
        return a.t == (z3.ToReal(b.t) if isinstance(b, IntV) else b.t)
    if isinstance(a, IntV) and isinstance(b, RealV):
        return z3.ToReal(a.t) == b.t
    if isinstance(a, KeyV) and isinstance(b, KeyV):
        return a.t == b.t
    if isinstance(a, ObjV) and isinstance(b, ObjV):
        return a.t == b.t
    if isinstance(a, NoneV) and isinstance(b, NoneV):
        return smt.T
    if isinstance(a, NoneV) or isinstance(b, NoneV):
        return smt.F
    if isinstance(a, StrV) and isinstance(b, StrV):
        return z3.BoolVal(a.s == b.s)
    if isinstance(a, DSRefV) and isinstance(b, DSRefV):
        return a.t == b.t
    if isinstance(a, ExcV) and isinstance(b, ExcV):
        return a.t == b.t
    if isinstance(a, FnV) and isinstance(b, FnV):
        return a.t == b.t
    if isinstance(a, ListV) and isinstance(b, ListV):
        return a.seq == b.seq
    if isinstance(a, TupleV) and isinstance(b, TupleV):
        if len(a.items) != len(b.items):
            return smt.F
        cs = []
        for x, y in zip(a.items, b.items):
            c = veq(x, y)
            if c is None:
                return None
            cs.append(c)
        return z3.And(*cs) if cs else smt.T
    if isinstance(a, SymSeqV) and isinstance(b, SymSeqV):
        # extensional: equal length and equal elements (universally quantified; when
        # this is a proof goal z3 skolemises the negation)
        j = smt.fresh('jq', smt.Int)
        e = veq(a.at(j), b.at(j))
        if e is None:
            return None
        return z3.And(a.length == b.length,
                      z3.ForAll([j], z3.Implies(z3.And(j >= 0, j < a.length), e)))
    if isinstance(a, SymSeqV) and isinstance(b, TupleV):
        return veq(b, a)
    if isinstance(a, TupleV) and isinstance(b, SymSeqV):
        cs = [b.length == len(a.items)]
        for idx, x in enumerate(a.items):
            c = veq(x, b.at(I(idx)))
            if c is None:
                return None
            cs.append(c)
        return z3.And(*cs)
    if isinstance(a, ClassV) and isinstance(b, ClassV):
        return z3.BoolVal(a.name == b.name)
    return None


def eqv(a, b):
    """veq for specification clauses: values of kinds that cannot be equal are unequal"""
    r = veq(a, b)
    return smt.F if r is None else r
