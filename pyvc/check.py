"""./check <property id> [--tier quick|thorough] [--replay <path>]

Decides one property: runs every contract variant registered for it against the current
/repo source in a process pool, discharges the obligations, reproduces listed known
findings, replays counterexamples natively, writes evidence/<id>.json.

exit 0  every obligation discharged (open known findings reproduced and reported)
exit 1  VIOLATION (an obligation failed that is not a listed known finding)
exit 2  UNDECIDED (unsupported construct / solver unknown; bounded native search found nothing)
exit 3  CHECKER-FAULT
"""
import argparse
import importlib
import json
import multiprocessing
import os
import re
import subprocess
import sys
import time

VERIF = os.path.dirname(os.path.dirname(os.path.abspath(__file__)))
# where evidence/ and replays/ are written (default: /verif itself; redirected by the seed-matrix tool)
OUTDIR = os.environ.get('PYVC_OUT', VERIF)
sys.path.insert(0, VERIF)

CONTRACT_MODULES = ['contracts.leaves', 'contracts.stages', 'contracts.stages2', 'contracts.parallel',
                    'contracts.more', 'contracts.factories', 'contracts.stp', 'contracts.cache',
                    'contracts.profiling', 'contracts.database', 'contracts.bucket', 'contracts.laws',
                    'contracts.shuffle', 'contracts.effects', 'contracts.intersperse', 'contracts.inits', 'contracts.wu', 'contracts.forwarders', 'contracts.inits2', 'contracts.getds', 'contracts.jsondb', 'contracts.keyzip_init', 'contracts.groupby', 'contracts.intersperse_init', 'contracts.localshuffle', 'contracts.bucketiter', 'contracts.misc']


def load_contracts():
    out = []
    for m in CONTRACT_MODULES:
        try:
            mod = importlib.import_module(m)
        except ModuleNotFoundError:
            continue
        for c in mod.CONTRACTS:
            for meth, variants in c.methods.items():
                for v in variants:
                    out.append((m, c, meth, v))
    return out


def _run_one(job):
    mname, cidx, meth, vidx, both, repo = job
    from pyvc.extract import Source
    from pyvc.verify import make_hier, run_variant
    mod = importlib.import_module(mname)
    c = mod.CONTRACTS[cidx]
    v = c.methods[meth][vidx]
    src = Source(repo)
    hier = make_hier(src)
    r = run_variant(src, hier, c, meth, v, both=both, repo_qual=getattr(v, 'qual', None))
    d = r.as_dict()
    d['label'] = '%s.%s[%s]' % (c.cls or '', meth, v.name)
    d['module'] = mname
    d['cone'] = sorted(cone_props(c.cls, meth, v.name))
    return d


# Dependency cones: a property's check runs every contract its statement depends on, also those written while working on a
# neighbouring property (lesson of the fifth seed round: 7 of 10 misses were caught by an existing contract that was not
# listed under the seeded property).  (regex on 'Class.method', regex on the variant name, properties added)
CONES = [
    # the catch path of the single-thread prefetch IS CatchExceptionDataset; ParMap / Prefetch iteration wire the parallel utilities
    (r'^CatchExceptionDataset\.(__iter__|__init__)$', r'', {'C04', 'C06'}),
    (r'^(ParMapDataset|PrefetchDataset)\.__iter__$', r'', {'C04', 'C05', 'C06', 'C07'}),
    (r'^(ParMapDataset|PrefetchDataset)\.__init__$', r'', {'C04', 'C05', 'C06', 'C07'}),
    # isolation through the disk cache
    (r'^_DiskCacheWrapper\.(__getitem__|__setitem__)$', r'', {'C09'}),
    # the memory / disk cache datasets share CacheDataset's methods
    (r'^CacheDataset\.(__len__|keys|indexable|ordered|copy|__init__)$', r'', {'C10', 'C11'}),
    # one-time shuffles, frozen copies, shards, sorted views and groups ARE SliceDatasets (by an index array / list)
    (r'^SliceDataset\.(__iter__|__getitem__|__len__|keys|__init__)$', r'^(?!int:np)', {'C12', 'C13', 'C15', 'C18'}),
    # catch() evaluates its input by index (values) and by key (items): the plain integer lookups of every stage
    (r'\.__getitem__$', r'^int$', {'C14', 'C04'}),      # C04: the workers of a multi-worker prefetch evaluate frozen_copy[i]
    (r'\.__getitem__$', r'^str', {'C14', 'C03'}),          # catch().items() looks every example up by key
    (r'\.copy$', r'', {'C04'}),
    (r'^(ParMapDataset|PrefetchDataset)\.__iter__$', r'', {'C13'}),
    (r'^ProfilingDataset\.__iter__$', r'', {'C01'}),
    (r'^ProfilingDataset\.(__len__|__getitem__)$', r'', {'C02'}),
    (r'^ProfilingDataset\.keys$', r'', {'C03'}),
    (r'^(Dataset\.cache|DictDataset\.__init__|ListDataset\.__init__)$', r'', {'C09'}),
    (r'^LocalShuffleDataset\.__init__$', r'', {'C12', 'C13'}),
    # what a stage's constructor accepts, refuses and stores decides what its len / index / keys / iteration mean
    (r'Dataset\.__init__$', r'', {'C01', 'C02', 'C03'}),
    # the database layer builds its datasets with from_dict / new / concatenate
    (r'^(\.from_dict|\.new|DictDataset\.__init__|ConcatenateDataset\.__init__|Dataset\.concatenate)$', r'', {'C19'}),
]


def cone_props(cls, meth, vname):
    import re
    key = '%s.%s' % (cls or '', meth)
    out = set()
    for kre, vre, props in CONES:
        if re.search(kre, key) and re.search(vre, vname):
            out |= props
    return out


def jobs_for(prop, both, repo):
    jobs = []
    for m in CONTRACT_MODULES:      # import everything first: contracts.laws extends props of other modules
        try:
            importlib.import_module(m)
        except ModuleNotFoundError:
            pass
    for m in CONTRACT_MODULES:
        try:
            mod = importlib.import_module(m)
        except ModuleNotFoundError:
            continue
        for ci, c in enumerate(mod.CONTRACTS):
            for meth, variants in c.methods.items():
                for vi, v in enumerate(variants):
                    props = set(v.props)
                    # C01 quantifies over all pipelines: the structural induction uses the interface
                    # contract I(d) of every stage as a whole (iteration of slices, catch, prefetch,
                    # batch indexing ... goes through d[i], len and keys of their inputs)
                    if prop == 'C01' and c.cls and meth in ('__getitem__', '__len__', 'keys') and props & {'C02', 'C03'}:
                        props.add('C01')
                    props |= cone_props(c.cls, meth, v.name)
                    if prop in props:
                        jobs.append((m, ci, meth, vi, both, repo))
    return jobs


def new_function_gaps(prop, jobs, repo):
    """(label, reason) for every function of the current source that is not in contracts/known_functions.json and
    belongs to a class, or has a method name, that a contract of this property is about."""
    from .extract import Source
    try:
        known = set(json.load(open(os.path.join(VERIF, 'contracts', 'known_functions.json')))['functions'])
    except Exception:   # noqa
        return []
    src = Source(repo)
    new = [k for k in src.funcs if not k.endswith('[]') and k not in known]
    if not new:
        return []
    classes, methods = set(), set()
    for (m, ci, meth, vi, both, rp) in jobs:
        c = importlib.import_module(m).CONTRACTS[ci]
        if getattr(c, 'cls', None):
            classes.add(c.cls)
        methods.add(meth)
    out = []
    for k in sorted(new):
        q = k.split(':', 1)[1]
        parts = q.split('.')
        cls = parts[0] if len(parts) > 1 else None
        name = parts[-1]
        if name.startswith('__') and name in ('__str__', '__repr__'):
            continue
        if (cls in classes and cls != 'Dataset') or (name in methods and not name.startswith('__')) or \
                (cls is not None and name in methods):
            out.append(('%s[new-function]' % q, 'function %s was added after the contracts were written and has no contract' % k))
    return out


# which property a clause belongs to (a variant may serve several properties: one symbolic run, many
# clauses).  Clauses with an explicit Cnn: prefix count for the properties named there; the generic
# clauses of the interface contract for the properties below; loop invariants, lemmas, call-site
# assertions support every clause of the run and count for all properties of the variant.
CLAUSE_FAMILIES = {
    'I-idx': {'C02', 'C01', 'C16', 'C20'}, 'I-len': {'C02', 'C01', 'C04', 'C16', 'C20'},
    'I-iter': {'C01', 'C16', 'C20', 'C10', 'C12'}, 'I-keys': {'C03', 'C01', 'C16', 'C20'},
    'I-key': {'C03', 'C01', 'C16', 'C20'}, 'I-items': {'C03', 'C01'}, 'flag': {'C02', 'C13', 'C20'},
    'getitem-other': {'C01', 'C02', 'C16'}, 'copy': {'C13', 'C20', 'C10', 'C11'},
}


def clause_counts_for(name, prop):
    import re as _re
    tail = name.split(':')
    # explicit property prefixes anywhere in the clause name, e.g. "post[return#0]:C10:cache-invariant..."
    explicit = set()
    for part in tail:
        for m_ in _re.findall(r'C\d\d', part.split('-')[0] if part[:1] == 'C' else ''):
            explicit.add(m_)
        if _re.fullmatch(r'C\d\d(/C\d\d)*', part):
            explicit.update(part.split('/'))
    if explicit:
        return prop in explicit
    for part in tail:
        fam = CLAUSE_FAMILIES.get(part)
        if fam is not None:
            return prop in fam
    return True


def load_known():
    p = os.path.join(VERIF, 'known_findings.json')
    if not os.path.exists(p):
        return []
    return json.load(open(p)).get('findings', [])


def match_finding(findings, prop, obname):
    for f in findings:
        # a listed finding is identified by the failing obligation (call site + case split), whichever property's cone the
        # obligation is checked under
        if f.get('status') != 'open':
            continue
        for pat in f.get('obligations', []):
            if re.search(pat, obname):
                return f
    return None


def _native_is_known(nat, findings, prop):
    """Does every mismatch of a native counterexample belong to a listed open finding?"""
    ms = nat.get('mismatches') or []
    if not ms:
        return False
    for m in ms:
        ok = False
        for f in findings:
            # a listed finding is identified by its failing input, whichever property's search ran into it
            if f.get('status') != 'open':
                continue
            for pat in f.get('native_patterns', []):
                if pat.get('class') == nat.get('class') and pat.get('clause') == m['clause'].split('[')[0] \
                        and pat.get('observed_contains', '') in m['observed']:
                    ok = True
        if not ok:
            return False
    return True


def native(cmd_args, timeout=600):
    """Run a harness module under the repository's interpreter; JSON on stdout."""
    env = dict(os.environ)
    env['PYTHONPATH'] = os.environ.get('PYVC_REPO', '/repo') + os.pathsep + VERIF
    env.setdefault('OMP_NUM_THREADS', '1')
    env.setdefault('MKL_NUM_THREADS', '1')
    p = subprocess.run(['/venv/bin/python'] + cmd_args, capture_output=True, text=True, timeout=timeout,
                       env=env, cwd=VERIF)
    try:
        return json.loads(p.stdout.strip().splitlines()[-1]) if p.stdout.strip() else {'error': p.stderr[-2000:]}
    except Exception:
        return {'error': 'unparsable harness output', 'stdout': p.stdout[-1000:], 'stderr': p.stderr[-2000:]}


def main():
    ap = argparse.ArgumentParser()
    ap.add_argument('prop')
    ap.add_argument('--tier', default=os.environ.get('VERIF_TIER', 'quick'))
    ap.add_argument('--replay', default=None)
    ap.add_argument('--repo', default=os.environ.get('PYVC_REPO', '/repo'))
    ap.add_argument('--jobs', type=int, default=min(16, os.cpu_count() or 4))
    a = ap.parse_args()
    prop = a.prop
    seed = int(os.environ.get('VERIF_SEED', '0'))
    os.environ['PYVC_REPO'] = a.repo
    t0 = time.time()

    if a.replay:
        r = native(['-m', 'harness.replay', a.replay])
        print(json.dumps(r, indent=1))
        sys.exit(1 if r.get('reproduced') else 0)

    both = a.tier == 'thorough'
    jobs = jobs_for(prop, both, a.repo)
    if not jobs:
        print('CHECKER-FAULT property=%s no contract variant is registered for this property' % prop)
        sys.exit(3)
    with multiprocessing.Pool(min(a.jobs, len(jobs))) as pool:
        results = pool.map(_run_one, jobs, chunksize=1)

    findings = load_known()
    n_ob = n_dis = 0
    by_backend = {}
    solver_s = 0.0
    solver_max = 0.0
    violations = []
    known_hits = {}
    undecided = []
    faults = []
    functions = {}
    inlined_fns = {}
    samples = []
    skipped = []
    # functions added after the contracts were written have no contract: an inherited or absent contract must not
    # be mistaken for a proof about them (e.g. a new override `SliceDataset.split` of `Dataset.split`)
    for lab, why in new_function_gaps(prop, jobs, a.repo or os.environ.get('PYVC_REPO', '/repo')):
        undecided.append((lab, why))
    for r in results:
        if r['status'] == 'skipped':
            skipped.append(r['label'])
            continue
        functions[r['qual']] = r['source_hash']
        for q, h in (r.get('inlined') or {}).items():
            inlined_fns[q] = h
        if r['status'] == 'undecided':
            undecided.append((r['label'], r['reason']))
            continue
        if r['status'] == 'fault':
            faults.append((r['label'], r['reason']))
            continue
        for o in r['obligations']:
            if not clause_counts_for(o['name'], prop) and prop not in (r.get('cone') or ()):
                continue      # a clause of another property proved in the same symbolic run (a variant that belongs to this
                #               property's dependency cone counts with all its clauses)
            n_ob += 1
            solver_s += o['seconds']
            solver_max = max(solver_max, o['seconds'])
            if o['status'] == 'unsat':
                n_dis += 1
                by_backend[o['backend']] = by_backend.get(o['backend'], 0) + 1
                if len(samples) < 6 and o['kind'] in ('post', 'yield', 'inv-pres'):
                    samples.append({'obligation': o['name'], 'kind': o['kind'], 'backend': o['backend'],
                                    'seconds': o['seconds']})
            elif o['status'] == 'sat':
                f = match_finding(findings, prop, o['name'])
                if f is not None:
                    known_hits.setdefault(f['id'], []).append(o['name'])
                    n_ob -= 1        # reported under known_finding_obligations, not as a proved obligation
                else:
                    violations.append((r, o))
            else:
                undecided.append((o['name'], 'solver returned %s on every back end' % o['status']))

    # known findings must still reproduce natively, otherwise the obligation failure is
    # something else and is reported as a violation
    kf_lines = []
    for fid, obs in sorted(known_hits.items()):
        f = [x for x in findings if x['id'] == fid][0]
        rep = native(['-m', 'harness.probe', fid])
        if rep.get('reproduced'):
            kf_lines.append('KNOWN-FINDING: property=%s %s %s' % (prop, fid, f['what_fails']))
        else:
            for nme in obs:
                violations.append(({'label': nme, 'qual': ''}, {'name': nme, 'model': {},
                                                               'note': 'listed finding %s no longer reproduces natively: %s' % (fid, rep)}))

    exit_code = 0
    out_lines = []
    replays = []
    if violations:
        os.makedirs(os.path.join(OUTDIR, 'replays'), exist_ok=True)
        seen = set()
        for r, o in violations:
            key = o['name']
            if key in seen:
                continue
            seen.add(key)
            safe = re.sub(r'[^A-Za-z0-9_.-]+', '_', o['name'])[:150]
            path = os.path.join(OUTDIR, 'replays', '%s-%s.json' % (prop, safe))
            rep = {'property': prop, 'obligation': o['name'], 'solver_model': o.get('model', {}),
                   'note': o.get('note', ''), 'label': r.get('label', ''), 'function': r.get('qual', '')}
            json.dump(rep, open(path, 'w'), indent=1)
            nat = native(['-m', 'harness.replay', path, '--search'])
            rep['native'] = nat
            json.dump(rep, open(path, 'w'), indent=1)
            suffix = '' if nat.get('reproduced') else ' no-failing-input-found'
            out_lines.append('VIOLATION property=%s replay=%s%s' % (prop, path, suffix))
            replays.append(path)
        exit_code = 1
    elif faults:
        for lab, why in faults:
            out_lines.append('CHECKER-FAULT property=%s %s: %s' % (prop, lab, why.splitlines()[0] if why else ''))
        exit_code = 3
    elif undecided:
        # an undecided obligation is never a violation by itself; the bounded native search of
        # the same clause family may still find a failing input on the real code
        os.makedirs(os.path.join(OUTDIR, 'replays'), exist_ok=True)
        for lab, why in undecided:
            safe = re.sub(r'[^A-Za-z0-9_.-]+', '_', lab)[:150]
            path = os.path.join(OUTDIR, 'replays', '%s-undecided-%s.json' % (prop, safe))
            rep = {'property': prop, 'obligation': lab, 'note': 'UNDECIDED by the prover: %s' % why}
            json.dump(rep, open(path, 'w'), indent=1)
            nat = native(['-m', 'harness.replay', path, '--search'])
            rep['native'] = nat
            json.dump(rep, open(path, 'w'), indent=1)
            if nat.get('reproduced') and not _native_is_known(nat, findings, prop):
                out_lines.append('VIOLATION property=%s replay=%s' % (prop, path))
                replays.append(path)
                exit_code = 1
            else:
                out_lines.append('UNDECIDED property=%s obligation=%s reason=%s' % (prop, lab, why))
        if exit_code == 0:
            exit_code = 2
    elif n_ob == 0:
        out_lines.append('CHECKER-FAULT property=%s zero obligations' % prop)
        exit_code = 3
    # encoding conformance of the executor against CPython (arithmetic, slicing, numpy scalars): every thorough run,
    # and the quick run of C02 (where index arithmetic is decided)
    selftest = None
    if a.tier == 'thorough' or prop == 'C02':
        st_ = subprocess.run([sys.executable, os.path.join(VERIF, 'tools', 'engine_selftest.py')], capture_output=True, text=True,
                             env=dict(os.environ, PYTHONPATH=VERIF))
        selftest = (st_.stdout.strip().splitlines() or ['no output'])[-1]
        if st_.returncode != 0:
            out_lines.append('CHECKER-FAULT property=%s executor self-test disagrees with CPython: %s' % (prop, selftest[:200]))
            exit_code = exit_code or 3

    for l in kf_lines + out_lines:
        print(l)

    # bounded stand-ins / conformance (native, labelled bounded, never counted as proved)
    standins = []
    if exit_code == 0 or True:
        sr = native(['-m', 'harness.standins', prop, '--tier', a.tier, '--seed', str(seed)], timeout=3000)
        standins = sr.get('standins', [])
        for s in standins:
            if s.get('failures'):
                path = os.path.join(OUTDIR, 'replays', '%s-standin-%s.json' % (prop, s['name']))
                os.makedirs(os.path.dirname(path), exist_ok=True)
                json.dump(s, open(path, 'w'), indent=1)
                kf = [f for f in findings if f.get('status') == 'open' and prop in f.get('properties', [])
                      and s['name'] in f.get('standins', [])]
                if kf and all(x.get('finding') == kf[0]['id'] for x in s['failures']):
                    line = 'KNOWN-FINDING: property=%s %s %s' % (prop, kf[0]['id'], kf[0]['what_fails'])
                    if line not in kf_lines:
                        kf_lines.append(line)
                        print(line)
                else:
                    print('VIOLATION property=%s replay=%s' % (prop, path))
                    exit_code = 1
        if sr.get('error'):
            print('CHECKER-FAULT property=%s stand-in harness: %s' % (prop, str(sr.get('error'))[:300]))
            if exit_code == 0:
                exit_code = 3

    wall = time.time() - t0
    ev = {
        'property_id': prop,
        'tier': a.tier if a.tier in ('quick', 'thorough') else 'quick',
        'seed': seed,
        'level': 'proof',
        'coverage': {
            'obligations': n_ob,
            'discharged': n_dis,
            'checker_cmd': './check %s --tier %s' % (prop, a.tier),
            'trusted_base': TRUSTED_BASE,
            'functions_under_contract': functions,
            'functions_executed_inline': {'note': 'repository helpers that a contracted function calls on self / in its module and that the generator executes by their BODY inside the caller (no contract of their own: a deviation from callee-by-contract, stated here; their source is part of every obligation of the caller)', 'functions': inlined_fns},
            'variants_run': len(results) - len(skipped),
            'variants_not_applicable': skipped,
            'by_backend': by_backend,
            'solver_time_s': {'sum': round(solver_s, 3), 'max': round(solver_max, 3)},
            'samples': samples,
            'known_findings_reproduced': sorted(known_hits),
            'known_finding_obligations': {k: v for k, v in sorted(known_hits.items())},
            'undecided': [u[0] for u in undecided],
            'encoding_conformance': selftest,
            'bounded_standins': standins,
            'extraction_drops': 'docstrings, type annotations, text of f-strings / log / warning / exception '
                                'messages, __str__/__repr__, __main__ blocks',
        },
        'assumptions': ASSUMPTIONS + PROP_ASSUMPTIONS.get(prop, []),
        'wall_s': round(wall, 2),
        'violations': len(replays),
    }
    os.makedirs(os.path.join(OUTDIR, 'evidence'), exist_ok=True)
    json.dump(ev, open(os.path.join(OUTDIR, 'evidence', '%s.json' % prop), 'w'), indent=1)
    print('%s: %d obligations, %d discharged, %d variants, %.1fs, exit %d'
          % (prop, n_ob, n_dis, len(results), wall, exit_code))
    sys.exit(exit_code)


TRUSTED_BASE = [
    'pyvc: the home-made VC generator (ast -> z3) and its encoding of python semantics (DESIGN 2.2)',
    'z3 4.x/5.1 (primary), cvc5 1.0.3 / z3 CLI (fall back on unknown; cross-check in thorough tier)',
    'interface contract I(d) for every input dataset (structural induction over pipeline construction, DESIGN 0)',
    'induction schema used for fold lemmas (base and step are discharged, the schema is meta-level)',
    'CPython generator semantics A-GEN, dynamic dispatch A-DISPATCH',
]
ASSUMPTIONS = [
    'A-INT: python/numpy integers are mathematical integers',
    'A-FLOAT: float division / ceil / int over the reals (exact below 2^53)',
    'A-PURE: user callables are deterministic and effect-free on dataset state',
    'A-PRIVATE: example evaluation never raises the private control signal _ItemsNotDefined',
    'A-PEP479: example evaluation never raises StopIteration (python converts it to RuntimeError inside generators)',
    'A-FRESH: a private sentinel object() is not the value of any example',
    'A-EPOCH: the abstract view of an unordered dataset is the order of the epoch being frozen/iterated',
    'dataset lengths and contents do not change while a method runs (no external mutation of the examples container)',
    'lists are referenced through one local name (aliasing of mutable lists is outside the subset: Unsupported)',
    'A-FSTRING: f-strings (messages) are not evaluated: an exception or side effect inside a message expression is not modelled',
    'A-NESTED: a two-generator comprehension over range(n(x)) is encoded by the bijection between flat indices and (outer, inner) pairs and its length sum n(x)',
]

_NUMPY = 'assumed contract of numpy indexing: np.arange(n)[spec,] normalises slices / integer lists / arrays into positions within [0,n), raises IndexError otherwise, advanced indexing returns a new array, iteration reads the live buffer'
_EXEC = 'assumed executor contract: submit/apply_async/apipe(f,x) -> handle; result/get(handle) is the outcome of f(x) whenever it ran; cancel prevents a not-yet-started task; leaving the with-block waits for started tasks / terminates the pool'
_QUEUE = 'assumed: queue.Queue is a linearisable bounded FIFO; Thread.join returns iff the target finished; one shared access per atomic step (GIL); weak fairness; one next() of the source terminates'
_RNG = 'assumed numpy RNG contract: rng.shuffle permutes in place by a bijection determined by the generator state; choice(n, size, replace=False) returns distinct indices; equal states give equal draws'
_PICKLE = 'assumed: pickle.loads(pickle.dumps(x)) / deepcopy(x) is value-equal and deep-fresh; dumps returns immutable bytes'
PROP_ASSUMPTIONS = {
    'C01': [_NUMPY, 'operator.itemgetter / zip / map / enumerate: textbook semantics (zip stated for equal lengths: an obligation at the call site)', 'assumed: sorted(list of (float, int, int)) is a permutation of its argument in lexicographic order; float division treated as exact rational division (IntersperseDataset.__init__)', 'python sets of keys as membership predicates; len(set) == 0 iff it has no member (KeyZipDataset.__init__)'],
    'C02': [_NUMPY, 'BatchDataset batch_size >= 1 (precondition of the stage, not checked by the constructor)'],
    'C03': [_NUMPY, 'all positions carrying one key denote the same example (I-key)'],
    'C04': [_EXEC, _QUEUE, 'dill.loads(dill.dumps(x)) == x'],
    'C05': [_EXEC, _QUEUE], 'C06': [_EXEC, _QUEUE, 'A-FRESH for the private sentinel'], 'C07': [_EXEC, _QUEUE],
    'C08': ['builtin map and zip are lazy (one application / pull per element, when the element is pulled)'],
    'C09': [_PICKLE, 'NumpySerializedList representation invariant (_addr = cumulative end offsets of the pickled examples in _lst) is established by numpy cumsum/concatenate in __init__: assumed for the proof of __getitem__, exercised by the bounded wu scenario'],
    'C10': [_PICKLE, 'psutil.virtual_memory() returns arbitrary values at every call', 'accesses to one position are not concurrent'],
    'C11': ['assumed: diskcache.Cache is a durable atomic key -> value map (a store interrupted by a kill is absent or complete); CPython runs __del__ when the last reference is dropped; pathlib/shutil semantics'],
    'C12': [_RNG, _NUMPY], 'C13': [_RNG, _NUMPY],
    'C14': ['`except <spec>` matching is an uninterpreted relation CATCH(spec, exception) (covers single type, tuple, subclass)'],
    'C15': ['assumed: np.array_split(np.arange(n), k) yields k consecutive ranges, the first n mod k one longer (conformance: bounded-split)'],
    'C16': ['induction schema for the inductive laws (base and step are discharged)'],
    'C17': ['len_key is total, deterministic and positive; 0 <= max_padding_rate < 1; batch_size >= 1'],
    'C18': ['assumed: sort_fn (default sorted) returns a permutation of its argument ordered by the elements, reverse reverses the order', 'assumed: itertools.groupby yields consecutive non-empty runs of equal key covering the sequence; defaultdict(list) inserts an empty list on a missing key; group ids are compared by value equality (hash consistent with ==)'],
    'C19': ['dictionary contents are opaque; key presence is an arbitrary boolean per dictionary and key', 'assumed: WeakValueDictionary behaves as a dict over the entries still alive (an entry may vanish between two requests, not inside one); pathlib.Path / read_text / json.loads are functions of their argument that may raise; get_examples / from_dict / concatenate are used through their own contracts'],
    'C20': ['time.perf_counter returns arbitrary reals'],
}

if __name__ == '__main__':
    main()
