"""Ghost views of datasets (DESIGN 2.4) and the interface contract I(d) as *call
semantics*: what `len(d)`, `d[i]`, `d[key]`, `d.keys()`, iteration ... do for a dataset
that is only known through its view.  The same semantics is used for abstract input
datasets (uninterpreted view) and for `self` inside a method (the class's spec view):
a caller is checked against the callee's contract, never its body.
"""
import z3

from . import smt
from .smt import I
from .values import (IntV, KeyV, ObjV, TupleV, SymSeqV, ExcV, Val)


class View:
    """Interface; all methods return z3 terms unless stated."""
    name = 'view'

    def n(self):
        raise NotImplementedError

    def raises(self, i):
        raise NotImplementedError

    def val(self, i):          # -> Val
        raise NotImplementedError

    def exc(self, i):
        raise NotImplementedError

    def key(self, i):
        raise NotImplementedError

    def kpos(self, k):
        raise NotImplementedError

    # capability flags (z3 Bool)
    idx = smt.F
    len_ = smt.F
    keys = smt.F
    items = smt.F
    ord_ = smt.F
    iter_ok = smt.T      # plain (value) iteration is defined; ItemsDataset: only with items

    def ref(self):
        """z3 DS term if this view is an abstract dataset (else None)."""
        return None

    def refusal(self):
        """(position, exception) at which a with_key iteration fails when ITEMS is false:
        pairs before that position are still correct (I-items, refusing branch)."""
        if not hasattr(self, '_refusal'):
            p = smt.fresh('iref', smt.Int)
            AX.add(z3.And(p >= 0, p <= self.n()))
            self._refusal = (p, smt.fresh('iexc', smt.Exc))
        return self._refusal


class Axioms:
    """Ground instances of the axioms of the vocabulary, collected while terms are
    built and added to every query of the current function."""

    def __init__(self):
        self.items = []
        self._seen = set()

    def add(self, f):
        k = f.get_id() if hasattr(f, 'get_id') else id(f)
        if k in self._seen:
            return
        self._seen.add(k)
        self.items.append(f)

    def reset(self):
        self.items = []
        self._seen = set()


AX = Axioms()
RESET_HOOKS = []


class AbsView(View):
    """View of an abstract dataset d: the uninterpreted vocabulary of smt.py."""

    def __init__(self, d):
        self.d = d
        self.idx = smt.IDX(d)
        self.len_ = smt.LEN(d)
        self.keys = smt.KEYS(d)
        self.items = smt.ITEMS(d)
        self.ord_ = smt.ORD(d)
        self.name = str(d)
        AX.add(smt.N(d) >= 0)
        AX.add(z3.Implies(smt.IDX(d), smt.LEN(d)))

    def ref(self):
        return self.d

    def refusal(self):
        AX.add(z3.And(smt.IREF(self.d) >= 0, smt.IREF(self.d) <= smt.N(self.d)))
        # I-items: a dataset without items refuses key iteration with the library's own signal _ItemsNotDefined
        # (assumed for inputs, an obligation of every stage: `I-items:refused-with-the-ItemsNotDefined-signal`)
        AX.add(smt.SUB(smt.CLS(smt.IEXC(self.d)), z3.Const('cls__ItemsNotDefined', smt.Cls)))
        return smt.IREF(self.d), smt.IEXC(self.d)

    def n(self):
        return smt.N(self.d)

    def raises(self, i):
        return smt.RAISES(self.d, i)

    def val(self, i):
        return ObjV(smt.VAL(self.d, i))

    def exc(self, i):
        return smt.EXC(self.d, i)

    def key(self, i):
        d = self.d
        k = smt.KEY(d, i)
        p = smt.KPOS(d, k)
        # A2: an in-range position's key is found, and (where keys() is defined) all
        # positions carrying one key denote the same example
        AX.add(z3.Implies(z3.And(i >= 0, i < smt.N(d)),
                          z3.And(p >= 0, p < smt.N(d), smt.KEY(d, p) == k)))
        AX.add(z3.Implies(z3.And(i >= 0, i < smt.N(d), smt.KEYS(d)),
                          z3.And(smt.RAISES(d, p) == smt.RAISES(d, i),
                                 smt.VAL(d, p) == smt.VAL(d, i),
                                 smt.EXC(d, p) == smt.EXC(d, i))))
        return k

    def kpos(self, k):
        d = self.d
        p = smt.KPOS(d, k)
        AX.add(z3.And(p >= -1, p < smt.N(d)))
        AX.add(z3.Implies(p >= 0, smt.KEY(d, p) == k))
        return p


class Out:
    """One outcome of an interface call: under `cond` it returns `value` or raises `exc`
    (an ExcV).  `facts` are constraints on fresh symbols introduced for the outcome."""

    def __init__(self, cond, value=None, exc=None, facts=(), tag=''):
        self.cond = cond
        self.value = value
        self.exc = exc
        self.facts = list(facts)
        self.tag = tag


def _fresh_exc(hier, clsname=None, tag='e'):
    e = smt.fresh(tag, smt.Exc)
    facts = []
    if clsname is not None:
        facts.append(smt.SUB(smt.CLS(e), hier.const(clsname)))
    return ExcV(e, None), facts


def norm_index(view, item):
    n = view.n()
    return z3.If(item < 0, item + n, item)


def call_getitem_int(view, item, hier):
    """I-idx."""
    n = view.n()
    inr = z3.And(item >= -n, item < n)
    p = norm_index(view, item)
    outs = []
    outs.append(Out(z3.And(view.idx, inr, z3.Not(view.raises(p))), value=view.val(p), tag='idx-val'))
    outs.append(Out(z3.And(view.idx, inr, view.raises(p)), exc=ExcV(view.exc(p)), tag='idx-exc'))
    e, f = _fresh_exc(hier, 'IndexError')
    outs.append(Out(z3.And(view.idx, z3.Not(inr)), exc=e, facts=f, tag='idx-oor'))
    e2, f2 = _fresh_exc(hier)
    outs.append(Out(z3.Not(view.idx), exc=e2, facts=f2, tag='idx-unsupported'))
    return outs


def call_getitem_key(view, k, hier):
    """I-key."""
    p = view.kpos(k)
    outs = []
    outs.append(Out(z3.And(view.keys, p >= 0, z3.Not(view.raises(p))), value=view.val(p), tag='key-val'))
    outs.append(Out(z3.And(view.keys, p >= 0, view.raises(p)), exc=ExcV(view.exc(p)), tag='key-exc'))
    e, f = _fresh_exc(hier, 'LookupError')
    outs.append(Out(z3.And(view.keys, p < 0), exc=e, facts=f, tag='key-absent'))
    # keys() undefined: nothing is promised
    e2, f2 = _fresh_exc(hier)
    outs.append(Out(z3.Not(view.keys), exc=e2, facts=f2, tag='key-unspecified-raise'))
    outs.append(Out(z3.Not(view.keys), value=ObjV(smt.fresh('anyv', smt.Obj)), tag='key-unspecified-val'))
    return outs


def keys_seq(view):
    s = SymSeqV(view.n(), lambda e: KeyV(view.key(e)), 'tuple')
    s.keyview = view
    return s


def call_keys(view, hier):
    """I-keys."""
    outs = [Out(view.keys, value=keys_seq(view), tag='keys')]
    e, f = _fresh_exc(hier)
    if getattr(view, 'd', None) is not None and z3.is_expr(view.d) and view.d.sort().eq(smt.DS):
        # a dataset that has no keys at all answers NotImplementedError (the base class); one whose keys exist but
        # are refused (duplicate keys of a concatenation) answers with another exception
        f = list(f) + [z3.Implies(smt.KEYS_UNIMPL(view.d), smt.SUB(smt.CLS(e.t), hier.const('NotImplementedError')))]
    outs.append(Out(z3.Not(view.keys), exc=e, facts=f, tag='keys-undefined'))
    return outs


def call_len(view, hier):
    """I-len."""
    outs = [Out(view.len_, value=IntV(view.n()), tag='len')]
    e, f = _fresh_exc(hier, 'TypeError')
    outs.append(Out(z3.Not(view.len_), exc=e, facts=f, tag='len-undefined'))
    return outs


class StreamView:
    """What pulling element k of a stream does: under not raises(k) the element is
    val(k); the stream has n() elements (None: unbounded).  `first_raise` (ExcV) set:
    the stream raises that exception at the first pull (e.g. items not defined)."""

    def __init__(self, n, raises, val, exc, desc='', source=None):
        self._n = n
        self._raises = raises
        self._val = val
        self._exc = exc
        self.desc = desc
        self.source = source

    def n(self):
        return self._n

    def raises(self, k):
        return self._raises(k)

    def val(self, k):
        return self._val(k)

    def exc(self, k):
        return self._exc(k)


def refused_items_stream(view):
    """I-items when ITEMS is false: correct pairs up to the refusal position, then an exception."""
    rp, rexc = view.refusal()
    return StreamView(rp + 1, lambda k: z3.Or(view.raises(k), k == rp),
                      lambda k: TupleV([KeyV(view.key(k)), view.val(k)]),
                      lambda k: z3.If(z3.And(view.raises(k), k < rp), view.exc(k),
                                      z3.If(k == rp, rexc, view.exc(k))),
                      desc='items-refused(%s)' % view.name, source=view)


def refused_values_stream(view):
    rp, rexc = view.refusal()
    return StreamView(rp + 1, lambda k: z3.Or(view.raises(k), k == rp), view.val,
                      lambda k: z3.If(z3.And(view.raises(k), k < rp), view.exc(k),
                                      z3.If(k == rp, rexc, view.exc(k))),
                      desc='iter-refused(%s)' % view.name, source=view)


def iter_stream(view, with_key=False):
    """I-iter / I-items as a stream (only valid under view.items when with_key)."""
    if with_key:
        return StreamView(view.n(), view.raises,
                          lambda k: TupleV([KeyV(view.key(k)), view.val(k)]),
                          view.exc, desc='items(%s)' % view.name, source=view)
    return StreamView(view.n(), view.raises, view.val, view.exc, desc='iter(%s)' % view.name, source=view)
