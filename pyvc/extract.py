"""Mechanical extraction of the functions under contract from the repository's *current*
source.  Every run re-reads and re-parses the files; nothing is cached.

What extraction drops (DESIGN section 1): docstrings, type annotations (they are simply
not looked at), `if __name__ == '__main__'` blocks.  Nothing else: a statement the
symbolic executor cannot translate makes the obligation UNDECIDED.
"""
import ast
import hashlib
import os

REPO = os.environ.get('PYVC_REPO', '/repo')
FILES = {
    'core': 'lazy_dataset/core.py',
    'parallel_utils': 'lazy_dataset/parallel_utils.py',
    'database': 'lazy_dataset/database.py',
}


class Source:
    def __init__(self, repo=None):
        self.repo = repo or REPO
        self.trees = {}
        self.text = {}
        self.funcs = {}     # 'core:Class.method' / 'core:func' / nested 'core:f.g' -> ast.FunctionDef
        self.classes = {}   # 'core:Class' -> ast.ClassDef
        for mod, rel in FILES.items():
            path = os.path.join(self.repo, rel)
            with open(path) as f:
                text = f.read()
            self.text[mod] = text
            tree = ast.parse(text, filename=path)
            self.trees[mod] = tree
            self._index(mod, tree.body, '')
            # module-level imports, read from the source (name -> ('module', dotted) | ('from', module, name))
            imp = {}
            for node in tree.body:
                if isinstance(node, ast.Import):
                    for a in node.names:
                        imp[(a.asname or a.name).split('.')[0]] = ('module', a.name if a.asname else a.name.split('.')[0])
                elif isinstance(node, ast.ImportFrom):
                    for a in node.names:
                        imp[a.asname or a.name] = ('from', node.module, a.name)
            self.module_imports = getattr(self, 'module_imports', {})
            self.module_imports[mod] = imp

    def _index(self, mod, body, prefix):
        for node in body:
            if isinstance(node, (ast.FunctionDef, ast.AsyncFunctionDef)):
                q = prefix + node.name
                self.funcs['%s:%s' % (mod, q)] = node
                self._index_nested(mod, node, q + '.')
            elif isinstance(node, ast.ClassDef):
                q = prefix + node.name
                self.classes['%s:%s' % (mod, q)] = node
                self._index(mod, node.body, q + '.')

    def _index_nested(self, mod, fn, prefix):
        for node in ast.walk(fn):
            if node is fn:
                continue
            if isinstance(node, ast.FunctionDef):
                key = '%s:%s%s' % (mod, prefix, node.name)
                # several nested defs with one name (one per backend branch): keep a list
                self.funcs.setdefault(key + '[]', []).append(node)
                self.funcs.setdefault(key, node)

    def func(self, qual):
        """qual like 'core:MapDataset.__getitem__'."""
        if qual not in self.funcs:
            raise KeyError('function %s not found in current source' % qual)
        return self.funcs[qual]

    def has_func(self, qual):
        return qual in self.funcs

    def cls(self, qual):
        return self.classes[qual]

    def class_attr(self, clsqual, name):
        """Class-level simple assignment `name = <expr>` (e.g. `_keys = None`)."""
        for node in self.classes[clsqual].body:
            if isinstance(node, ast.Assign) and len(node.targets) == 1 \
                    and isinstance(node.targets[0], ast.Name) and node.targets[0].id == name:
                return node.value
        return None

    def assigned_self_attrs(self, clsqual):
        """names X for which some method of the class executes `self.X = ...` / `self.X += ...`"""
        cache = self.__dict__.setdefault('_assigned_cache', {})
        if clsqual in cache:
            return cache[clsqual]
        out = set()
        for node in ast.walk(self.classes[clsqual]):
            tg = []
            if isinstance(node, ast.Assign):
                tg = node.targets
            elif isinstance(node, (ast.AugAssign, ast.AnnAssign)):
                tg = [node.target]
            for t in tg:
                for t2 in (t.elts if isinstance(t, (ast.Tuple, ast.List)) else [t]):
                    if isinstance(t2, ast.Attribute) and isinstance(t2.value, ast.Name) and t2.value.id == 'self':
                        out.add(t2.attr)
        cache[clsqual] = out
        return out

    def class_bases(self, clsqual):
        out = []
        for b in self.classes[clsqual].bases:
            if isinstance(b, ast.Name):
                out.append(b.id)
            elif isinstance(b, ast.Attribute):
                out.append(b.attr)
        return out

    def mro_lookup(self, mod, clsname, meth):
        """Resolve a method through single inheritance inside the module."""
        seen = set()
        c = clsname
        while c and c not in seen:
            seen.add(c)
            q = '%s:%s.%s' % (mod, c, meth)
            if q in self.funcs:
                return q
            key = '%s:%s' % (mod, c)
            if key not in self.classes:
                return None
            bases = self.class_bases(key)
            c = bases[0] if bases else None
        return None

    def is_property(self, qual):
        fn = self.funcs[qual]
        return any(isinstance(d, ast.Name) and d.id == 'property' for d in fn.decorator_list)

    def is_staticmethod(self, qual):
        fn = self.funcs[qual]
        return any(isinstance(d, ast.Name) and d.id == 'staticmethod' for d in fn.decorator_list)

    def source_hash(self, qual):
        fn = self.funcs[qual]
        mod = qual.split(':')[0]
        seg = ast.get_source_segment(self.text[mod], fn) or ''
        return hashlib.sha256(seg.encode()).hexdigest()[:16]

    def exception_classes(self):
        """(name, [bases]) of every class in the repo modules (used for the exception
        hierarchy; non-exception classes are harmless there)."""
        out = []
        for key, node in self.classes.items():
            out.append((node.name, self.class_bases(key)))
        return out


def body_without_docstring(fn):
    body = fn.body
    if body and isinstance(body[0], ast.Expr) and isinstance(body[0].value, ast.Constant) \
            and isinstance(body[0].value.value, str):
        return body[1:]
    return body
