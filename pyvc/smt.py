"""SMT glue for pyvc: sorts, uninterpreted vocabulary of the interface contract I(d),
fresh names, obligation discharge through z3 (in-process) with cvc5 / z3-new CLI fall back.

Runs under python3-vt only (needs the z3-solver wheel).  Never imports the repository.
"""
import itertools
import os
import subprocess
import tempfile
import time

import z3

# --------------------------------------------------------------------------- sorts
Obj = z3.DeclareSort('Obj')        # opaque python values (examples, stored bytes, ...)
Key = z3.DeclareSort('Key')        # str keys of datasets (equality only)
Exc = z3.DeclareSort('Exc')        # exception objects
Cls = z3.DeclareSort('Cls')        # exception classes
DS = z3.DeclareSort('DS')          # dataset references
Fn = z3.DeclareSort('Fn')          # user callables
Rng = z3.DeclareSort('Rng')        # random generator objects
Int = z3.IntSort()
Bool = z3.BoolSort()
Real = z3.RealSort()
ObjSeq = z3.SeqSort(Obj)

I = z3.IntVal
T = z3.BoolVal(True)
F = z3.BoolVal(False)

# ------------------------------------------------------------------- ghost vocabulary
# view of an abstract dataset (DESIGN 2.4)
N = z3.Function('N', DS, Int)
RAISES = z3.Function('RAISES', DS, Int, Bool)
VAL = z3.Function('VAL', DS, Int, Obj)
EXC = z3.Function('EXC', DS, Int, Exc)
KEY = z3.Function('KEY', DS, Int, Key)
KPOS = z3.Function('KPOS', DS, Key, Int)       # position of a key, -1 when absent
IDX = z3.Function('IDX', DS, Bool)
LEN = z3.Function('LEN', DS, Bool)
KEYS = z3.Function('KEYS', DS, Bool)
ITEMS = z3.Function('ITEMS', DS, Bool)
KEYS_UNIMPL = z3.Function('KEYS_UNIMPLEMENTED', DS, Bool)   # keys() of a dataset without keys fails with NotImplementedError
#                                                              (otherwise: keys exist but are refused, e.g. duplicates: AssertionError)
ORD = z3.Function('ORD', DS, Bool)
FRESH = z3.Function('FRESH', DS, Bool)
IREF = z3.Function('IREF', DS, Int)          # where a with_key iteration of a stage without items fails
IEXC = z3.Function('IEXC', DS, Exc)
CP = z3.Function('CP', DS, Int, DS)            # the c-th copy taken of a dataset (I-copy)
FROZEN = z3.Function('FROZEN', DS, Bool)       # a copy taken with freeze=True
# symbolic-length tuple of input datasets: IN(owner, j)
IN = z3.Function('IN', Int, Int, DS)           # owner id (python int), index
# user callables (A-PURE): outcome of f(x)
APP_R = z3.Function('APP_R', Fn, Obj, Bool)
APP_V = z3.Function('APP_V', Fn, Obj, Obj)
APP_E = z3.Function('APP_E', Fn, Obj, Exc)
TRUTH = z3.Function('TRUTH', Obj, Bool)
IS_NONE = z3.Function('IS_NONE', Obj, Bool)    # an opaque example value may be None        # python truthiness of an opaque value
# exceptions
CLS = z3.Function('CLS', Exc, Cls)
SUB = z3.Function('SUB', Cls, Cls, Bool)       # issubclass
CATCH = z3.Function('CATCH', Obj, Exc, Bool)   # `except <opaque spec>` matches e

_counter = itertools.count()


def fresh(prefix, sort):
    return z3.Const('%s!%d' % (prefix, next(_counter)), sort)


def fresh_int(prefix='i'):
    return fresh(prefix, Int)


# --------------------------------------------------------------- exception classes
_BUILTIN_EXC = [
    'BaseException', 'Exception', 'GeneratorExit', 'KeyboardInterrupt', 'SystemExit',
    'StopIteration', 'ArithmeticError', 'ZeroDivisionError', 'OverflowError', 'AssertionError',
    'AttributeError', 'LookupError', 'IndexError', 'KeyError', 'NotImplementedError',
    'RuntimeError', 'TypeError', 'ValueError', 'OSError', 'EnvironmentError',
    'ImportError', 'ResourceWarning', 'Warning',
]


class ExcHierarchy:
    """Known exception classes: python builtins (hierarchy taken from the running
    interpreter) plus the classes defined by `class X(Base):` statements in the
    repository source (hierarchy read from the AST by the extractor) plus queue.Empty."""

    def __init__(self):
        self.bases = {}
        import builtins
        for n in _BUILTIN_EXC:
            c = getattr(builtins, n)
            self.bases[c.__name__] = [b.__name__ for b in c.__bases__ if b is not object]
        self.bases['Empty'] = ['Exception']          # queue.Empty
        self.consts = {}

    def add(self, name, bases):
        self.bases[name] = list(bases)

    def issub(self, a, b):
        if a == b:
            return True
        return any(self.issub(x, b) for x in self.bases.get(a, []))

    def const(self, name):
        if name not in self.bases:
            raise KeyError('unknown exception class %s' % name)
        if name not in self.consts:
            self.consts[name] = z3.Const('cls_' + name, Cls)
        return self.consts[name]

    def axioms(self):
        """Ground table of SUB over the known classes, distinctness, and for every
        class c (known or not): SUB(c,c), SUB(c, known a) => SUB(c, known b) when a<=b,
        everything raised is a BaseException."""
        if getattr(self, '_ax', None) is not None and self._ax_n == len(self.bases):
            return list(self._ax)
        names = sorted(self.bases)
        for n in names:
            self.const(n)
        ax = []
        cs = [self.consts[n] for n in names]
        if len(cs) > 1:
            ax.append(z3.Distinct(*cs))
        for a in names:
            for b in names:
                ax.append(SUB(self.consts[a], self.consts[b]) == z3.BoolVal(self.issub(a, b)))
        c = z3.Const('c', Cls)
        ax.append(z3.ForAll([c], SUB(c, c)))
        ax.append(z3.ForAll([c], SUB(c, self.consts['BaseException'])))
        for a in names:
            for b in self.bases[a]:
                ax.append(z3.ForAll([c], z3.Implies(SUB(c, self.consts[a]), SUB(c, self.consts[b])),
                                    patterns=[SUB(c, self.consts[a])]))
        self._ax = ax
        self._ax_n = len(self.bases)
        return list(ax)


# ------------------------------------------------------------------------ discharge
class Result:
    def __init__(self, status, backend, seconds, model=None, reason=''):
        self.status = status      # 'unsat' (discharged) | 'sat' | 'unknown'
        self.backend = backend
        self.seconds = seconds
        self.model = model
        self.reason = reason


Z3_TIMEOUT_MS = int(os.environ.get('PYVC_Z3_TIMEOUT_MS', '20000'))
CROSS_TIMEOUT_S = 10
CLI_TIMEOUT_S = int(os.environ.get('PYVC_CLI_TIMEOUT_S', '60'))


def _mk_solver(timeout_ms):
    s = z3.Solver()
    s.set('timeout', timeout_ms)
    return s


def check_sat(assumptions, timeout_ms=None):
    """Return ('sat'|'unsat'|'unknown', model_or_None)."""
    s = _mk_solver(timeout_ms or Z3_TIMEOUT_MS)
    for a in assumptions:
        s.add(a)
    r = s.check()
    if r == z3.sat:
        return 'sat', s.model()
    if r == z3.unsat:
        return 'unsat', None
    return 'unknown', None


def to_smt2(assumptions):
    s = z3.Solver()
    for a in assumptions:
        s.add(a)
    return s.to_smt2()


def _run_cli(cmd, text, timeout):
    with tempfile.NamedTemporaryFile('w', suffix='.smt2', delete=False) as f:
        f.write(text)
        path = f.name
    try:
        p = subprocess.run(cmd + [path], capture_output=True, text=True, timeout=timeout)
        out = (p.stdout or '').strip().splitlines()
        return out[0].strip() if out else 'unknown'
    except subprocess.TimeoutExpired:
        return 'unknown'
    finally:
        os.unlink(path)


# budget of the command-line fall back per contract variant (reset by verify.run_variant): an obligation that z3 leaves
# open costs up to 2 x CLI_TIMEOUT_S more; a variant with many of them (typically a changed function that no longer fits its
# invariants) must not take a quarter of an hour to be reported as undecided
CLI_BUDGET_S = int(os.environ.get('PYVC_CLI_BUDGET_S', '60'))
_cli_spent = [0.0]
_unknowns = [0]


def reset_cli_budget():
    _cli_spent[0] = 0.0
    _unknowns[0] = 0


def prove(assumptions, goal, both=False):
    """Validity of  /\\ assumptions => goal.  z3 in-process first; on unknown the same
    query goes to cvc5 and z3-new as SMT-LIB text.  `both` additionally cross-checks a
    z3 verdict with cvc5 (thorough tier); a disagreement is reported as status 'fault'."""
    t0 = time.time()
    query = list(assumptions) + [z3.Not(goal)]
    # a variant that already has two obligations nobody could decide is undecided whatever comes next: the remaining ones get a
    # short budget (a refutation found quickly is still reported; nothing is proved or refuted by the shortcut)
    st, model = check_sat(query, Z3_TIMEOUT_MS if _unknowns[0] < 2 else min(Z3_TIMEOUT_MS, 4000))
    backend = 'z3'
    if st == 'unknown' and _cli_spent[0] < CLI_BUDGET_S * (3 if both else 1):
        t1 = time.time()
        text = to_smt2(query)
        # quick tier: 20 s per command-line solver (the obligations that need the fall back on the unchanged tree are answered
        # by cvc5 in about a second); thorough tier: the full CLI_TIMEOUT_S
        cli_t = CLI_TIMEOUT_S if both else min(CLI_TIMEOUT_S, 20)
        r = _run_cli(['/usr/bin/cvc5', '--strings-exp', '--tlimit=%d' % (cli_t * 1000)], text, cli_t + 5)
        if r in ('sat', 'unsat'):
            st, backend = r, 'cvc5'
        else:
            r = _run_cli(['z3-new', 'smt.random_seed=7', '-T:%d' % cli_t], text, cli_t + 5)
            if r in ('sat', 'unsat'):
                st, backend = r, 'z3-new-cli'
        if st == 'unknown':
            _cli_spent[0] += time.time() - t1      # only fruitless attempts count
    if st == 'unknown':
        _unknowns[0] += 1
    elif both:
        # cross-check of a decided verdict: a short budget is enough (cvc5 either confirms quickly or gives up on the
        # quantified obligations; only a *contradicting* verdict matters)
        text = to_smt2(query)
        r = _run_cli(['/usr/bin/cvc5', '--strings-exp', '--tlimit=%d' % (CROSS_TIMEOUT_S * 1000)], text,
                     CROSS_TIMEOUT_S + 5)
        if r in ('sat', 'unsat') and r != st:
            return Result('fault', 'z3+cvc5', time.time() - t0, reason='z3=%s cvc5=%s' % (st, r))
        if r == st:
            backend = 'z3+cvc5'
    return Result(st, backend, time.time() - t0, model=model)


# --------------------------------------------------------------------------- folds
class Folds:
    """Left folds over a symbolic index range as uninterpreted prefix functions
    (DESIGN 2.7): SUM_t(k) = sum_{i<k} t(i), with the two defining equations
    SUM_t(0) = 0 and SUM_t(k+1) = SUM_t(k) + t(k) instantiated at every index term
    the executor meets (loop counters, skolems).  Keyed by the structural form of the
    summand so that the code's fold and the spec's fold are the same z3 function."""

    def __init__(self):
        self.reset()

    def reset(self):
        self.by_key = {}
        self.index_terms = []
        self.instances = []
        self._seen = set()

    def sum(self, jvar, term):
        canon = z3.Int('_J')
        t = z3.simplify(z3.substitute(term, (jvar, canon)))
        key = t.sexpr()
        if key not in self.by_key:
            f = z3.Function('SUM!%d' % len(self.by_key), Int, Int)
            self.by_key[key] = (f, t, canon)
            self.instances.append(f(I(0)) == 0)
            for e in list(self.index_terms):
                self._unfold(f, t, canon, e)
        return self.by_key[key][0]

    def _unfold(self, f, t, canon, e):
        k = (f.name(), e.sexpr())
        if k in self._seen:
            return
        self._seen.add(k)
        self.instances.append(z3.Implies(e >= 0, f(e + 1) == f(e) + z3.substitute(t, (canon, e))))

    def note_index(self, e):
        e = z3.simplify(e)
        if any(e.eq(x) for x in self.index_terms):
            return
        self.index_terms.append(e)
        for f, t, canon in self.by_key.values():
            self._unfold(f, t, canon, e)

    def mono_instances(self):
        """Instances of the lemma  0 <= a <= b  =>  SUM(a) <= SUM(b)  (summand >= 0) for all
        pairs of noted index terms.  The lemma itself is proved by induction on b:
        see lemma_obligations()."""
        out = []
        for f, t, canon in self.by_key.values():
            for a in self.index_terms:
                for b in self.index_terms:
                    if a.eq(b):
                        continue
                    out.append(z3.Implies(z3.And(a >= 0, a <= b), f(a) <= f(b)))
        return out

    def lemma_obligations(self):
        """(name, assumptions, goal) proving the monotonicity lemma by induction on b for each
        fold: base SUM(a) <= SUM(a); step: from SUM(a) <= SUM(b), b >= a >= 0 and the defining
        equation at b, and summand(b) >= 0, conclude SUM(a) <= SUM(b+1).  The summand's
        non-negativity is itself part of the step obligation's goal."""
        out = []
        for key, (f, t, canon) in self.by_key.items():
            a = z3.Int('_a')
            b = z3.Int('_b')
            tb = z3.substitute(t, (canon, b))
            out.append(('lemma:mono(%s):summand-nonneg' % f.name(), [b >= 0], tb >= 0))
            out.append(('lemma:mono(%s):step' % f.name(),
                        [a >= 0, b >= a, f(a) <= f(b), f(b + 1) == f(b) + tb, tb >= 0], f(a) <= f(b + 1)))
        return out

    def all_instances(self):
        return self.instances + self.mono_instances()


FOLDS = Folds()
