"""Sidecar contract vocabulary: class contracts, method variants, the generic clauses of
the interface contract I(d) as postconditions (DESIGN 2.4), and the per-run Ctx that
connects a variant to the engine."""
import z3

from . import smt, views
from .smt import I
from .values import *      # noqa
from .engine import Ctx, SView, SliceSpecV, CellListV
from .views import AX


class Variant:
    """One symbolic run of one function.

    params    : dict name -> kind ('int','key','bool','obj','fn','ds', 'slicespec:<classes>',
                or a callable(eng, st) -> Val)
    requires  : lambda S -> z3 Bool (assumed at entry besides the class invariant)
    post      : lambda S, outcome -> list of (clause-name, z3 Bool)   (per outcome path)
    loops     : dict ordinal -> lambda S -> z3 Bool
    generator : the function is a generator (ghost out_n, yield clauses)
    on_yield  : lambda S, value -> list of (clause-name, z3 Bool)
    props     : property ids the obligations of this variant count for
    """

    def __init__(self, name, params=None, requires=None, post=None, loops=None, generator=False,
                 on_yield=None, props=(), inline=(), model_close=False, hooks=None, kwonly=None,
                 after_yield=None, setup=None):
        self.name = name
        self.params = params or {}
        self.requires = requires
        self.post = post
        self.loops = loops or {}
        self.generator = generator
        self.on_yield = on_yield
        self.props = tuple(props)
        self.inline = tuple(inline)
        self.model_close = model_close
        self.hooks = hooks or {}
        self.after_yield = after_yield
        self.setup = setup


class ClassContract:
    mod = 'core'
    cls = None
    methods = {}

    def fields(self, eng, st):
        """-> dict of symbolic field values; append the class invariant to st.pc."""
        return {}

    def invariant(self, eng, st, fields):
        """z3 Bool over `fields` (what __init__ must establish); default: True."""
        return smt.T

    def view(self, eng, st):
        """Spec view of self (from st.heap[eng.self_oid])."""
        return None


class FuncContract(ClassContract):
    """Module-level function or a Dataset factory method run with an abstract self."""
    cls = None


class RunCtx(Ctx):
    def __init__(self, contract, variant):
        self.contract = contract
        self.variant = variant
        self.loops = variant.loops
        self.model_close = variant.model_close
        self.inline = variant.inline
        for k, f in variant.hooks.items():
            setattr(self, k, f)

    def self_view(self, eng, st):
        return self.contract.view(eng, st)

    def on_yield(self, S, value):
        if self.variant.on_yield is None:
            return []
        return self.variant.on_yield(S, value)

    def after_yield(self, eng, st):
        if self.variant.after_yield is None:
            return st
        return self.variant.after_yield(eng, st)


def make_param(eng, st, name, kind):
    if callable(kind):
        return kind(eng, st)
    if kind == 'int':
        return IntV(smt.fresh(name, smt.Int))
    if kind in ('np.int8', 'np.uint8'):
        lo, hi = (-128, 127) if kind == 'np.int8' else (0, 255)
        t = smt.fresh(name, smt.Int)
        st.pc.append(z3.And(t >= lo, t <= hi))
        return NpIntV(t, lo, hi, kind)
    if kind == 'key':
        return KeyV(smt.fresh(name, smt.Key))
    if kind == 'bool':
        return BoolV(smt.fresh(name, smt.Bool))
    if kind == 'obj':
        return ObjV(smt.fresh(name, smt.Obj))
    if kind == 'fn':
        return FnV(smt.fresh(name, smt.Fn))
    if kind == 'ds':
        return DSRefV(smt.fresh(name, smt.DS))
    if kind == 'true':
        return BoolV(True)
    if kind == 'false':
        return BoolV(False)
    if kind == 'none':
        return NONE
    if kind.startswith('slicespec:'):
        return SliceSpecV(smt.fresh(name, smt.Obj), kind.split(':', 1)[1].split(','))
    raise ValueError(kind)


# --------------------------------------------------------------- generic I-clauses
def exc_is(e, hier, clsname):
    return smt.SUB(smt.CLS(e.t), hier.const(clsname))


def post_len(view_of):
    """I-len: LEN => returns N; not LEN => raises TypeError."""
    def post(S, o):
        v = view_of(S)
        if o.kind == 'return':
            if not isinstance(o.value, IntV):
                return [('len-returns-int', smt.F)]
            return [('I-len:value', z3.And(v.len_, o.value.t == v.n()))]
        if o.kind == 'raise':
            return [('I-len:raises-only-when-unsized',
                     z3.And(z3.Not(v.len_), exc_is(o.exc, S.eng.hier, 'TypeError')))]
        return [('I-len:outcome', smt.F)]
    return post


def post_getitem_int(view_of, item='item'):
    """I-idx (requires IDX): in range -> outcome of that position; else IndexError."""
    def post(S, o):
        v = view_of(S)
        it = S.old[item]
        n = v.n()
        inr = z3.And(it >= -n, it < n)
        p = z3.If(it < 0, it + n, it)
        if o.kind == 'return':
            eq = veq(o.value, v.val(p))
            if eq is None:
                return [('I-idx:value-kind', smt.F)]
            return [('I-idx:in-range', inr), ('I-idx:not-raising-position', z3.Implies(inr, z3.Not(v.raises(p)))),
                    ('I-idx:value', z3.Implies(inr, eq))]
        if o.kind == 'raise':
            return [('I-idx:exception',
                     z3.Or(z3.And(inr, v.raises(p), o.exc.t == v.exc(p)),
                           z3.And(z3.Not(inr), exc_is(o.exc, S.eng.hier, 'IndexError'))))]
        return [('I-idx:outcome', smt.F)]
    return post


def post_getitem_key(view_of, item='item'):
    """I-key (requires KEYS): present -> outcome at the key's position; absent -> LookupError."""
    def post(S, o):
        v = view_of(S)
        k = S.old[item]
        p = v.kpos(k)
        if o.kind == 'return':
            eq = veq(o.value, v.val(p))
            if eq is None:
                return [('I-key:value-kind', smt.F)]
            return [('I-key:present', p >= 0), ('I-key:not-raising-position', z3.Implies(p >= 0, z3.Not(v.raises(p)))),
                    ('I-key:value', z3.Implies(p >= 0, eq))]
        if o.kind == 'raise':
            return [('I-key:exception',
                     z3.Or(z3.And(p >= 0, v.raises(p), o.exc.t == v.exc(p)),
                           z3.And(p < 0, exc_is(o.exc, S.eng.hier, 'LookupError'))))]
        return [('I-key:outcome', smt.F)]
    return post


def post_keys(view_of):
    """I-keys (requires KEYS): a tuple with one key per position in iteration order."""
    def post(S, o):
        v = view_of(S)
        if o.kind == 'return':
            val = o.value
            if isinstance(val, TupleV) and not val.is_list:
                pass
            elif not (isinstance(val, SymSeqV) and val.pytype == 'tuple'):
                return [('I-keys:returns-tuple', smt.F)]
            eq = veq(val, views.keys_seq(v))
            return [('I-keys:value', eq)]
        return [('I-keys:no-exception', smt.F)]
    return post


def post_keys_undefined():
    def post(S, o):
        return [('I-keys:raises-when-undefined', z3.BoolVal(o.kind == 'raise'))]
    return post


def iter_clauses(view_of, with_key=False):
    """I-iter / I-items for a function-style view: pointwise yield clause + end clauses."""
    def elem(v, i):
        if with_key:
            return TupleV([KeyV(v.key(i)), v.val(i)])
        return v.val(i)

    def on_yield(S, value):
        v = view_of(S)
        o = S.out_n
        eq = veq(value, elem(v, o))
        if eq is None:
            return [('I-iter:yield-kind', smt.F)]
        return [('I-iter:yield-within-length', o < v.n()),
                ('I-iter:yield-not-raising-position', z3.Not(v.raises(o))),
                ('I-iter:yield-value', eq)]

    def post(S, o):
        v = view_of(S)
        if o.kind in ('normal', 'return'):
            return [('I-iter:end-count', S.out_n == v.n())]
        if o.kind == 'raise':
            return [('I-iter:exception-position',
                     z3.And(S.out_n < v.n(), v.raises(S.out_n), o.exc.t == v.exc(S.out_n)))]
        return [('I-iter:outcome', smt.F)]
    return on_yield, post


def items_refused_clauses(view_of):
    """with_key iteration of a stage without items: it refuses loudly (ends with an
    exception, never normally); every pair yielded before that is correctly paired."""
    on_yield, _ = iter_clauses(view_of, True)

    def post(S, o):
        # the refusal must be the library's own signal (_ItemsNotDefined, turned into ItemsNotDefined by items()):
        # from_dataset / new(ds) / cache(lazy=False) fall back to a key-less snapshot on exactly that exception
        out = [('I-items:refused-loudly', z3.BoolVal(o.kind == 'raise'))]
        if o.kind == 'raise' and '_ItemsNotDefined' in S.eng.hier.bases:
            sig = exc_is(o.exc, S.eng.hier, '_ItemsNotDefined')
            v = None
            try:
                v = view_of(S)
            except Exception:      # noqa
                v = None
            if v is not None:
                # ... unless an example that comes before the refusal point fails with its own exception
                own = z3.And(S.out_n < v.n(), v.raises(S.out_n), o.exc.t == v.exc(S.out_n))
                sig = z3.Or(sig, own)
            out.append(('I-items:refused-with-the-ItemsNotDefined-signal', sig))
        return out
    return on_yield, post


def post_bool_property(expected_of):
    def post(S, o):
        eng = S.eng
        q = eng.src.mro_lookup(eng.mod, eng.cls, eng.fn.name) if eng.cls else None
        # `ds.indexable` / `ds.ordered` are read as attributes: the function must be a property in the current source
        prop = [('flag:is-a-property-in-the-current-source', z3.BoolVal(bool(q and eng.src.is_property(q))))]
        if o.kind == 'return' and isinstance(o.value, BoolV):
            return prop + [('flag:value', o.value.t == expected_of(S))]
        if o.kind == 'raise':
            return prop + [('flag:no-exception', smt.F)]
        return prop + [('flag:returns-bool', smt.F)]
    return post


def post_getitem_other(hier_cls='NotImplementedError'):
    """`ds[slice | list | tuple | 1-d array]` builds SliceDataset(item, self); anything
    else raises NotImplementedError (Dataset.__getitem__ dispatch)."""
    def post(S, o):
        it = S.eng.entry_env['item']
        sliceable = isinstance(it, SliceSpecV) and bool(it.classes & {'slice', 'tuple', 'list', 'ndarray'})
        if o.kind == 'return':
            ok = isinstance(o.value, StageV) and o.value.cls == 'SliceDataset' and len(o.value.args) == 2 \
                and o.value.args[0] is it and isinstance(o.value.args[1], InstV) and o.value.args[1].oid == S.eng.self_oid
            return [('getitem-other:builds-SliceDataset(item,self)', z3.BoolVal(bool(ok and sliceable)))]
        if o.kind == 'raise':
            return [('getitem-other:NotImplementedError',
                     z3.And(z3.BoolVal(not sliceable), exc_is(o.exc, S.eng.hier, hier_cls)))]
        return [('getitem-other:outcome', smt.F)]
    return post


def frame_unchanged(fields):
    """The method leaves the listed self fields untouched (identity of the symbolic value)."""
    def clause(S):
        eng = S.eng
        cs = []
        for f in fields:
            before = eng.entry_heap[eng.self_oid].get(f)
            after = S.st.heap[eng.self_oid].get(f)
            cs.append(z3.BoolVal(before is after))
        return z3.And(*cs) if cs else smt.T
    return clause
