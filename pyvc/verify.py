"""Driver: run the variants of the sidecar contracts against the current source, discharge
the obligations, and return plain-data results (so that variants can run in a process pool)."""
import time
import traceback

import z3

from . import smt, views
from .smt import I
from .values import *          # noqa
from .values import Unsupported
from .engine import Engine, State, SView, Outcome, _loop_ordinals
from .extract import Source, body_without_docstring
from .contract import RunCtx, make_param
from .views import AX


def make_hier(src):
    hier = smt.ExcHierarchy()
    repo = dict(src.exception_classes())
    changed = True
    while changed:          # keep only classes whose ancestry reaches a known exception class
        changed = False
        for name, bases in repo.items():
            if name not in hier.bases and any(b in hier.bases for b in bases):
                hier.add(name, [b for b in bases if b in hier.bases])
                changed = True
    return hier


class VariantResult:
    def __init__(self, qual, variant, props):
        self.qual = qual
        self.variant = variant
        self.props = list(props)
        self.obligations = []     # dicts: name, kind, status, backend, seconds, model
        self.status = 'ok'        # ok | undecided | fault
        self.reason = ''
        self.covers = 0
        self.cover_sat = 0
        self.paths = 0
        self.source_hash = ''
        self.inlined = {}         # repository functions executed inline (by their body) inside this variant
        self.seconds = 0.0

    def as_dict(self):
        return self.__dict__


def model_summary(model, limit=40):
    if model is None:
        return {}
    out = {}
    for d in model.decls()[:400]:
        if d.arity() == 0:
            name = d.name()
            if name.startswith(('k!', 'z3name', 'elem!', 'cls_')):
                continue
            out[name] = str(model[d])
    return dict(list(sorted(out.items()))[:limit])


def run_variant(src, hier, contract, method, variant, both=False, repo_qual=None):
    """-> VariantResult."""
    if getattr(variant, 'custom', None) is not None:
        return variant.custom(src, hier, variant)
    t0 = time.time()
    mod = contract.mod
    qual = repo_qual or ('%s:%s.%s' % (mod, contract.cls, method) if contract.cls else '%s:%s' % (mod, method))
    res = VariantResult(qual, variant.name, variant.props)
    AX.reset()
    smt.FOLDS.reset()
    smt.reset_cli_budget()
    for h in views.RESET_HOOKS:
        h()
    try:
        if not src.has_func(qual) and contract.cls:
            inherited = src.mro_lookup(mod, contract.cls, method)
            if inherited is not None:
                qual = inherited
                res.qual = qual + ' (inherited by %s)' % contract.cls
        fn = src.func(qual)
        res.source_hash = src.source_hash(qual)
        eng = Engine(src, hier, mod)
        eng.qual = '%s[%s]' % (qual.split(':', 1)[1], variant.name)
        eng.fn = fn
        eng.ordinals = _loop_ordinals(fn)
        eng.ctx = RunCtx(contract, variant)
        eng.contract = contract
        st = State()
        env = {}
        if getattr(contract, 'abstract_self', False):
            env['self'] = DSRefV(smt.fresh('self_ds', smt.DS))
            eng.cls = contract.cls
        elif contract.cls is not None and fn.args.args and fn.args.args[0].arg == 'self':
            oid = eng.new_oid()
            eng.self_oid = oid
            eng.cls = contract.cls
            st.heap[oid] = {}
            fields = contract.fields(eng, st) if method != '__init__' else {}
            st.heap[oid] = dict(fields)
            env['self'] = InstV(oid, contract.cls)
        for pname, kind in variant.params.items():
            env[pname] = make_param(eng, st, pname, kind)
        # parameters with defaults that the variant does not mention take the default
        args = fn.args
        names = [a.arg for a in args.args]
        defaults = dict(zip(names[len(names) - len(args.defaults):], args.defaults))
        for a, d in zip(args.kwonlyargs, args.kw_defaults):
            if d is not None:
                defaults[a.arg] = d
        if args.kwarg is not None and args.kwarg.arg not in env:
            from .engine import KwArgsV
            from .values import OpaqueV
            env[args.kwarg.arg] = KwArgsV({}, OpaqueV('further-keyword-arguments'))
        st.env = env
        for nme, d in defaults.items():
            if nme not in env:
                eng.sinks.append([])
                r = eng.eval(d, st)
                eng.sinks.pop()
                env[nme] = r[0][1]
        if variant.setup is not None:
            variant.setup(eng, st)
        eng.entry_env = dict(env)
        eng.entry_heap = {k: dict(v) for k, v in st.heap.items()}
        if variant.generator:
            st.out_n = I(0)
        if variant.requires is not None:
            rq = variant.requires(SView(eng, st))
            if z3.is_false(z3.simplify(rq)):
                res.status = 'skipped'
                res.reason = 'requires is constantly false for this class (variant not applicable)'
                return res
            st.pc.append(rq)
        # vacuity guard on the precondition
        r, _ = smt.check_sat(eng.axioms() + smt.FOLDS.all_instances() + st.pc, timeout_ms=getattr(eng.ctx, 'feas_timeout_ms', 5000))
        if r == 'unsat':
            res.status = 'fault'
            res.reason = 'precondition of %s is unsatisfiable (vacuous)' % eng.qual
            return res
        eng.sinks.append([])
        outs = eng.exec_block(body_without_docstring(fn), st)
        stray = eng.sinks.pop()
        outs = list(outs) + stray
        res.paths = len(outs)
        # postconditions
        for idx, o in enumerate(outs):
            if o.kind in ('break', 'continue'):
                raise Unsupported('break/continue escapes the function')
            S = SView(eng, o.st)
            if variant.post is not None:
                for name, goal in variant.post(S, o):
                    if goal is None:
                        raise Unsupported('postcondition clause %s not expressible' % name)
                    eng.oblige('post[%s#%d]:%s' % (o.kind, idx, name), o.st, goal, 'post')
            # cover: the path is reachable (no vacuous pass)
            res.covers += 1
            r, _ = smt.check_sat(eng.base_axioms + AX.items + smt.FOLDS.all_instances() + o.st.pc,
                                 timeout_ms=getattr(eng.ctx, 'feas_timeout_ms', 3000))
            if r != 'unsat':
                res.cover_sat += 1
        if res.cover_sat == 0:
            res.status = 'fault'
            res.reason = 'no reachable path (vacuous)'
            return res
        # discharge
        common = eng.base_axioms + AX.items + smt.FOLDS.all_instances()
        from .engine import Oblig
        for name, assumptions, goal in smt.FOLDS.lemma_obligations():
            eng.obligs.append(Oblig('%s:%s' % (eng.qual, name), list(AX.items) + assumptions, goal, 'lemma'))
        for ob in eng.obligs:
            g = z3.simplify(ob.goal) if z3.is_expr(ob.goal) else ob.goal
            if z3.is_true(g):
                r = smt.Result('unsat', 'trivial', 0.0)
            elif z3.is_false(g):
                # the clause is violated on this path: only reachability of the path is in question
                t1 = time.time()
                st_, mdl = smt.check_sat(common + ob.assumptions, timeout_ms=5000)
                r = smt.Result({'sat': 'sat', 'unsat': 'unsat'}.get(st_, 'sat'), 'z3', time.time() - t1, model=mdl,
                               reason='goal is literally false; path reachability %s' % st_)
            else:
                r = smt.prove(common + ob.assumptions, ob.goal, both=both)
            d = {'name': ob.name, 'kind': ob.kind, 'status': r.status, 'backend': r.backend,
                 'seconds': round(r.seconds, 4)}
            if r.status == 'sat':
                d['model'] = model_summary(r.model)
            if r.status == 'fault':
                res.status = 'fault'
                res.reason = 'solver disagreement on %s: %s' % (ob.name, r.reason)
            res.obligations.append(d)
        if not res.obligations:
            res.status = 'fault'
            res.reason = 'zero obligations generated'
    except Unsupported as e:
        res.status = 'undecided'
        res.reason = 'unsupported: %s' % e
    except Exception as e:      # checker fault, never a violation
        res.status = 'fault'
        res.reason = 'checker exception: %s\n%s' % (e, traceback.format_exc()[-1500:])
    try:
        res.inlined = dict(getattr(eng, 'inlined_quals', {}))
    except NameError:
        pass
    res.seconds = round(time.time() - t0, 3)
    return res
