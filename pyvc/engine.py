"""pyvc symbolic executor: real python source (ast) -> proof obligations (z3).

One `Engine.run(...)` executes one function of the repository symbolically, for one
*variant* (kinds of the parameters), from a symbolic pre-state that satisfies the
contract's `requires`, cutting every loop at its sidecar invariant, and collects
obligations: loop-invariant initiation / preservation, yield-pointwise spec clauses,
postconditions per outcome path, frame clauses.  No loop is unrolled.

Outcome kinds of statement execution: normal | return | raise | break | continue.
"""
import ast
import copy as _copy

import z3

from . import smt
from .smt import I
from .values import *      # noqa
from .values import Unsupported
from . import views
from .views import AX, Out


class Outcome:
    def __init__(self, kind, st, value=None, exc=None):
        self.kind = kind
        self.st = st
        self.value = value
        self.exc = exc

    def __repr__(self):
        return 'Outcome(%s, %r, %r)' % (self.kind, self.value, self.exc)


class State:
    def __init__(self):
        self.pc = []
        self.env = {}
        self.heap = {}
        self.out_n = None          # ghost: number of values yielded so far
        self.cur_exc = []          # stack of exceptions being handled
        self.loopk = {}            # ordinal -> z3 Int loop counter
        self.ghost = {}            # free-form ghost state (effect counters, ...)
        self.trace = []            # labels for diagnostics

    def fork(self, *conds):
        s = State()
        s.pc = list(self.pc) + [c for c in conds if c is not None]
        s.env = dict(self.env)
        s.heap = {k: dict(v) for k, v in self.heap.items()}
        s.out_n = self.out_n
        s.cur_exc = list(self.cur_exc)
        s.loopk = dict(self.loopk)
        s.ghost = dict(self.ghost)
        s.trace = list(self.trace)
        return s


class Oblig:
    def __init__(self, name, assumptions, goal, kind, where=''):
        self.name = name
        self.assumptions = assumptions
        self.goal = goal
        self.kind = kind
        self.where = where
        self.result = None


class SView:
    """What sidecar lambdas see of a state: S.v.<local>, S.f.<self field>, S.k (innermost
    loop counter), S.ks[ordinal], S.out_n, S.old.<entry value of a parameter>."""

    class _NS:
        def __init__(self, getter):
            object.__setattr__(self, '_g', getter)

        def __getattr__(self, name):
            return self._g(name)

        def __getitem__(self, name):
            return self._g(name)

    def __init__(self, eng, st, ordinal=None):
        self.eng = eng
        self.st = st
        self.ordinal = ordinal
        self.v = SView._NS(lambda n: self._unwrap(st.env[n]))
        self.val = SView._NS(lambda n: st.env[n])
        self.old = SView._NS(lambda n: self._unwrap(eng.entry_env[n]))
        self.f = SView._NS(lambda n: self._unwrap(st.heap[eng.self_oid][n]))
        self.fval = SView._NS(lambda n: st.heap[eng.self_oid][n])
        self.out_n = st.out_n
        self.ks = st.loopk
        self.k = st.loopk.get(ordinal) if ordinal is not None else None
        self.g = SView._NS(lambda n: st.ghost[n])

    @staticmethod
    def _unwrap(v):
        if isinstance(v, (IntV, BoolV, RealV, KeyV, ObjV, DSRefV, ExcV, FnV)):
            return v.t
        if isinstance(v, ListV):
            return v.seq
        return v

    def heap(self, v):
        return self.st.heap[v.oid]


def _loop_ordinals(fn):
    """Ordinal of every loop (for / while / `yield from`) in source order, nested with
    dots.  Nested function definitions are numbered separately (own run)."""
    out = {}

    def walk(stmts, prefix):
        cnt = 0
        for s in stmts:
            cnt = visit(s, prefix, cnt)

    def visit(s, prefix, cnt):
        if isinstance(s, (ast.FunctionDef, ast.ClassDef, ast.Lambda)):
            return cnt
        if isinstance(s, (ast.For, ast.While)):
            o = prefix + str(cnt)
            out[s] = o
            walk(s.body, o + '.')
            cnt += 1
            # orelse of loops not used in the repository
            return cnt
        if isinstance(s, ast.Expr) and isinstance(s.value, ast.YieldFrom):
            out[s.value] = prefix + str(cnt)
            return cnt + 1
        for field in ('body', 'orelse', 'finalbody'):
            for c in getattr(s, field, []) or []:
                cnt = visit(c, prefix, cnt)
        for h in getattr(s, 'handlers', []) or []:
            for c in h.body:
                cnt = visit(c, prefix, cnt)
        return cnt

    walk(fn.body, '')
    return out


def _assigned_names(stmts):
    names = set()
    mutated = set()
    self_fields = set()

    class V(ast.NodeVisitor):
        def visit_FunctionDef(self, node):
            names.add(node.name)
            # nonlocal writes inside nested defs are not executed by the loop itself

        def visit_Lambda(self, node):
            pass

        def visit_Name(self, node):
            if isinstance(node.ctx, (ast.Store, ast.Del)):
                names.add(node.id)

        def visit_Attribute(self, node):
            if isinstance(node.ctx, ast.Store) and isinstance(node.value, ast.Name) \
                    and node.value.id == 'self':
                self_fields.add(node.attr)
            self.generic_visit(node)

        def visit_Subscript(self, node):
            if isinstance(node.ctx, ast.Store):
                b = node.value
                if isinstance(b, ast.Name):
                    mutated.add(b.id)
                elif isinstance(b, ast.Attribute) and isinstance(b.value, ast.Name) and b.value.id == 'self':
                    self_fields.add(b.attr)
            self.generic_visit(node)

        def visit_AugAssign(self, node):
            t = node.target
            if isinstance(t, ast.Name):
                names.add(t.id)
            self.generic_visit(node)

        def visit_Call(self, node):
            f = node.func
            if isinstance(f, ast.Attribute) and isinstance(f.value, ast.Name) and \
                    f.attr in ('append', 'pop', 'extend', 'update', 'put', 'get', 'get_nowait',
                               'shuffle', 'clear', 'insert', 'remove', 'sort'):
                mutated.add(f.value.id)
            if isinstance(f, ast.Name) and f.id == 'next' and node.args and isinstance(node.args[0], ast.Name):
                mutated.add(node.args[0].id)
            self.generic_visit(node)

    v = V()
    for s in stmts:
        v.visit(s)
    return names, mutated, self_fields


def _has_yield(stmts):
    for s in stmts:
        for n in ast.walk(s):
            if isinstance(n, (ast.Yield, ast.YieldFrom)):
                return True
    return False


class Ctx:
    """Per-run contract hooks; the defaults do nothing.  Sidecar contracts subclass or
    fill the attributes."""
    loops = {}            # ordinal -> lambda S: z3 Bool
    model_close = False   # model generator.close() at every yield
    inline = ()           # names of self methods to execute inline instead of by view

    def self_view(self, eng, st):
        return None

    def on_yield(self, S, value):
        return []         # list of (name, z3 Bool)

    def after_yield(self, eng, st):
        return st

    def resolve_call(self, eng, st, fval, args, kwargs, node):
        return None       # contract-supplied call model: list of Outcome-like Out


class Engine:
    def __init__(self, source, hier, mod='core'):
        self.src = source
        self.hier = hier
        self.mod = mod
        self.obligs = []
        self.ctx = Ctx()
        self.self_oid = None
        self.entry_env = {}
        self.fn = None
        self.ordinals = {}
        self.cls = None
        self.qual = ''
        self._oid = 100
        self.sinks = []
        self.covers = []
        self.prune = True
        self.stats = {'forks': 0, 'pruned': 0}
        _d = z3.Const('_d', smt.DS)
        self.base_axioms = hier.axioms() + [
            z3.ForAll([_d], z3.Implies(smt.IDX(_d), smt.LEN(_d)), patterns=[smt.IDX(_d)]),
            z3.ForAll([_d], smt.N(_d) >= 0, patterns=[smt.N(_d)])]
        self.used_copy = False
        # A-PRIVATE: evaluating an example or a user callable never raises the library's
        # private control signal _ItemsNotDefined
        if '_ItemsNotDefined' in hier.bases:
            _i = z3.Int('_pi')
            _f = z3.Const('_pf', smt.Fn)
            _x = z3.Const('_px', smt.Obj)
            c = hier.const('_ItemsNotDefined')
            si = hier.const('StopIteration')
            self.base_axioms += [
                # A-PEP479: an example never fails with StopIteration (inside the generators that
                # implement iteration python turns it into RuntimeError)
                z3.ForAll([_d, _i], z3.Not(smt.SUB(smt.CLS(smt.EXC(_d, _i)), si)), patterns=[smt.EXC(_d, _i)]),
                z3.ForAll([_d, _i], z3.Not(smt.SUB(smt.CLS(smt.EXC(_d, _i)), c)), patterns=[smt.EXC(_d, _i)]),
                z3.ForAll([_f, _x], z3.Not(smt.SUB(smt.CLS(smt.APP_E(_f, _x)), c)), patterns=[smt.APP_E(_f, _x)])]

    # ------------------------------------------------------------------ utilities
    def new_oid(self):
        self._oid += 1
        return self._oid

    def axioms(self):
        return self.base_axioms + AX.items

    def feasible(self, st, cond=None):
        if not self.prune:
            return True
        q = self.axioms() + st.pc + ([cond] if cond is not None else [])
        # pruning only: `unknown` keeps the path (sound); a contract whose path conditions carry quantified
        # set axioms may lower the budget, since sat-with-quantifiers queries run into the timeout
        r, _ = smt.check_sat(q, timeout_ms=getattr(self.ctx, 'feas_timeout_ms', 2000))
        if r == 'unsat':
            self.stats['pruned'] += 1
            return False
        return True

    def branch(self, st, cond):
        """-> list of (state, bool) for the feasible sides of a symbolic condition."""
        cond = z3.simplify(cond)
        if z3.is_true(cond):
            return [(st, True)]
        if z3.is_false(cond):
            return [(st, False)]
        res = []
        self.stats['forks'] += 1
        if self.feasible(st, cond):
            res.append((st.fork(cond), True))
        if self.feasible(st, z3.Not(cond)):
            res.append((st.fork(z3.Not(cond)), False))
        return res

    def oblige(self, name, st, goal, kind, extra=()):
        self.obligs.append(Oblig('%s:%s' % (self.qual, name), self.axioms_snapshot() + list(st.pc) + list(extra),
                                 goal, kind))

    def axioms_snapshot(self):
        # axioms are ground instances / hierarchy facts: include all known so far; later
        # instances are appended at discharge time (see discharge())
        return []

    def raise_(self, st, exc):
        self.sinks[-1].append(Outcome('raise', st, exc=exc))

    def new_exc(self, st, clsname, exact=True):
        e = smt.fresh('e_' + clsname, smt.Exc)
        if exact:
            st.pc.append(smt.CLS(e) == self.hier.const(clsname))
        else:
            st.pc.append(smt.SUB(smt.CLS(e), self.hier.const(clsname)))
        return ExcV(e, clsname)

    def truth(self, v):
        if isinstance(v, BoolV):
            return v.t
        if isinstance(v, IntV):
            return v.t != 0
        if isinstance(v, RealV):
            return v.t != 0
        if isinstance(v, NoneV):
            return smt.F
        if isinstance(v, StrV):
            return z3.BoolVal(bool(v.s))
        if isinstance(v, ListV):
            return z3.Length(v.seq) > 0
        if isinstance(v, SymSeqV):
            return v.length > 0
        if isinstance(v, TupleV):
            return z3.BoolVal(len(v.items) > 0)
        if isinstance(v, DSTupleV):
            return v.m > 0
        if isinstance(v, ObjV):
            return smt.TRUTH(v.t)
        if isinstance(v, (FnV, ClosureV, ClassV, InstV, DSRefV, BuiltinV, BoundV, ExcSpecV, StageV)):
            return smt.T
        h = self.ctx_hook('truth_hook', None, v)
        if h is not None:
            return h
        raise Unsupported('truthiness of %r' % (v,))

    # ------------------------------------------------------------------ statements
    def exec_block(self, stmts, st):
        outs = [Outcome('normal', st)]
        for s in stmts:
            nxt = []
            for o in outs:
                if o.kind != 'normal':
                    nxt.append(o)
                else:
                    nxt.extend(self.exec_stmt(s, o.st))
            outs = nxt
        return outs

    def with_sink(self, f):
        """Run f() (which returns normal results) collecting raises; -> (results, raises)."""
        self.sinks.append([])
        try:
            res = f()
        finally:
            raised = self.sinks.pop()
        return res, raised

    def exec_stmt(self, s, st):
        m = getattr(self, 'stmt_' + type(s).__name__, None)
        if m is None:
            raise Unsupported('statement %s at line %d' % (type(s).__name__, s.lineno))
        res, raised = self.with_sink(lambda: m(s, st))
        return list(res) + raised

    def stmt_Delete(self, s, st):
        h = self.ctx_hook('delete_stmt', s, st)
        if h is not None:
            return h
        raise Unsupported('del statement')

    def stmt_Pass(self, s, st):
        return [Outcome('normal', st)]

    def stmt_Import(self, s, st):
        if getattr(self.ctx, 'imports_may_fail', False):
            # runtime contract: during interpreter finalisation an import statement may raise ImportError
            s2 = st.fork()
            self.raise_(s2, self.new_exc(s2, 'ImportError'))
        for a in s.names:
            st.env[(a.asname or a.name).split('.')[0]] = ModuleV(a.name if a.asname else a.name.split('.')[0])
        return [Outcome('normal', st)]

    def stmt_ImportFrom(self, s, st):
        for a in s.names:
            st.env[a.asname or a.name] = self.import_name(s.module, a.name)
        return [Outcome('normal', st)]

    def import_name(self, module, name):
        return BuiltinV('%s.%s' % (module, name))

    def stmt_Nonlocal(self, s, st):
        return [Outcome('normal', st)]

    def stmt_Global(self, s, st):
        return [Outcome('normal', st)]

    def stmt_Expr(self, s, st):
        if isinstance(s.value, ast.Yield):
            return self.do_yield(s.value, st)
        if isinstance(s.value, ast.YieldFrom):
            return self.do_yield_from(s.value, st)
        if isinstance(s.value, ast.Constant):
            return [Outcome('normal', st)]
        return [Outcome('normal', st2) for st2, _ in self.eval(s.value, st)]

    def stmt_Assert(self, s, st):
        outs = []
        for st2, v in self.eval(s.test, st):
            for st3, side in self.branch(st2, self.truth(v)):
                if side:
                    outs.append(Outcome('normal', st3))
                else:
                    self.raise_(st3, self.new_exc(st3, 'AssertionError'))
        return outs

    def stmt_Return(self, s, st):
        if s.value is None:
            return [Outcome('return', st, value=NONE)]
        return [Outcome('return', st2, value=v) for st2, v in self.eval(s.value, st)]

    def stmt_Break(self, s, st):
        return [Outcome('break', st)]

    def stmt_Continue(self, s, st):
        return [Outcome('continue', st)]

    def stmt_Raise(self, s, st):
        if s.exc is None:
            if not st.cur_exc:
                raise Unsupported('bare raise outside handler')
            self.raise_(st, st.cur_exc[-1])
            return []
        for st2, v in self.eval(s.exc, st):
            if isinstance(v, ClassV):
                v = self.new_exc(st2, v.name)
            if not isinstance(v, ExcV):
                raise Unsupported('raise of %r' % (v,))
            self.raise_(st2, v)
        return []

    def stmt_If(self, s, st):
        outs = []
        for st2, v in self.eval(s.test, st):
            for st3, side in self.branch(st2, self.truth(v)):
                outs.extend(self.exec_block(s.body if side else s.orelse, st3))
        return outs

    def stmt_Assign(self, s, st):
        outs = []
        for st2, v in self.eval(s.value, st):
            sts = [st2]
            for t in s.targets:
                nxt = []
                for stx in sts:
                    nxt.extend(self.assign(t, v, stx))
                sts = nxt
            outs.extend(Outcome('normal', x) for x in sts)
        return outs

    def stmt_AnnAssign(self, s, st):
        if s.value is None:
            return [Outcome('normal', st)]
        outs = []
        for st2, v in self.eval(s.value, st):
            outs.extend(Outcome('normal', x) for x in self.assign(s.target, v, st2))
        return outs

    def stmt_AugAssign(self, s, st):
        load = _copy.copy(s.target)
        load = ast.fix_missing_locations(ast.copy_location(_to_load(s.target), s.target))
        outs = []
        for st2, cur in self.eval(load, st):
            for st3, rhs in self.eval(s.value, st2):
                for st4, v in self.binop(s.op, cur, rhs, st3, s):
                    outs.extend(Outcome('normal', x) for x in self.assign(s.target, v, st4))
        return outs

    def assign(self, target, v, st):
        """-> list of states."""
        if isinstance(target, ast.Name):
            if isinstance(v, ListV) and any(x is v for n, x in st.env.items() if n != target.id):
                raise Unsupported('aliasing of a mutable list')
            st.env[target.id] = v
            return [st]
        if isinstance(target, (ast.Tuple, ast.List)):
            n = len(target.elts)
            if isinstance(v, TupleV):
                if len(v.items) != n:
                    raise Unsupported('unpack arity')
                sts = [st]
                for t, x in zip(target.elts, v.items):
                    nxt = []
                    for s2 in sts:
                        nxt.extend(self.assign(t, x, s2))
                    sts = nxt
                return sts
            if isinstance(v, (SymSeqV, DSTupleV)):
                ln = v.length if isinstance(v, SymSeqV) else v.m
                res = []
                for s2, side in self.branch(st, ln == n):
                    if side:
                        sts = [s2]
                        for idx, t in enumerate(target.elts):
                            nxt = []
                            for s3 in sts:
                                nxt.extend(self.assign(t, v.at(I(idx)), s3))
                            sts = nxt
                        res.extend(sts)
                    else:
                        self.raise_(s2, self.new_exc(s2, 'ValueError'))
                return res
            raise Unsupported('unpack of %r' % (v,))
        if isinstance(target, ast.Attribute):
            res = []
            for st2, recv in self.eval(target.value, st):
                if isinstance(recv, InstV):
                    st2.heap[recv.oid][target.attr] = v
                    st2.ghost.setdefault('writes', [])
                    st2.ghost['writes'] = st2.ghost['writes'] + [(recv.oid, target.attr)]
                    res.append(st2)
                else:
                    h = self.ctx_hook('setattr_hook', st2, recv, target.attr, v)
                    if h is None:
                        raise Unsupported('attribute store on %r' % (recv,))
                    res.extend(h)
            return res
        if isinstance(target, ast.Subscript):
            res = []
            for st2, recv in self.eval(target.value, st):
                for st3, idx in self.eval(target.slice, st2):
                    res.extend(self.store_subscript(recv, idx, v, st3, target))
            return res
        raise Unsupported('assignment target %s' % type(target).__name__)

    def store_subscript(self, recv, idx, v, st, node):
        h = self.ctx_hook('store_subscript', st, recv, idx, v, node)
        if h is not None:
            return h
        if isinstance(recv, IntDictV) and isinstance(idx, IntV) and isinstance(v, ObjV):
            cell = st.heap[recv.oid]
            d0, s0, kt, vt = cell['dom'], cell['sto'], idx.t, v.t
            st.heap[recv.oid] = dict(cell, dom=lambda r: z3.If(r == kt, smt.T, d0(r)),
                                     sto=lambda r: z3.If(r == kt, vt, s0(r)))
            st.ghost['dict_writes'] = st.ghost.get('dict_writes', ()) + ((recv.oid, idx.t, v.t),)
            return [st]
        if isinstance(recv, InstV) and recv.oid != self.self_oid:
            return [s2 for s2, _ in self.call_method(recv, '__setitem__', [idx, v], {}, st, node)]
        if isinstance(recv, CellListV) and isinstance(idx, IntV) and z3.is_int_value(idx.t):
            items = list(st.heap[recv.oid]['items'])
            items[idx.t.as_long()] = v
            st.heap[recv.oid]['items'] = items
            return [st]
        raise Unsupported('subscript store on %r' % (recv,))

    def ctx_hook(self, name, *args):
        f = getattr(self.ctx, name, None)
        if f is None:
            return None
        return f(self, *args)

    # ---- try / with
    def stmt_Try(self, s, st):
        outs = self.exec_block(s.body, st)
        res = []
        for o in outs:
            if o.kind == 'raise':
                remaining = o.st
                alive = True
                for h in s.handlers:
                    if h.type is None:
                        m = smt.T
                        stm = remaining
                        rest = None
                    else:
                        conds = self.match_handler(o.exc, h.type, remaining)
                        m = conds
                        stm = None
                    if h.type is None:
                        res.extend(self.run_handler(h, stm, o.exc))
                        alive = False
                        break
                    sides = self.branch(remaining, m)
                    nxt = None
                    for stx, side in sides:
                        if side:
                            res.extend(self.run_handler(h, stx, o.exc))
                        else:
                            nxt = stx
                    if nxt is None:
                        alive = False
                        break
                    remaining = nxt
                if alive:
                    res.append(Outcome('raise', remaining, exc=o.exc))
            elif o.kind == 'normal' and s.orelse:
                res.extend(self.exec_block(s.orelse, o.st))
            else:
                res.append(o)
        if s.finalbody:
            final = []
            for o in res:
                st0 = o.st
                if o.kind == 'raise':
                    st0 = st0.fork()
                    st0.cur_exc = st0.cur_exc + [o.exc]
                for f in self.exec_block(s.finalbody, st0):
                    if f.kind == 'normal':
                        stf = f.st
                        if o.kind == 'raise':
                            stf.cur_exc = stf.cur_exc[:-1]
                        final.append(Outcome(o.kind, stf, value=o.value, exc=o.exc))
                    else:
                        final.append(f)
            res = final
        return res

    def run_handler(self, h, st, exc):
        st = st.fork()
        if h.name:
            st.env[h.name] = exc
        st.cur_exc = st.cur_exc + [exc]
        outs = self.exec_block(h.body, st)
        for o in outs:
            o.st.cur_exc = o.st.cur_exc[:-1]
        return outs

    def match_handler(self, exc, typ_node, st):
        """z3 Bool: does `except <typ>` catch exc."""
        res = self.eval(typ_node, st)
        if len(res) != 1:
            raise Unsupported('except clause expression forks')
        _, tv = res[0]
        return self.exc_matches(exc, tv)

    def exc_matches(self, exc, tv):
        if isinstance(tv, ClassV):
            return smt.SUB(smt.CLS(exc.t), self.hier.const(tv.name))
        if isinstance(tv, TupleV):
            return z3.Or(*[self.exc_matches(exc, x) for x in tv.items]) if tv.items else smt.F
        if isinstance(tv, ExcSpecV):
            return smt.CATCH(tv.t, exc.t)
        raise Unsupported('except spec %r' % (tv,))

    def stmt_With(self, s, st):
        """`with cm as x:` for context managers that do not swallow exceptions (executors,
        pools, files): enter binds x, the body runs, the contract's with_exit hook records
        the exit for every way of leaving the block."""
        h = self.ctx_hook('with_stmt', s, st)
        if h is not None:
            return h
        if len(s.items) != 1:
            raise Unsupported('with statement with several items')
        item = s.items[0]
        res = []
        for st2, cm in self.eval(item.context_expr, st):
            ent = self.ctx_hook('with_enter', st2, cm)
            if ent is None:
                raise Unsupported('with statement on %r' % (cm,))
            for st3, val in ent:
                sts = [st3]
                if item.optional_vars is not None:
                    sts = self.assign(item.optional_vars, val, st3)
                for st4 in sts:
                    for o in self.exec_block(s.body, st4):
                        self.ctx_hook('with_exit', o.st, cm, o)
                        res.append(o)
        return res

    def stmt_FunctionDef(self, s, st):
        c = ClosureV(s, None, s.name)
        c.decorators = [ast.unparse(d) for d in s.decorator_list]
        st.env[s.name] = c
        return [Outcome('normal', st)]

    # ---- yield
    def do_yield(self, node, st):
        outs = []
        vals = self.eval(node.value, st) if node.value is not None else [(st, NONE)]
        for st2, v in vals:
            outs.extend(self.yield_value(st2, v, node))
        return outs

    def yield_value(self, st, v, node=None):
        if st.out_n is None:
            raise Unsupported('yield outside generator run')
        S = SView(self, st, None)
        for name, goal in self.ctx.on_yield(S, v):
            self.oblige('yield@%s:%s' % (self.where(node), name), st, goal, 'yield')
        st = st.fork()
        st.out_n = st.out_n + 1
        st = self.ctx.after_yield(self, st)
        outs = [Outcome('normal', st)]
        if self.ctx.model_close:
            stc = st.fork()
            e = self.new_exc(stc, 'GeneratorExit')
            stc.ghost['consumer_closed'] = e       # ghost: THIS GeneratorExit is the consumer's close(), not an exception of user code
            outs.append(Outcome('raise', stc, exc=e))
        return outs

    def where(self, node):
        if node is None:
            return '?'
        # position inside the function, not in the file: robust against edits elsewhere
        return 'L+%d' % (node.lineno - self.fn.lineno)

    def do_yield_from(self, node, st):
        if st.out_n is None:
            raise Unsupported('yield from in a function whose contract does not describe a generator')
        outs = []
        for st2, it in self.eval(node.value, st):
            outs.extend(self.run_loop(node, st2, it, target=None, body=None, yield_each=True))
        return outs

    # ---- loops
    def stmt_For(self, s, st):
        outs = []
        for st2, it in self.eval(s.iter, st):
            outs.extend(self.run_loop(s, st2, it, target=s.target, body=s.body))
        return outs

    def stmt_While(self, s, st):
        return self.run_loop(s, st, None, target=None, body=s.body, while_test=s.test)

    def iter_descr(self, it, st):
        """-> (length or None, elem(k)->list[Out]) describing iteration over value `it`."""
        hier = self.hier
        if isinstance(it, SymSeqV):
            return it.length, lambda k: [Out(smt.T, value=it.at(k))]
        if isinstance(it, DSTupleV):
            return it.m, lambda k: [Out(smt.T, value=it.at(k))]
        if isinstance(it, TupleV):
            return None, None     # concrete: unrolled by caller
        if isinstance(it, RangeV):
            return it.n, lambda k: [Out(smt.T, value=IntV(it.start + k))]
        if isinstance(it, ListV):
            return z3.Length(it.seq), lambda k: [Out(smt.T, value=ObjV(it.seq[k]))]
        if isinstance(it, (DSRefV, InstV)):
            view = self.view_of(it, st)
            if not z3.is_true(z3.simplify(view.iter_ok)):
                r = self.ds_iter(view, BoolV(False), st)
                if len(r) != 1:
                    raise Unsupported('iteration over a dataset whose value iteration may be refused '
                                      '(state the case in the variant requires)')
                return self._stream_descr(r[0][1].view)
            sv = views.iter_stream(view, False)
            return self._stream_descr(sv)
        if isinstance(it, StreamV):
            return self._stream_descr(it.view)
        if isinstance(it, GenStreamV):
            return it.length, it.elem
        if isinstance(it, NdArrV):
            # numpy iteration reads the live buffer: element k is the content at the moment it is read
            n = st.heap[it.oid]['n']

            def el(k, it=it):
                cur = getattr(self, 'live_state', None) or st
                return [Out(smt.T, value=IntV(cur.heap[it.oid]['f'](k)))]
            return n, el
        if isinstance(it, (ObjV, OpaqueV)):
            h = self.ctx_hook('iter_obj_descr', st, it)
            if h is not None:
                return h
        if isinstance(it, IterV):
            cell = st.heap[it.oid]
            if z3.is_true(z3.simplify(cell['pos'].t == 0)) and z3.is_false(z3.simplify(cell['done'].t)):
                return self._stream_descr(cell['stream'].view)     # a fresh iterator: its whole stream
            raise Unsupported('for-loop over a partly consumed iterator')
        h = self.ctx_hook('iter_obj_descr', st, it)
        if h is not None:
            return h
        raise Unsupported('iteration over %r' % (it,))

    def _stream_descr(self, sv):
        def elem(k):
            a = Out(z3.Not(sv.raises(k)), value=sv.val(k), tag='elem')
            b = Out(sv.raises(k), exc=ExcV(sv.exc(k)), tag='elem-raises')
            a.log = b.log = ('pull', sv.desc, k)
            return [a, b]
        return sv.n(), elem

    def view_of(self, v, st):
        if isinstance(v, DSRefV):
            return views.AbsView(v.t)
        if isinstance(v, InstV):
            vw = self.ctx.self_view(self, st) if v.oid == self.self_oid else None
            if vw is None:
                raise Unsupported('no view for instance %r' % (v,))
            return vw
        if isinstance(v, StageV) and hasattr(v, 'view'):
            return v.view
        raise Unsupported('no dataset view for %r' % (v,))

    def run_loop(self, node, st, it, target, body, while_test=None, yield_each=False):
        ordinal = self.ordinals.get(node)
        # concrete tuples are unrolled (statically known arity)
        if it is not None and isinstance(it, TupleV):
            outs = [Outcome('normal', st)]
            for x in it.items:
                nxt = []
                for o in outs:
                    if o.kind != 'normal':
                        nxt.append(o)
                        continue
                    for s2 in self.assign(target, x, o.st):
                        for b in self.exec_block(body, s2):
                            if b.kind == 'continue':
                                nxt.append(Outcome('normal', b.st))
                            else:
                                nxt.append(b)
                outs = nxt
            return [Outcome('normal', o.st) if o.kind == 'break' else o for o in outs]

        inv = self.ctx.loops.get(ordinal)
        if inv is None and getattr(node, 'iter', None) is not None:
            # alternatively an invariant may be keyed by what the loop iterates over
            inv = self.ctx.loops.get('src:' + ast.unparse(node.iter))
        if inv is None:
            if yield_each:
                inv = 'auto-yield-from'
            else:
                raise Unsupported('loop %s (line +%d) has no invariant in the sidecar contract'
                                  % (ordinal, node.lineno - self.fn.lineno))
        length, elem = (None, None)
        if it is not None:
            length, elem = self.iter_descr(it, st)

        out_entry = st.out_n
        k0 = I(0)

        def inv_at(stx, k, proving=True):
            stx.loopk[ordinal] = k
            if inv == 'auto-yield-from':
                return stx.out_n == out_entry + k
            S = SView(self, stx, ordinal)
            S.out_entry = out_entry
            S.entry = SView(self, st, None)
            # universally quantified invariants may be stated at a fresh generic element when they are
            # the proof goal (universal introduction) and as a quantifier when they are assumed
            S.proving = proving
            return inv(S)

        def oblige_inv(tag, stx, formula, kind):
            # an invariant may be given as named conjuncts [(name, formula)]: one small obligation each
            if isinstance(formula, (list, tuple)):
                for nm, f in formula:
                    self.oblige('loop%s:%s:%s' % (ordinal, tag, nm), stx, f, kind)
            else:
                self.oblige('loop%s:%s' % (ordinal, tag), stx, formula, kind)

        def as_formula(formula):
            if isinstance(formula, (list, tuple)):
                return z3.And(*[f for _, f in formula]) if formula else smt.T
            return formula

        # 1. initiation
        st_init = st.fork()
        oblige_inv('init', st_init, inv_at(st_init, k0), 'inv-init')

        # 2. havoc
        stmts = body if body is not None else []
        names, mutated, self_fields = _assigned_names(stmts)
        if target is not None:
            tn, _, _ = _assigned_names([ast.Assign(targets=[target], value=ast.Constant(value=0))])
            # loop targets are (re)bound before use in every iteration
        hav = st.fork()
        for nme in sorted(names | mutated):
            if nme in hav.env:
                if isinstance(hav.env[nme], (QueueV, IterV)) and nme not in names:
                    continue      # reference stays, the heap cell is havocked below
                nv = self.ctx_hook('havoc_value', hav, nme, hav.env[nme])
                if nv is None:
                    nv = fresh_like(hav.env[nme], nme)
                if nv is not None and getattr(nv, 'fresh_len_nonneg', None) is not None:
                    hav.pc.append(nv.fresh_len_nonneg)
                if nv is None and isinstance(hav.env[nme], ListV) is False and isinstance(hav.env[nme], SymSeqV) is False:
                    pass
                if nv is None:
                    nv = self.ctx_hook('havoc_value', hav, nme, hav.env[nme])
                    if nv is None:
                        if nme in names and not (nme in mutated):
                            # value of unknown kind after an iteration: must be re-assigned
                            # before use; keep it out of the environment
                            hav.env.pop(nme)
                            continue
                        raise Unsupported('cannot havoc %s=%r in loop %s' % (nme, hav.env[nme], ordinal))
                hav.env[nme] = nv
        for fld in sorted(self_fields):
            if self.self_oid is not None and fld in hav.heap.get(self.self_oid, {}):
                cur = hav.heap[self.self_oid][fld]
                if isinstance(cur, CellListV):
                    hav.heap[cur.oid]['items'] = [fresh_like(x, '%s_%d' % (fld, ix))
                                                  for ix, x in enumerate(hav.heap[cur.oid]['items'])]
                    continue
                nv = fresh_like(hav.heap[self.self_oid][fld], 'self_' + fld)
                if nv is None:
                    raise Unsupported('cannot havoc field %s' % fld)
                hav.heap[self.self_oid][fld] = nv
        for nme in sorted(names | mutated):
            v = hav.env.get(nme)
            if isinstance(v, IterV):
                hav.heap[v.oid]['pos'] = IntV(smt.fresh('itpos', smt.Int))
                hav.heap[v.oid]['done'] = BoolV(smt.fresh('itdone', smt.Bool))
            if isinstance(v, QueueV):
                hav.heap[v.oid]['arr'] = smt.fresh('qarr', z3.ArraySort(smt.Int, smt.Obj))
                hav.heap[v.oid]['head'] = IntV(smt.fresh('qhead', smt.Int))
                hav.heap[v.oid]['tail'] = IntV(smt.fresh('qtail', smt.Int))
        for gk, gv in list(hav.ghost.items()):
            if isinstance(gv, IntV):
                hav.ghost[gk] = IntV(smt.fresh('g_' + gk, smt.Int))
            elif z3.is_expr(gv) and z3.is_array(gv):
                hav.ghost[gk] = smt.fresh('g_' + gk, gv.sort())
        self.ctx_hook('havoc_heap', hav, ordinal, names, mutated)
        if yield_each or _has_yield(stmts):
            hav.out_n = smt.fresh('out_n', smt.Int)
            hav.pc.append(hav.out_n >= 0)
        k = smt.fresh('k%s' % ordinal.replace('.', '_'), smt.Int)
        smt.FOLDS.note_index(k)
        smt.FOLDS.note_index(k + 1)
        if length is not None:
            smt.FOLDS.note_index(length)
        hav.pc.append(k >= 0)
        hav.pc.append(as_formula(inv_at(hav, k, proving=False)))
        if length is not None:
            hav.pc.append(k <= length)
        if elem is not None:
            # built-in strengthening, true of every iteration that reaches index k: no
            # earlier element raised (a raising element leaves the loop)
            for o in elem(k - 1):
                if o.exc is not None:
                    hav.pc.append(z3.Implies(k > 0, z3.Not(o.cond)))

        results = []

        # 3a. exit by exhaustion
        if while_test is None:
            if length is not None:
                ex = hav.fork(k == length)
                if self.feasible(ex):
                    results.append(Outcome('normal', ex))
        # 3b. one arbitrary iteration
        it_states = []
        if while_test is not None:
            self.sinks.append([])
            try:
                tv = self.eval(while_test, hav.fork())
            finally:
                raised = self.sinks.pop()
            results.extend(raised)
            for stt, v in tv:
                for stb, side in self.branch(stt, self.truth(v)):
                    if side:
                        it_states.append(stb)
                    else:
                        results.append(Outcome('normal', stb))
        else:
            base = hav.fork(k < length) if length is not None else hav.fork()
            if self.feasible(base):
                self.live_state = base      # iteration over a live buffer reads the current heap
                for o in elem(k):
                    for stb, side in self.branch(base.fork(*o.facts), o.cond):
                        if not side:
                            continue
                        if getattr(o, 'log', None) is not None:
                            self.log_effect(stb, o.log)
                        if o.exc is not None:
                            results.append(Outcome('raise', stb, exc=o.exc))
                        elif yield_each:
                            it_states.append((stb, o.value))
                        else:
                            for s3 in self.assign(target, o.value, stb):
                                it_states.append(s3)
                    # the conds of elem(k) are exhaustive by construction
        for entry in it_states:
            if yield_each:
                stb, val = entry
                bouts = self.yield_value(stb, val, node)
            else:
                bouts = self.exec_block(body, entry)
            for b in bouts:
                if b.kind in ('normal', 'continue'):
                    stn = b.st.fork()
                    oblige_inv('preserved', stn, inv_at(stn, k + 1), 'inv-pres')
                elif b.kind == 'break':
                    results.append(Outcome('normal', b.st))
                else:
                    results.append(b)
        return results

    # ------------------------------------------------------------------ expressions
    def eval(self, node, st):
        """-> list of (state, value) for normal evaluation; raising paths go to the sink."""
        m = getattr(self, 'expr_' + type(node).__name__, None)
        if m is None:
            raise Unsupported('expression %s at line %d' % (type(node).__name__, node.lineno))
        return m(node, st)

    def eval_list(self, nodes, st):
        res = [(st, [])]
        for n in nodes:
            nxt = []
            for s, vs in res:
                if isinstance(n, ast.Starred):
                    for s2, v in self.eval(n.value, s):
                        nxt.append((s2, vs + [('*', v)]))
                else:
                    for s2, v in self.eval(n, s):
                        nxt.append((s2, vs + [v]))
            res = nxt
        return res

    def expr_Constant(self, node, st):
        c = node.value
        if c is None:
            return [(st, NONE)]
        if isinstance(c, bool):
            return [(st, BoolV(c))]
        if isinstance(c, int):
            return [(st, IntV(c))]
        if isinstance(c, float):
            return [(st, RealV(z3.RealVal(repr(c))))]
        if isinstance(c, str):
            return [(st, StrV(c))]
        if c is Ellipsis:
            return [(st, OpaqueV('...'))]
        raise Unsupported('constant %r' % (c,))

    def expr_JoinedStr(self, node, st):
        return [(st, OpaqueStrV())]

    def expr_Name(self, node, st):
        if node.id in st.env:
            return [(st, st.env[node.id])]
        v = self.global_name(node.id, st)
        if v is None:
            raise Unsupported('unbound name %s (line %d)' % (node.id, node.lineno))
        return [(st, v)]

    GLOBAL_MODULES = {'np': 'numpy', 'numbers': 'numbers', 'operator': 'operator', 'itertools': 'itertools',
                      'collections': 'collections', 'functools': 'functools', 'pickle': 'pickle',
                      'textwrap': 'textwrap', 'LOG': 'LOG', 'queue': 'queue', 'threading': 'threading',
                      'sys': 'sys', 'os': 'os', 'concurrent': 'concurrent', 'contextlib': 'contextlib',
                      'time': 'time', 'datetime': 'datetime', 'weakref': 'weakref', 'json': 'json',
                      'typing': 'typing', 'copy': 'copy', 'lazy_dataset': 'lazy_dataset', 'logging': 'logging'}
    BUILTINS = {'len', 'isinstance', 'range', 'enumerate', 'zip', 'map', 'iter', 'next', 'tuple', 'list', 'set',
                'sorted', 'all', 'any', 'sum', 'int', 'float', 'callable', 'hasattr', 'repr', 'str', 'super',
                'object', 'dict', 'max', 'min', 'type', 'getattr', 'slice', 'bytes', 'memoryview', 'id',
                'print', 'abs', 'bool', 'open', 'staticmethod', 'reversed', 'frozenset'}

    def global_name(self, name, st):
        if name in self.GLOBAL_MODULES:
            return ModuleV(self.GLOBAL_MODULES[name])
        if name in self.hier.bases:
            return ClassV(name)
        if '%s:%s' % (self.mod, name) in self.src.classes:
            return ClassV(name)
        if '%s:%s' % (self.mod, name) in self.src.funcs:
            return BuiltinV('repo.' + name)
        if name in self.BUILTINS:
            return BuiltinV(name)
        if name == 'deepcopy':
            return BuiltinV('copy.deepcopy')
        imp = getattr(self.src, 'module_imports', {}).get(self.mod, {}).get(name)
        if imp is not None and imp[0] == 'module':
            return ModuleV(imp[1])
        if name == 'Path':
            return ClassV('Path')
        return None

    def expr_Attribute(self, node, st):
        res = []
        for st2, recv in self.eval(node.value, st):
            res.extend(self.getattr_(recv, node.attr, st2, node))
        return res

    def getattr_(self, recv, attr, st, node=None):
        h = self.ctx_hook('getattr_hook', st, recv, attr, node)
        if h is not None:
            return h
        if isinstance(recv, InstV):
            fields = st.heap[recv.oid]
            if attr in fields:
                return [(st, fields[attr])]
            # property or method of the class (resolved through the MRO in the source)
            q = self.src.mro_lookup(self.mod, recv.cls, attr)
            if q is not None and self.src.is_property(q):
                return self.call_property(recv, attr, q, st)
            if q is not None:
                return [(st, BoundV(recv, attr))]
            ca = self.class_attr_lookup(recv.cls, attr)
            if ca is not None:
                if self.instance_state(recv.cls, attr):
                    # a class-level default of an attribute that methods assign on the instance (`_n = 0` ... `self._n += 1`):
                    # per-instance state the contract's fields() does not describe.  The default is only its INITIAL value;
                    # a method contract holds for every reachable instance, so the value is arbitrary (of the default's type)
                    if isinstance(ca, ast.Constant) and type(ca.value) is int:
                        v = IntV(smt.fresh('inst_' + attr, smt.Int))
                    elif isinstance(ca, ast.Constant) and type(ca.value) is bool:
                        v = BoolV(smt.fresh('inst_' + attr, smt.Bool))
                    else:
                        raise Unsupported('instance state %s.%s (class default, assigned by methods) is not described by the contract'
                                          % (recv.cls, attr))
                    fields[attr] = v
                    return [(st, v)]
                return self.eval(ca, st)
            if attr == '__class__':
                return [(st, ClassV(recv.cls))]
            raise Unsupported('attribute %s of %r' % (attr, recv))
        if isinstance(recv, DSRefV):
            view = views.AbsView(recv.t)
            h2 = self.ctx_hook('ds_getattr', st, recv, attr)
            if h2 is not None:
                return h2
            if attr == 'indexable':
                return [(st, BoolV(view.idx))]
            if attr == 'ordered':
                return [(st, BoolV(view.ord_))]
            return [(st, BoundV(recv, attr))]
        if isinstance(recv, NdArrV):
            cell = st.heap[recv.oid]
            if attr == 'ndim':
                return [(st, IntV(1))]
            if attr == 'size':
                return [(st, IntV(cell['n']))]
            if attr == 'dtype':
                return [(st, OpaqueV('int-dtype'))]
            return [(st, BoundV(recv, attr))]
        if isinstance(recv, OpaqueV) and recv.what == 'int-dtype' and attr == 'kind':
            return [(st, StrV('i'))]
        if isinstance(recv, ModuleV):
            return [(st, self.module_attr(recv, attr))]
        if isinstance(recv, (ListV, SymSeqV, TupleV, CellListV, BuiltinV, ClassV, ClosureV, FnV, ObjV,
                             StageV, IterV, StreamV, ExcV, StrV, KeyV, OpaqueV, DictV, DSTupleV, SymDictV, SuperV, QueueV, IntDictV,
                             RngV, NdArrV,
                             GenStreamV)):
            if isinstance(recv, ClassV) and attr == '__name__':
                return [(st, OpaqueStrV())]
            if isinstance(recv, SymSeqV) and attr == 'ndim':
                return [(st, IntV(1))]
            return [(st, BoundV(recv, attr))]
        h3 = self.ctx_hook('any_getattr', st, recv, attr)
        if h3 is not None:
            return h3
        raise Unsupported('attribute %s of %r' % (attr, recv))

    def instance_state(self, cls, attr):
        seen = set()
        c = cls
        while c and c not in seen:
            seen.add(c)
            key = '%s:%s' % (self.mod, c)
            if key not in self.src.classes:
                return False
            if attr in self.src.assigned_self_attrs(key):
                return True
            b = self.src.class_bases(key)
            c = b[0] if b else None
        return False

    def class_attr_lookup(self, cls, attr):
        seen = set()
        c = cls
        while c and c not in seen:
            seen.add(c)
            key = '%s:%s' % (self.mod, c)
            if key not in self.src.classes:
                return None
            v = self.src.class_attr(key, attr)
            if v is not None:
                return v
            b = self.src.class_bases(key)
            c = b[0] if b else None
        return None

    def module_attr(self, mod, attr):
        full = '%s.%s' % (mod.name, attr)
        if full in ('numbers.Integral', 'collections.UserList', 'queue.Empty', 'collections.abc.Generator'):
            return ClassV({'numbers.Integral': 'Integral', 'queue.Empty': 'Empty'}.get(full, full))
        if full in ('numpy.random', 'concurrent.futures', 'numpy.ndarray', 'collections.abc'):
            if full == 'numpy.ndarray':
                return ClassV('ndarray')
            return ModuleV(full)
        return BuiltinV(full)

    def call_property(self, recv, attr, qual, st):
        if recv.oid == self.self_oid and attr in ('indexable', 'ordered') and attr not in self.ctx.inline:
            view = self.ctx.self_view(self, st)
            if view is not None:
                return [(st, BoolV(view.idx if attr == 'indexable' else view.ord_))]
        return self.inline_call(qual, [recv], {}, st)

    # ---- calls
    def expr_Call(self, node, st):
        if isinstance(node.func, ast.Attribute) and node.func.attr == 'join' \
                and isinstance(node.func.value, ast.Constant) and isinstance(node.func.value.value, str):
            # '<sep>'.join(...): message text, dropped (DESIGN section 1)
            return [(st, OpaqueStrV())]
        res = []
        for st2, f in self.eval(node.func, st):
            for st3, args in self.eval_list(node.args, st2):
                kws = [(k.arg, k.value) for k in node.keywords]
                for st4, kvals in self.eval_list([v for _, v in kws], st3):
                    kwargs = {}
                    for (name, _), v in zip(kws, kvals):
                        if name is None:
                            kwargs['**'] = v
                        else:
                            kwargs[name] = v
                    res.extend(self.call(f, args, kwargs, st4, node))
        return res

    def apply_outs(self, st, outs):
        """Fork the state over interface outcomes; raising ones go to the sink."""
        res = []
        for o in outs:
            c = z3.simplify(o.cond)
            if z3.is_false(c):
                continue
            if not self.feasible(st, c):
                continue
            s2 = st.fork(c, *o.facts)
            if o.exc is not None:
                self.raise_(s2, o.exc)
            else:
                res.append((s2, o.value))
        return res

    def call(self, f, args, kwargs, st, node=None):
        h = self.ctx.resolve_call(self, st, f, args, kwargs, node)
        if h is not None:
            return h
        if isinstance(f, NumFnV):
            if len(args) != 1 or not isinstance(args[0], ObjV):
                raise Unsupported('numeric user function applied to %r' % (args,))
            return [(st, RealV(NUMV(f.t, args[0].t)))]
        if isinstance(f, FnV):
            args, kwargs = self.flatten_args(args, kwargs)
            return self.call_userfn(f, args, kwargs, st)
        if isinstance(f, BuiltinV):
            return self.call_builtin(f.name, args, kwargs, st, node)
        if isinstance(f, BoundV):
            return self.call_method(f.recv, f.name, args, kwargs, st, node)
        if isinstance(f, ClassV):
            return self.call_class(f, args, kwargs, st, node)
        if isinstance(f, ClosureV):
            return self.call_closure(f, args, kwargs, st)
        if isinstance(f, ItemGetterV):
            return self.call_itemgetter(f, args, st)
        if isinstance(f, (BoolV, IntV, RealV, NoneV, StrV)):
            # calling a non-callable builtin value: TypeError ('bool' object is not callable)
            self.raise_(st, self.new_exc(st, 'TypeError'))
            return []
        raise Unsupported('call of %r' % (f,))

    def call_userfn(self, f, args, kwargs, st):
        if len(args) != 1 or kwargs or not isinstance(args[0], ObjV):
            raise Unsupported('user function applied to %r %r' % (args, kwargs))
        x = args[0].t
        self.log_effect(st, ('app', f.t, x))
        outs = [Out(z3.Not(smt.APP_R(f.t, x)), value=ObjV(smt.APP_V(f.t, x))),
                Out(smt.APP_R(f.t, x), exc=ExcV(smt.APP_E(f.t, x)))]
        return self.apply_outs(st, outs)

    def symbolic_apply(self, f, argvals, st):
        """Outcomes of calling `f(*argvals)` from state st, as interface Outs (condition =
        what the call added to the path condition).  Effects on the state are dropped: only
        for calls that are pure apart from the effect log."""
        probe = st.fork()
        base = len(probe.pc)
        res, raised = self.with_sink(lambda: self.call(f, list(argvals), {}, probe))
        outs = []
        for s2, v in res:
            extra = s2.pc[base:]
            outs.append(Out(z3.And(*extra) if extra else smt.T, value=v))
        for o in raised:
            extra = o.st.pc[base:]
            outs.append(Out(z3.And(*extra) if extra else smt.T, exc=o.exc))
        return outs

    def log_effect(self, st, ev):
        st.ghost['log'] = st.ghost.get('log', ()) + (ev,)

    def flatten_args(self, args, kwargs):
        out = []
        for a in args:
            if isinstance(a, tuple) and a and a[0] == '*':
                v = a[1]
                if isinstance(v, TupleV):
                    out.extend(v.items)
                elif isinstance(v, ListV) and z3.is_true(z3.simplify(z3.Length(v.seq) == 0)):
                    pass
                else:
                    out.append(a)
            else:
                out.append(a)
        kw = dict(kwargs)
        if '**' in kw and isinstance(kw['**'], EmptyDictV):
            del kw['**']
        if '**' in kw and isinstance(kw['**'], KwArgsV):
            ka = kw.pop('**')
            for k, v in ka.items.items():
                if k in kw:
                    raise Unsupported('keyword %s given twice' % k)
                kw[k] = v
            if ka.rest is not None:
                kw['**'] = ka.rest
        return out, kw

    def call_closure(self, f, args, kwargs, st):
        if isinstance(f.node, ast.Lambda):
            params = [a.arg for a in f.node.args.args]
            if len(params) != len(args) or kwargs or f.node.args.vararg or f.node.args.kwarg:
                raise Unsupported('lambda call shape')
            saved = dict(st.env)
            s2 = st.fork()
            s2.env = dict(getattr(f, 'def_env', None) or st.env)
            for p_, a_ in zip(params, args):
                s2.env[p_] = a_
            res = self.eval(f.node.body, s2)
            for s3, _ in res:
                s3.env = dict(saved)
            return res
        args, kwargs = self.flatten_args(args, kwargs)
        saved_ord, saved_fn = self.ordinals, self.fn
        sub = _loop_ordinals(f.node)
        self.ordinals = dict(self.ordinals)
        for nd, o in sub.items():
            self.ordinals[nd] = '%s.%s' % (f.node.name, o)
        try:
            outs = self.run_body(f.node, args, kwargs, st, closure_env=None)
        finally:
            self.ordinals = saved_ord
        res = []
        for o in outs:
            if o.kind == 'return':
                res.append((o.st, o.value))
            elif o.kind == 'normal':
                res.append((o.st, NONE))
            elif o.kind == 'raise':
                self.sinks[-1].append(o)
            else:
                raise Unsupported('outcome %s from call' % o.kind)
        return res

    def inline_call(self, qual, args, kwargs, st):
        fn = self.src.func(qual)
        if not hasattr(self, 'inlined_quals'):
            self.inlined_quals = {}
        self.inlined_quals[qual] = self.src.source_hash(qual)
        saved = (self.fn, self.ordinals)
        outs = self.run_body(fn, args, kwargs, st, fresh_env=True)
        self.fn, self.ordinals = saved
        res = []
        for o in outs:
            if o.kind == 'return':
                res.append((o.st, o.value))
            elif o.kind == 'normal':
                res.append((o.st, NONE))
            elif o.kind == 'raise':
                self.sinks[-1].append(o)
            else:
                raise Unsupported('outcome %s from inlined call' % o.kind)
        return res

    def run_body(self, fn, args, kwargs, st, fresh_env=False, closure_env=None):
        """Execute a function body with bound parameters; locals of the caller are saved
        and restored (closures see the defining environment by name)."""
        from .extract import body_without_docstring
        saved_env = st.env
        env = {} if fresh_env else dict(st.env)
        params = [a.arg for a in fn.args.args]
        defaults = fn.args.defaults
        dmap = {}
        for p, d in zip(params[len(params) - len(defaults):], defaults):
            dmap[p] = d
        pos = [a for a in args if not (isinstance(a, tuple) and a and a[0] == '*')]
        if len(pos) != len(args):
            raise Unsupported('starred call of repo function')
        bound = {}
        for p, a in zip(params, pos):
            bound[p] = a
        if fn.args.vararg is not None:
            bound[fn.args.vararg.arg] = TupleV(pos[len(params):])
        elif len(pos) > len(params):
            raise Unsupported('too many args')
        if fn.args.kwarg is not None:
            _, kwargs = self.flatten_args([], kwargs)
            known = set(params) | {a.arg for a in fn.args.kwonlyargs}
            extra = {k: v for k, v in kwargs.items() if k not in known and k != '**'}
            rest = kwargs.get('**')
            kwargs = {k: v for k, v in kwargs.items() if k in known}
            bound[fn.args.kwarg.arg] = KwArgsV(extra, rest) if (extra or rest is not None) else EmptyDictV()
        for k, v in kwargs.items():
            bound[k] = v
        for a, d in zip(fn.args.kwonlyargs, fn.args.kw_defaults):
            if a.arg not in bound:
                dmap[a.arg] = d
                params = params + [a.arg]
        st2 = st.fork()
        for p in params:
            if p not in bound:
                if p in dmap:
                    r = self.eval(dmap[p], st2)
                    if len(r) != 1:
                        raise Unsupported('default forks')
                    bound[p] = r[0][1]
                else:
                    raise Unsupported('missing argument %s' % p)
        env.update(bound)
        st2.env = env
        saved_fn, saved_ord = self.fn, self.ordinals
        if fresh_env:
            self.fn = fn
            self.ordinals = _loop_ordinals(fn)
        outs = self.exec_block(body_without_docstring(fn), st2)
        self.fn, self.ordinals = saved_fn, saved_ord
        for o in outs:
            if fresh_env:
                o.st.env = dict(saved_env)
            else:
                # closure: writes to nonlocal names stay visible, parameters disappear
                ne = dict(o.st.env)
                for p in bound:
                    if p in saved_env:
                        ne[p] = saved_env[p]
                    else:
                        ne.pop(p, None)
                o.st.env = ne
        return outs

    def call_class(self, c, args, kwargs, st, node):
        if c.name in self.hier.bases or c.name in ('Exception',):
            s2 = st.fork()
            return [(s2, self.new_exc(s2, c.name))]
        if '%s:%s' % (self.mod, c.name) in self.src.classes:
            args, kwargs = self.flatten_args(args, kwargs)
            return [(st, StageV(c.name, args, kwargs))]
        raise Unsupported('constructor %s' % c.name)

    def call_method(self, recv, name, args, kwargs, st, node):
        hm0 = self.ctx_hook('any_method', st, recv, name, args, kwargs)
        if hm0 is not None:
            return hm0
        if isinstance(recv, (DSRefV,)) or (isinstance(recv, InstV) and recv.oid == self.self_oid
                                           and name not in self.ctx.inline
                                           and name in ('keys', '__getitem__', '__len__', '__iter__', 'copy')):
            return self.call_ds_method(recv, name, args, kwargs, st, node)
        if isinstance(recv, InstV):
            q = self.src.mro_lookup(self.mod, recv.cls, name)
            if q is None:
                raise Unsupported('method %s.%s' % (recv.cls, name))
            if self.src.is_staticmethod(q):
                return self.inline_call(q, args, kwargs, st)
            return self.inline_call(q, [recv] + args, kwargs, st)
        if isinstance(recv, SuperV):
            q = self.src.mro_lookup(self.mod, recv.base, name)
            if q is None:
                raise Unsupported('super().%s' % name)
            return self.inline_call(q, [recv.inst] + args, kwargs, st)
        if isinstance(recv, StageV):
            h = self.ctx_hook('stage_method', st, recv, name, args, kwargs)
            if h is not None:
                return h
        hm = self.ctx_hook('any_method', st, recv, name, args, kwargs)
        if hm is not None:
            return hm
        if isinstance(recv, NdArrV) and name in ('min', 'max') and not args:
            cell = st.heap[recv.oid]
            n, f = cell['n'], cell['f']
            res = []
            for s2, empty in self.branch(st, n <= 0):
                if empty:
                    self.raise_(s2, self.new_exc(s2, 'ValueError'))
                    continue
                mval = smt.fresh('arr_' + name, smt.Int)
                w = smt.fresh('arr_arg' + name, smt.Int)
                j = z3.Int('_mmj')
                s2.pc += [w >= 0, w < n, f(w) == mval,
                          z3.ForAll([j], z3.Implies(z3.And(j >= 0, j < n), (f(j) >= mval) if name == 'min' else (f(j) <= mval)),
                                    patterns=[f(j)])]
                res.append((s2, IntV(mval)))
            return res
        if isinstance(recv, RngV):
            h = self.ctx_hook('rng_method', st, recv, name, args, kwargs)
            if h is not None:
                return h
        if isinstance(recv, QueueV):
            return self.queue_method(recv, name, args, kwargs, st, node)
        if isinstance(recv, OpaqueV):
            h = self.ctx_hook('opaque_method', st, recv, name, args, kwargs)
            if h is not None:
                return h
        if isinstance(recv, ObjV):
            h = self.ctx_hook('obj_method', st, recv, name, args, kwargs)
            if h is not None:
                return h
        if isinstance(recv, ListV):
            return self.list_method(recv, name, args, st, node)
        if isinstance(recv, SymSeqV):
            return self.seq_method(recv, name, args, st, node)
        if isinstance(recv, BuiltinV):
            return self.call_builtin(recv.name + '.' + name, args, kwargs, st, node)
        if isinstance(recv, ClassV) and name == '__new__' and len(args) == 1 and isinstance(args[0], ClassV) \
                and '%s:%s' % (self.mod, args[0].name) in self.src.classes:
            oid = self.new_oid()
            st.heap[oid] = {}
            st.ghost['new_objects'] = st.ghost.get('new_objects', ()) + (oid,)
            return [(st, InstV(oid, args[0].name))]
        if isinstance(recv, ClassV):
            return self.call_builtin('class:' + recv.name + '.' + name, args, kwargs, st, node)
        if isinstance(recv, SymDictV) and name == 'keys' and not args:
            return [(st, recv.keys_seq('dict_keys'))]
        if isinstance(recv, ExcV) and name == 'with_traceback':
            return [(st, recv)]
        raise Unsupported('method %s of %r' % (name, recv))

    def call_ds_method(self, recv, name, args, kwargs, st, node):
        view = self.view_of(recv, st)
        if name == 'keys':
            self.log_effect(st, ('keys', view.name))
            return self.apply_outs(st, views.call_keys(view, self.hier))
        if name == '__len__':
            return self.apply_outs(st, views.call_len(view, self.hier))
        if name == '__getitem__':
            return self.ds_getitem(view, args[0], st)
        if name == '__iter__':
            wk = kwargs.get('with_key', args[0] if args else BoolV(False))
            # a generator object: it is its own iterator (next() works on it)
            return [(s2, self.make_iter(s2, v)) for s2, v in self.ds_iter(view, wk, st)]
        if name == 'copy':
            return self.ds_copy(recv, view, args, kwargs, st)
        raise Unsupported('dataset method %s' % name)

    def ds_getitem(self, view, item, st):
        if isinstance(item, IntV):
            self.log_effect(st, ('get', view.name, views.norm_index(view, item.t)))
            return self.apply_outs(st, views.call_getitem_int(view, item.t, self.hier))
        if isinstance(item, KeyV):
            self.log_effect(st, ('getkey', view.name, item.t))
            return self.apply_outs(st, views.call_getitem_key(view, item.t, self.hier))
        h = self.ctx_hook('ds_getitem_other', st, view, item)
        if h is not None:
            return h
        raise Unsupported('dataset[%r]' % (item,))

    def ds_iter(self, view, with_key, st):
        """d.__iter__(with_key=...) / iter(d): a lazy stream; nothing is evaluated yet."""
        if not isinstance(with_key, BoolV):
            raise Unsupported('with_key of unknown kind')
        res = []
        for s2, side in self.branch(st, with_key.t):
            if side:
                for s3, has in self.branch(s2, view.items):
                    if has:
                        res.append((s3, StreamV(views.iter_stream(view, True), True)))
                    else:
                        res.append((s3, StreamV(views.refused_items_stream(view), True, 'items-refused')))
            else:
                for s3, ok in self.branch(s2, view.iter_ok):
                    if ok:
                        res.append((s3, StreamV(views.iter_stream(view, False), False)))
                    else:
                        res.append((s3, StreamV(views.refused_values_stream(view), False, 'iter-refused')))
        return res

    def ds_copy(self, recv, view, args, kwargs, st):
        """I-copy for an abstract dataset: a new reference CP(d, c) with the same view (the
        axioms of CP are global, see copy_axioms)."""
        if not isinstance(recv, DSRefV):
            raise Unsupported('copy of self by contract')
        c = st.ghost.get('ncopies', 0)
        freeze = kwargs.get('freeze', args[0] if args else BoolV(False))
        if not isinstance(freeze, BoolV):
            raise Unsupported('copy(freeze=%r)' % (freeze,))
        d2 = smt.CP(recv.t, I(c))
        if not self.used_copy:
            self.used_copy = True
            self.base_axioms = self.base_axioms + self.copy_axioms()
        st2 = st.fork()
        st2.ghost['ncopies'] = c + 1
        st2.ghost['copies'] = st2.ghost.get('copies', ()) + ((c, freeze.t),)
        return [(st2, DSRefV(d2))]

    @staticmethod
    def copy_axioms():
        d = z3.Const('_cd', smt.DS)
        c = z3.Int('_cc')
        i = z3.Int('_ci')
        k = z3.Const('_ck', smt.Key)
        cp = smt.CP(d, c)
        ax = [z3.ForAll([d, c], cp != d, patterns=[cp])]
        for f in (smt.N, smt.IDX, smt.LEN, smt.KEYS, smt.ITEMS, smt.ORD, smt.IREF, smt.IEXC, smt.KEYS_UNIMPL):
            ax.append(z3.ForAll([d, c], f(cp) == f(d), patterns=[f(cp)]))
        for f in (smt.RAISES, smt.VAL, smt.EXC, smt.KEY):
            ax.append(z3.ForAll([d, c, i], f(cp, i) == f(d, i), patterns=[f(cp, i)]))
        ax.append(z3.ForAll([d, c, k], smt.KPOS(cp, k) == smt.KPOS(d, k), patterns=[smt.KPOS(cp, k)]))
        return ax

    # ---- builtins
    def call_builtin(self, name, args, kwargs, st, node):
        m = getattr(self, 'bi_' + name.replace('.', '_').replace(':', '_'), None)
        if m is None:
            h = self.ctx_hook('builtin_hook', st, name, args, kwargs, node)
            if h is not None:
                return h
            if name.startswith('repo.') and self.src.has_func('%s:%s' % (self.mod, name[5:])):
                # module-level helper of the repository: executed inline (its own source)
                args2, kw2 = self.flatten_args(args, kwargs)
                return self.inline_call('%s:%s' % (self.mod, name[5:]), args2, kw2, st)
            if name.startswith('LOG.') or name.startswith('textwrap.') or name in ('repr', 'str', 'print') \
                    or name.startswith('warnings.'):
                return [(st, OpaqueStrV())]
            if name == 'type' and len(args) == 1:
                return [(st, OpaqueV('type-of-a-value'))]       # only ever used inside messages
            raise Unsupported('builtin %s' % name)
        return m(args, kwargs, st, node)

    def bi_len(self, args, kwargs, st, node):
        (x,) = args
        if isinstance(x, (DSRefV,)) or (isinstance(x, InstV) and x.oid == self.self_oid
                                        and '__len__' not in self.ctx.inline):
            return self.call_ds_method(x, '__len__', [], {}, st, node)
        if isinstance(x, InstV):
            return self.call_method(x, '__len__', [], {}, st, node)
        if isinstance(x, ListV):
            return [(st, IntV(z3.Length(x.seq)))]
        if isinstance(x, SymSeqV):
            return [(st, IntV(x.length))]
        if isinstance(x, TupleV):
            return [(st, IntV(len(x.items)))]
        if isinstance(x, DSTupleV):
            return [(st, IntV(x.m))]
        if isinstance(x, SetV):
            return [(st, IntV(x.card))]
        if isinstance(x, SymDictV):
            return [(st, IntV(x.n))]
        if isinstance(x, NdArrV):
            return [(st, IntV(st.heap[x.oid]['n']))]
        if isinstance(x, RangeV):
            return [(st, IntV(x.n))]
        h = self.ctx_hook('len_hook', st, x)
        if h is not None:
            return h
        raise Unsupported('len(%r)' % (x,))

    KIND_CLASSES = {
        'int': {'Integral', 'int', 'object'},
        'bool': {'Integral', 'int', 'bool', 'object'},
        'key': {'str', 'object'},
        'str': {'str', 'object'},
        'tuple': {'tuple', 'object'},
        'none': {'object'},
        'real': {'float', 'object'},
    }

    def isinstance_kind(self, v, cname, st):
        """python bool or None (unknown)."""
        if cname == 'Iterable':        # typing.Iterable / collections.abc.Iterable: has __iter__
            if isinstance(v, (IntV, BoolV, NoneV, RealV, FnV, ClosureV)):
                return False
            if isinstance(v, (KeyV, StrV, TupleV, SymSeqV, ListV, DSTupleV, DSRefV, StageV, DictV, SymDictV, SetV, RangeV)):
                return True
            return None
        if isinstance(v, SliceSpecV):
            return cname in v.classes
        if isinstance(v, (IntV, BoolV, KeyV, StrV, NoneV, RealV)):
            return cname in self.KIND_CLASSES[v.kind]
        if isinstance(v, TupleV):
            return cname == ('list' if v.is_list else 'tuple')
        if isinstance(v, SymSeqV):
            return cname == v.pytype
        if isinstance(v, ListV):
            return cname == 'list'
        if isinstance(v, DSTupleV):
            return cname == v.pytype
        if isinstance(v, (DSRefV, StageV)):
            return cname == 'Dataset'
        if isinstance(v, InstV):
            c = v.cls
            seen = set()
            while c and c not in seen:
                seen.add(c)
                if c == cname:
                    return True
                key = '%s:%s' % (self.mod, c)
                if key not in self.src.classes:
                    break
                b = self.src.class_bases(key)
                c = b[0] if b else None
            return False
        if isinstance(v, ObjV):
            return None
        if isinstance(v, (DictV, SymDictV)):
            return cname == 'dict'
        if isinstance(v, (FnV, ClosureV)):
            return False
        if isinstance(v, ClassV):
            return cname in ('type', 'object')
        if isinstance(v, NdArrV):
            return cname == 'ndarray'
        return None

    def bi_isinstance(self, args, kwargs, st, node):
        v, c = args
        cs = c.items if isinstance(c, TupleV) else [c]
        known = []
        for x in cs:
            if isinstance(x, BuiltinV) and x.name in ('str', 'int', 'tuple', 'list', 'dict', 'slice', 'bytes',
                                                      'set', 'float', 'bool', 'object', 'range', 'zip'):
                x = ClassV(x.name)
            if isinstance(x, BuiltinV) and x.name in ('typing.Iterable', 'collections.abc.Iterable'):
                x = ClassV('Iterable')
            if not isinstance(x, ClassV):
                raise Unsupported('isinstance against %r' % (x,))
            r = self.isinstance_kind(v, x.name, st)
            if r is None:
                h = self.ctx_hook('isinstance_hook', st, v, x.name)
                if h is None:
                    raise Unsupported('isinstance(%r, %s)' % (v, x.name))
                r = h
            known.append(r)
        if all(isinstance(r, bool) for r in known):
            return [(st, BoolV(any(known)))]
        ts = [z3.BoolVal(r) if isinstance(r, bool) else r for r in known]
        return [(st, BoolV(z3.Or(*ts)))]

    def bi_callable(self, args, kwargs, st, node):
        (v,) = args
        return [(st, BoolV(isinstance(v, (FnV, NumFnV, ClosureV, BuiltinV, BoundV, ClassV))))]

    def bi_range(self, args, kwargs, st, node):
        if len(args) == 1 and isinstance(args[0], IntV):
            n = args[0].t
            return [(st, RangeV(I(0), z3.If(n < 0, I(0), n)))]
        if len(args) == 2 and isinstance(args[0], IntV) and isinstance(args[1], IntV):
            a, b = args[0].t, args[1].t
            return [(st, RangeV(a, z3.If(b - a < 0, I(0), b - a)))]
        raise Unsupported('range%r' % (args,))

    def bi_tuple(self, args, kwargs, st, node):
        if not args:
            return [(st, TupleV([]))]
        (x,) = args
        if isinstance(x, TupleV):
            return [(st, TupleV(x.items))]
        if isinstance(x, SymSeqV):
            return [(st, x.retype('tuple'))]
        h = self.ctx_hook('builtin_hook', st, 'tuple', args, kwargs, node)
        if h is not None:
            return h
        raise Unsupported('tuple(%r)' % (x,))

    def bi_list(self, args, kwargs, st, node):
        if not args:
            h = self.ctx_hook('list_hook', st, None)      # a contract may carry a new empty list in its own model
            if h is not None:
                return h
            return [(st, ListV(z3.Empty(smt.ObjSeq)))]
        (x,) = args
        if isinstance(x, SymSeqV):
            return [(st, x.retype('list'))]
        if isinstance(x, TupleV):
            return [(st, TupleV(x.items, True))]
        h = self.ctx_hook('list_hook', st, x)
        if h is not None:
            return h
        raise Unsupported('list(%r)' % (x,))

    def bi_map(self, args, kwargs, st, node):
        """map(f, ds): lazy; element k is f(OUT(ds,k)), applied when the element is pulled."""
        h = self.ctx_hook('builtin_hook', st, 'map', args, kwargs, node)
        if h is not None:
            return h
        if len(args) != 2:
            raise Unsupported('map with %d args' % len(args))
        f, x = args
        if isinstance(f, FnV) and isinstance(x, (DSRefV, InstV, StreamV)):
            sv = x.view if isinstance(x, StreamV) else views.iter_stream(self.view_of(x, st), False)
            ft = f.t

            def raises(k):
                return z3.Or(sv.raises(k), smt.APP_R(ft, sv.val(k).t))

            def val(k):
                return ObjV(smt.APP_V(ft, sv.val(k).t))

            def exc(k):
                return z3.If(sv.raises(k), sv.exc(k), smt.APP_E(ft, sv.val(k).t))
            m = views.StreamView(sv.n(), raises, val, exc, desc='map(%s,%s)' % (ft, sv.desc), source=sv)
            m.lazy_map = (ft, sv)
            return [(st, StreamV(m, False))]
        raise Unsupported('map(%r, %r)' % (f, x))

    def bi_operator_itemgetter(self, args, kwargs, st, node):
        if len(args) == 1 and isinstance(args[0], tuple) and isinstance(args[0][1], SymSeqV):
            idx = args[0][1]
            res = []
            for s2, side in self.branch(st, idx.length == 0):
                if side:
                    # operator.itemgetter() without arguments
                    self.raise_(s2, self.new_exc(s2, 'TypeError'))
                else:
                    res.append((s2, ItemGetterV(idx)))
            return res
        if len(args) == 1 and isinstance(args[0], IntV):
            return [(st, ItemGetterV(None, args[0]))]
        raise Unsupported('itemgetter%r' % (args,))

    def call_itemgetter(self, g, args, st):
        (seq,) = args
        if g.single is not None:
            return self.subscript(seq, g.single, st, None)
        idx = g.idx
        if not isinstance(seq, SymSeqV):
            raise Unsupported('itemgetter applied to %r' % (seq,))
        n = seq.length
        jj = smt.fresh('gq', smt.Int)
        it = idx.at(jj).t
        inr = z3.And(it >= -n, it < n)
        res = []
        # some index out of range -> IndexError
        j0 = smt.fresh('g0', smt.Int)
        bad = st.fork(j0 >= 0, j0 < idx.length, z3.Not(z3.substitute(inr, (jj, j0))))
        if self.feasible(bad):
            self.raise_(bad, self.new_exc(bad, 'IndexError'))
        ok = st.fork(z3.ForAll([jj], z3.Implies(z3.And(jj >= 0, jj < idx.length), inr)))

        def pick(e):
            i = idx.at(e).t
            return seq.at(z3.If(i < 0, i + n, i))
        for s2, one in self.branch(ok, idx.length == 1):
            if one:
                res.append((s2, pick(I(0))))
            else:
                res.append((s2, SymSeqV(idx.length, pick, 'tuple')))
        return res

    def bi_zip(self, args, kwargs, st, node):
        """zip(*datasets) over a tuple of inputs whose lengths are proved equal at the call
        site (obligation); element k is the tuple of the k-th elements, the first input
        that raises at k determines the exception."""
        if len(args) == 1 and isinstance(args[0], tuple) and isinstance(args[0][1], DSTupleV):
            t = args[0][1]
            h = self.ctx_hook('zip_model', st, t)
            if h is None:
                raise Unsupported('zip(*inputs) without a zip model in the contract')
            return h
        h = self.ctx_hook('builtin_hook', st, 'zip', args, kwargs, node)
        if h is not None:
            return h
        raise Unsupported('zip%r' % (args,))

    def bi_sum(self, args, kwargs, st, node):
        (x,) = args
        if isinstance(x, SymSeqV) and isinstance(x.at(z3.Int('_J0')), IntV):
            jv = z3.Int('_J0')
            f = smt.FOLDS.sum(jv, x.at(jv).t)
            smt.FOLDS.note_index(x.length)
            return [(st, IntV(f(x.length)))]
        if isinstance(x, TupleV) and all(isinstance(i, IntV) for i in x.items):
            t = I(0)
            for i in x.items:
                t = t + i.t
            return [(st, IntV(t))]
        raise Unsupported('sum(%r)' % (x,))

    def bi_queue_Queue(self, args, kwargs, st, node):
        oid = self.new_oid()
        ms = args[0] if args else kwargs.get('maxsize')
        st.heap[oid] = {'arr': smt.fresh('qarr', z3.ArraySort(smt.Int, smt.Obj)), 'head': IntV(0), 'tail': IntV(0),
                        'maxsize': ms}
        return [(st, QueueV(oid))]

    def queue_method(self, q, name, args, kwargs, st, node):
        cell = st.heap[q.oid]
        head, tail = cell['head'].t, cell['tail'].t
        if name == 'qsize':
            return [(st, IntV(tail - head))]
        if name == 'empty':
            return [(st, BoolV(tail == head))]
        if name == 'put':
            (x,) = args
            if not isinstance(x, ObjV):
                raise Unsupported('queue.put(%r)' % (x,))
            if cell['maxsize'] is not None:
                h = self.ctx_hook('queue_put_bounded', st, q, x)
                if h is not None:
                    return h
                raise Unsupported('put on a bounded queue outside the concurrent model')
            st.heap[q.oid]['arr'] = z3.Store(cell['arr'], tail, x.t)
            st.heap[q.oid]['tail'] = IntV(tail + 1)
            return [(st, NONE)]
        if name in ('get', 'get_nowait'):
            block = kwargs.get('block', args[0] if args else BoolV(name == 'get'))
            res = []
            for s2, nonempty in self.branch(st, tail > head):
                if nonempty:
                    s2.heap[q.oid]['head'] = IntV(head + 1)
                    res.append((s2, ObjV(z3.Select(cell['arr'], head))))
                else:
                    if z3.is_true(z3.simplify(self.truth(block))):
                        # a blocking get on an empty queue that nobody fills never returns
                        self.oblige('queue.get:never-blocks-forever', s2, smt.F, 'assert')
                    else:
                        self.raise_(s2, self.new_exc(s2, 'Empty'))
            return res
        raise Unsupported('queue.%s' % name)

    def _minmax(self, args, st, is_max):
        if len(args) == 1 and isinstance(args[0], TupleV):
            args = args[0].items
        if len(args) >= 2 and all(isinstance(a, (IntV, RealV)) for a in args) and not any(
                isinstance(a, RealV) for a in args):
            t = args[0].t
            for a in args[1:]:
                t = z3.If((a.t > t) if is_max else (a.t < t), a.t, t)
            return [(st, IntV(t))]
        if len(args) >= 2 and all(isinstance(a, (IntV, RealV)) for a in args):
            ts = [z3.ToReal(a.t) if isinstance(a, IntV) else a.t for a in args]
            t = ts[0]
            for a in ts[1:]:
                t = z3.If((a > t) if is_max else (a < t), a, t)
            return [(st, RealV(t))]
        raise Unsupported('%s%r' % ('max' if is_max else 'min', args))

    def bi_max(self, args, kwargs, st, node):
        return self._minmax(args, st, True)

    def bi_min(self, args, kwargs, st, node):
        return self._minmax(args, st, False)

    def _generic_comprehension(self, node, g, st2, length, elem, pytype):
        """[elt for target in <stream of symbolic length> if cond...] evaluated once at a generic
        index j: per j the element, the conditions and elt either all evaluate normally
        (n(j), keep(j), value(j)) or one of them raises (r_i(j), e_i(j)).  Result:
          * all normal: assume forall j<len. n(j); without conditions the sequence j -> value(j);
            with conditions the order-preserving selection: length CNT_keep(len), element o is
            value(SEL(o)) with  keep(SEL(o)) and CNT_keep(SEL(o)) = o,  and keep(j) => SEL(CNT_keep(j)) = j
          * first failure at j0: r_i(j0) and forall j<j0. n(j)"""
        res = []
        j = smt.fresh('cj', smt.Int)
        smt.FOLDS.note_index(length)
        base = st2.fork(j >= 0, j < length)
        base_len = len(base.pc)
        log0 = base.ghost.get('log', ())

        def cond_of(s_):
            extra = s_.pc[base_len:]
            return z3.And(*extra) if extra else smt.T
        normals = []     # (state, keep z3, value)
        raises = []      # (cond z3, exc z3 term)
        for eo in elem(j):
            sj = base.fork(*([eo.cond] + list(eo.facts)))
            if not self.feasible(sj):
                continue
            if eo.exc is not None:
                raises.append((cond_of(sj), eo.exc.t))
                continue
            self.sinks.append([])
            try:
                cur = [(s3, smt.T) for s3 in self.assign(g.target, eo.value, sj)]
                for cnode in g.ifs:
                    nxt = []
                    for s3, keep in cur:
                        for s4, cv in self.eval(cnode, s3):
                            nxt.append((s4, z3.And(keep, self.truth(cv))))
                    cur = nxt
                for s3, keep in cur:
                    # elt is evaluated only for kept elements; its own effects/raises under keep
                    s_k = s3.fork(keep) if g.ifs else s3.fork()
                    nk = len(s_k.pc)
                    for s4, v in self.eval(node.elt, s_k):
                        normals.append((s4, keep, v, s3, s4.pc[nk:]))
            finally:
                raised = self.sinks.pop()
            for o in raised:
                raises.append((cond_of(o.st), o.exc.t))
        if len(normals) != 1:
            raise Unsupported('comprehension body with %d normal outcomes per element' % len(normals))
        s_n, keep, vb, s_pre, elt_extra = normals[0]
        # everything evaluated normally: element and conditions, and elt where it is evaluated
        elt_ok = z3.And(*elt_extra) if elt_extra else smt.T
        ncond = z3.And(cond_of(s_pre), z3.Implies(keep, elt_ok) if g.ifs else elt_ok)
        jj = smt.fresh('cq', smt.Int)

        def at(term, e):
            return z3.substitute(term, (j, e))
        s_ok = st2.fork()
        if not z3.is_true(z3.simplify(ncond)):
            s_ok.pc.append(z3.ForAll([jj], z3.Implies(z3.And(jj >= 0, jj < length), at(ncond, jj))))
        for gk, gv in s_n.ghost.items():
            if gk != 'log':
                s_ok.ghost[gk] = gv
        body_log = s_n.ghost.get('log', ())[len(log0):]
        if body_log:
            s_ok.ghost['log'] = log0 + (('forall', j, length, body_log),)
        py = 'list' if pytype == 'list' else 'tuple'
        if self.feasible(s_ok):
            if not g.ifs:
                res.append((s_ok, SymSeqV.from_term(length, j, vb, py)))
            else:
                cnt = smt.FOLDS.sum(j, z3.If(keep, I(1), I(0)))
                SEL = z3.Function('SEL!%d' % next(smt._counter), smt.Int, smt.Int)
                L = cnt(length)
                AX.add(z3.ForAll([jj], z3.Implies(z3.And(jj >= 0, jj < length, at(keep, jj)), SEL(cnt(jj)) == jj),
                                 patterns=[cnt(jj)]))

                def sel_elem(o, SEL=SEL, cnt=cnt, keep=keep, vb=vb):
                    p = SEL(o)
                    smt.FOLDS.note_index(p)
                    AX.add(z3.Implies(z3.And(o >= 0, o < L), z3.And(p >= 0, p < length, at(keep, p), cnt(p) == o)))
                    return vb.subst(j, p)
                r = SymSeqV(L, sel_elem, py)
                r.selection = (SEL, cnt, keep, j, length)
                res.append((s_ok, r))
        for rc, et in raises:
            j0 = smt.fresh('j0', smt.Int)
            s_r = st2.fork(j0 >= 0, j0 < length, at(rc, j0))
            if not z3.is_true(z3.simplify(ncond)):
                s_r.pc.append(z3.ForAll([jj], z3.Implies(z3.And(jj >= 0, jj < j0), at(ncond, jj))))
            if body_log:
                s_r.ghost['log'] = log0 + (('forall', j, j0 + 1, body_log),)
            if self.feasible(s_r):
                self.raise_(s_r, ExcV(at(et, j0)))
        return res

    def bi_enumerate(self, args, kwargs, st, node):
        (x,) = args
        length, elem = self.iter_descr(x, st)

        def el(k):
            outs = []
            for o in elem(k):
                if o.exc is not None:
                    outs.append(o)
                else:
                    outs.append(Out(o.cond, value=TupleV([IntV(k), o.value]), facts=o.facts, tag=o.tag))
            return outs
        return [(st, GenStreamV(length, el, 'enumerate'))]

    def bi_iter(self, args, kwargs, st, node):
        (x,) = args
        if isinstance(x, (DSRefV, InstV)):
            view = self.view_of(x, st)
            return [(s, self.make_iter(s, v)) for s, v in self.ds_iter(view, BoolV(False), st)]
        if isinstance(x, IterV):
            return [(st, x)]
        raise Unsupported('iter(%r)' % (x,))

    def make_iter(self, st, stream):
        oid = self.new_oid()
        st.heap[oid] = {'stream': stream, 'pos': IntV(0), 'done': BoolV(False)}
        return IterV(oid)

    def bi_next(self, args, kwargs, st, node):
        (it,) = args
        h = self.ctx_hook('next_hook', st, it)
        if h is not None:
            return h
        if isinstance(it, StreamV):
            raise Unsupported('next() on a stream that was not wrapped by iter()/list of iterators')
        if not isinstance(it, IterV):
            raise Unsupported('next(%r)' % (it,))
        cell = st.heap[it.oid]
        sv = cell['stream'].view
        pos = cell['pos'].t
        done = cell['done'].t
        res = []
        n = sv.n()
        exhausted = z3.Or(done, pos >= n) if n is not None else done
        for s2, side in self.branch(st, exhausted):
            if side:
                self.raise_(s2, self.new_exc(s2, 'StopIteration'))
                continue
            for s3, r in self.branch(s2, sv.raises(pos)):
                if r:
                    s3.heap[it.oid]['done'] = BoolV(True)
                    self.raise_(s3, ExcV(sv.exc(pos)))
                else:
                    s3.heap[it.oid]['pos'] = IntV(pos + 1)
                    self.log_effect(s3, ('pull', sv.desc, pos))
                    res.append((s3, sv.val(pos)))
        return res

    def bi_super(self, args, kwargs, st, node):
        if args:
            raise Unsupported('super with args')
        selfv = st.env.get('self')
        if not isinstance(selfv, InstV):
            raise Unsupported('super() without self instance')
        # class that lexically contains the running function
        owner = self.fn_owner_class()
        bases = self.src.class_bases('%s:%s' % (self.mod, owner))
        return [(st, SuperV(selfv, bases[0] if bases else 'object'))]

    def fn_owner_class(self):
        for key, c in self.src.classes.items():
            if key.startswith(self.mod + ':') and self.fn in c.body:
                return c.name
        raise Unsupported('owner class of running function')

    def bi_int(self, args, kwargs, st, node):
        (x,) = args
        if isinstance(x, NpIntV):
            return [(st, IntV(x.t))]        # a python int: unbounded from here on
        if isinstance(x, IntV):
            return [(st, x)]
        if isinstance(x, RealV):
            # truncation toward zero
            t = x.t
            fl = z3.ToInt(t)
            return [(st, IntV(z3.If(t >= 0, fl, z3.If(z3.ToReal(fl) == t, fl, fl + 1))))]
        raise Unsupported('int(%r)' % (x,))

    def bi_operator_index(self, args, kwargs, st, node):
        (x,) = args
        if isinstance(x, IntV):
            return [(st, IntV(x.t))]
        self.raise_(st, self.new_exc(st, 'TypeError'))
        return []

    def bi_numpy_ceil(self, args, kwargs, st, node):
        (x,) = args
        if isinstance(x, RealV):
            fl = z3.ToInt(x.t)
            return [(st, RealV(z3.ToReal(z3.If(z3.ToReal(fl) == x.t, fl, fl + 1))))]
        raise Unsupported('np.ceil(%r)' % (x,))

    def bi_all(self, args, kwargs, st, node):
        (x,) = args
        if isinstance(x, SymSeqV):
            j = smt.fresh('aj', smt.Int)
            el = x.at(j)
            if isinstance(el, BoolV):
                return [(st, BoolV(z3.ForAll([j], z3.Implies(z3.And(j >= 0, j < x.length), el.t))))]
        if isinstance(x, TupleV):
            return [(st, BoolV(z3.And(*[self.truth(i) for i in x.items]) if x.items else smt.T))]
        raise Unsupported('all(%r)' % (x,))

    def bi_hasattr(self, args, kwargs, st, node):
        o, a = args
        if isinstance(o, InstV) and isinstance(a, StrV):
            return [(st, BoolV(a.s in st.heap[o.oid]))]
        h = self.ctx_hook('hasattr_hook', st, o, a)
        if h is not None:
            return h
        raise Unsupported('hasattr(%r, %r)' % (o, a))

    # ---- list / seq methods
    def list_method(self, recv, name, args, st, node):
        # find the single name that holds this list
        holder = [n for n, v in st.env.items() if v is recv]
        fld = [(oid, f) for oid, fs in st.heap.items() for f, v in fs.items() if v is recv]
        if not holder and len(fld) == 1 and name == 'append' and len(args) == 1 and isinstance(args[0], ObjV):
            oid, f = fld[0]
            st.heap[oid][f] = ListV(z3.Concat(recv.seq, z3.Unit(args[0].t)), recv.elemkind)
            return [(st, NONE)]
        if name == 'append':
            (x,) = args
            if not isinstance(x, ObjV):
                h = self.ctx_hook('list_append_hook', st, recv, x, holder)
                if h is not None:
                    return h
                raise Unsupported('append of %r to an object list' % (x,))
            if len(holder) != 1:
                raise Unsupported('list mutated through %d names' % len(holder))
            st.env[holder[0]] = ListV(z3.Concat(recv.seq, z3.Unit(x.t)), recv.elemkind)
            return [(st, NONE)]
        if name == 'pop' and len(args) == 1 and isinstance(args[0], IntV):
            if len(holder) != 1:
                raise Unsupported('list mutated through %d names' % len(holder))
            i = args[0].t
            ln = z3.Length(recv.seq)
            res = []
            for s2, side in self.branch(st, z3.And(i >= -ln, i < ln)):
                if side:
                    p = z3.If(i < 0, i + ln, i)
                    s2.env[holder[0]] = ListV(z3.Concat(z3.SubSeq(recv.seq, 0, p),
                                                        z3.SubSeq(recv.seq, p + 1, ln - p - 1)), recv.elemkind)
                    res.append((s2, ObjV(recv.seq[p])))
                else:
                    self.raise_(s2, self.new_exc(s2, 'IndexError'))
            return res
        raise Unsupported('list.%s' % name)

    def seq_method(self, recv, name, args, st, node):
        if name == 'index' and len(args) == 1 and isinstance(args[0], KeyV) and hasattr(recv, 'keyview'):
            view = recv.keyview
            p = view.kpos(args[0].t)
            res = []
            for s2, side in self.branch(st, p >= 0):
                if side:
                    # tuple.index returns the FIRST position holding the key; all positions
                    # with one key denote the same example (I-key), so any one serves
                    res.append((s2, IntV(p)))
                else:
                    self.raise_(s2, self.new_exc(s2, 'ValueError'))
            return res
        raise Unsupported('sequence method %s' % name)

    # ---- operators
    def expr_UnaryOp(self, node, st):
        res = []
        for st2, v in self.eval(node.operand, st):
            if isinstance(node.op, ast.Not):
                res.append((st2, BoolV(z3.Not(self.truth(v)))))
            elif isinstance(node.op, ast.USub) and isinstance(v, NpIntV):
                res.append((st2, v.wrap(-v.t)))
            elif isinstance(node.op, ast.USub) and isinstance(v, IntV):
                res.append((st2, IntV(-v.t)))
            elif isinstance(node.op, ast.USub) and isinstance(v, RealV):
                res.append((st2, RealV(-v.t)))
            else:
                raise Unsupported('unary %s on %r' % (type(node.op).__name__, v))
        return res

    def expr_BoolOp(self, node, st):
        # short-circuit with forking (operands may have effects)
        is_and = isinstance(node.op, ast.And)
        cur = [(st, None, True)]   # (state, value, continue?)
        for operand in node.values:
            nxt = []
            for s, v, cont in cur:
                if not cont:
                    nxt.append((s, v, False))
                    continue
                for s2, v2 in self.eval(operand, s):
                    for s3, side in self.branch(s2, self.truth(v2)):
                        stop = (not side) if is_and else side
                        nxt.append((s3, v2, not stop))
            cur = nxt
        return [(s, v) for s, v, _ in cur]

    def expr_IfExp(self, node, st):
        res = []
        for st2, c in self.eval(node.test, st):
            for st3, side in self.branch(st2, self.truth(c)):
                res.extend(self.eval(node.body if side else node.orelse, st3))
        return res

    def expr_BinOp(self, node, st):
        res = []
        for st2, a in self.eval(node.left, st):
            for st3, b in self.eval(node.right, st2):
                res.extend(self.binop(node.op, a, b, st3, node))
        return res

    def _np_binop(self, op, a, b, st, node):
        """numpy fixed-width scalar (op) python int / same-dtype scalar, NumPy 2 promotion (NEP 50)"""
        npv = a if isinstance(a, NpIntV) else b
        other = b if npv is a else a
        if isinstance(other, NpIntV) and other.dtype != npv.dtype:
            raise Unsupported('arithmetic of numpy scalars of different dtypes')
        res = []
        fits = z3.And(other.t >= npv.lo, other.t <= npv.hi) if not isinstance(other, NpIntV) else smt.T
        for s2, ok in self.branch(st, fits):
            if not ok:
                # "Python integer 600 out of bounds for int8"
                self.raise_(s2, self.new_exc(s2, 'OverflowError'))
                continue
            x, y = a.t, b.t
            if isinstance(op, ast.Add):
                res.append((s2, npv.wrap(x + y)))
            elif isinstance(op, ast.Sub):
                res.append((s2, npv.wrap(x - y)))
            elif isinstance(op, ast.Mult):
                res.append((s2, npv.wrap(x * y)))
            elif isinstance(op, (ast.FloorDiv, ast.Mod)):
                for s3, zero in self.branch(s2, y == 0):
                    if zero:
                        # numpy: 0 with a RuntimeWarning
                        res.append((s3, NpIntV(I(0), npv.lo, npv.hi, npv.dtype)))
                    else:
                        q = smt.fresh('q', smt.Int)
                        r = smt.fresh('r', smt.Int)
                        s3.pc.append(x == q * y + r)
                        s3.pc.append(z3.If(y > 0, z3.And(r >= 0, r < y), z3.And(r <= 0, r > y)))
                        res.append((s3, npv.wrap(q if isinstance(op, ast.FloorDiv) else r)))
            else:
                raise Unsupported('numpy scalar operation %s' % type(op).__name__)
        return res

    def binop(self, op, a, b, st, node):
        if isinstance(a, BoolV):
            a = IntV(z3.If(a.t, I(1), I(0)))
        if isinstance(b, BoolV):
            b = IntV(z3.If(b.t, I(1), I(0)))
        if (isinstance(a, NpIntV) or isinstance(b, NpIntV)) and isinstance(a, IntV) and isinstance(b, IntV):
            return self._np_binop(op, a, b, st, node)
        if isinstance(a, IntV) and isinstance(b, IntV):
            if isinstance(op, ast.Add):
                return [(st, IntV(a.t + b.t))]
            if isinstance(op, ast.Sub):
                return [(st, IntV(a.t - b.t))]
            if isinstance(op, ast.Mult):
                return [(st, IntV(a.t * b.t))]
            if isinstance(op, (ast.FloorDiv, ast.Mod, ast.Div)):
                res = []
                for s2, zero in self.branch(st, b.t == 0):
                    if zero:
                        self.raise_(s2, self.new_exc(s2, 'ZeroDivisionError'))
                    elif isinstance(op, ast.Div):
                        res.append((s2, RealV(z3.ToReal(a.t) / z3.ToReal(b.t))))
                    else:
                        # python floor semantics: q = floor(a/b), r = a - q*b has sign of b
                        q = smt.fresh('q', smt.Int)
                        r = smt.fresh('r', smt.Int)
                        s2.pc.append(a.t == q * b.t + r)
                        s2.pc.append(z3.If(b.t > 0, z3.And(r >= 0, r < b.t), z3.And(r <= 0, r > b.t)))
                        res.append((s2, IntV(q if isinstance(op, ast.FloorDiv) else r)))
                return res
        if isinstance(a, (IntV, RealV)) and isinstance(b, (IntV, RealV)):
            x = z3.ToReal(a.t) if isinstance(a, IntV) else a.t
            y = z3.ToReal(b.t) if isinstance(b, IntV) else b.t
            if isinstance(op, ast.Add):
                return [(st, RealV(x + y))]
            if isinstance(op, ast.Sub):
                return [(st, RealV(x - y))]
            if isinstance(op, ast.Mult):
                return [(st, RealV(x * y))]
            if isinstance(op, ast.Div):
                res = []
                for s2, zero in self.branch(st, y == 0):
                    if zero:
                        self.raise_(s2, self.new_exc(s2, 'ZeroDivisionError'))
                    else:
                        res.append((s2, RealV(x / y)))
                return res
        if isinstance(a, (StrV, OpaqueStrV)) or isinstance(b, (StrV, OpaqueStrV)):
            return [(st, OpaqueStrV())]
        if isinstance(a, TupleV) and isinstance(b, TupleV) and isinstance(op, ast.Add):
            return [(st, TupleV(a.items + b.items, a.is_list))]
        if isinstance(op, ast.Add) and isinstance(b, SymSeqV) and (
                isinstance(a, SymSeqV) or (isinstance(a, ListV) and z3.is_true(z3.simplify(z3.Length(a.seq) == 0)))):
            # list concatenation
            if isinstance(a, ListV):
                return [(st, b.retype('list'))]
            if a.pytype != b.pytype:
                self.raise_(st, self.new_exc(st, 'TypeError'))
                return []
            la = a.length

            def cat(e, a=a, b=b, la=la):
                x, y = a.at(e), b.at(e - la)
                if isinstance(x, KeyV) and isinstance(y, KeyV):
                    return KeyV(z3.If(e < la, x.t, y.t))
                if isinstance(x, IntV) and isinstance(y, IntV):
                    return IntV(z3.If(e < la, x.t, y.t))
                if isinstance(x, ObjV) and isinstance(y, ObjV):
                    return ObjV(z3.If(e < la, x.t, y.t))
                raise Unsupported('concatenation of sequences of %s and %s' % (x.kind, y.kind))
            return [(st, SymSeqV(la + b.length, cat, a.pytype))]
        h = self.ctx_hook('binop_hook', st, op, a, b, node)
        if h is not None:
            return h
        raise Unsupported('binop %s on %r, %r' % (type(op).__name__, a, b))

    def expr_Compare(self, node, st):
        res = []
        for st2, left in self.eval(node.left, st):
            cur = [(st2, left, smt.T)]
            for op, right_node in zip(node.ops, node.comparators):
                nxt = []
                for s, lv, acc in cur:
                    for s2, rv in self.eval(right_node, s):
                        c = self.compare(op, lv, rv, s2, node)
                        nxt.append((s2, rv, z3.And(acc, c)))
                cur = nxt
            res.extend((s, BoolV(z3.simplify(acc))) for s, _, acc in cur)
        return res

    def compare(self, op, a, b, st, node):
        if isinstance(op, (ast.Is, ast.IsNot)):
            if isinstance(b, NoneV) and isinstance(a, ObjV):
                r = smt.IS_NONE(a.t)
            elif isinstance(a, NoneV) and isinstance(b, ObjV):
                r = smt.IS_NONE(b.t)
            elif (isinstance(b, NoneV) and getattr(a, 'is_none_term', None) is not None) or \
                    (isinstance(a, NoneV) and getattr(b, 'is_none_term', None) is not None):
                # an optional value of a contract's own model: None-ness is a symbolic boolean
                r = a.is_none_term if isinstance(b, NoneV) else b.is_none_term
            elif isinstance(b, NoneV) or isinstance(a, NoneV):
                r = z3.BoolVal(isinstance(a, NoneV) and isinstance(b, NoneV))
            elif isinstance(a, BoolV) and isinstance(b, BoolV):
                r = a.t == b.t
            elif isinstance(b, BoolV) and isinstance(a, (StrV, IntV, KeyV, ClassV, TupleV, ExcSpecV)):
                r = smt.F         # `x is True` for a non-bool x
            else:
                r = veq(a, b)
                if r is None:
                    raise Unsupported('identity of %r and %r' % (a, b))
            return z3.Not(r) if isinstance(op, ast.IsNot) else r
        if isinstance(op, (ast.Eq, ast.NotEq)):
            r = veq(a, b)
            if r is None:
                h = self.ctx_hook('eq_hook', st, a, b)
                if h is None:
                    raise Unsupported('equality of %r and %r' % (a, b))
                r = h
            return z3.Not(r) if isinstance(op, ast.NotEq) else r
        if isinstance(op, (ast.Lt, ast.LtE, ast.Gt, ast.GtE)):
            if isinstance(a, BoolV):
                a = IntV(z3.If(a.t, I(1), I(0)))
            if isinstance(b, BoolV):
                b = IntV(z3.If(b.t, I(1), I(0)))
            if isinstance(a, (IntV, RealV)) and isinstance(b, (IntV, RealV)):
                x, y = a.t, b.t
                if isinstance(a, RealV) or isinstance(b, RealV):
                    x = z3.ToReal(x) if isinstance(a, IntV) else x
                    y = z3.ToReal(y) if isinstance(b, IntV) else y
                return {ast.Lt: x < y, ast.LtE: x <= y, ast.Gt: x > y, ast.GtE: x >= y}[type(op)]
            raise Unsupported('ordering of %r and %r' % (a, b))
        if isinstance(op, (ast.In, ast.NotIn)):
            r = self.contains(b, a, st)
            return z3.Not(r) if isinstance(op, ast.NotIn) else r
        raise Unsupported('comparison %s' % type(op).__name__)

    def contains(self, container, x, st):
        if isinstance(container, SymSeqV) and hasattr(container, 'keyview') and isinstance(x, KeyV):
            return container.keyview.kpos(x.t) >= 0
        if isinstance(container, TupleV):
            cs = []
            for i in container.items:
                c = veq(i, x)
                if c is None:
                    raise Unsupported('membership test of %r in %r' % (x, container))
                cs.append(c)
            return z3.Or(*cs) if cs else smt.F
        if isinstance(container, IntDictV) and isinstance(x, IntV):
            return st.heap[container.oid]['dom'](x.t)
        h = self.ctx_hook('contains_hook', st, container, x)
        if h is not None:
            return h
        raise Unsupported('membership test of %r in %r' % (x, container))

    def expr_Subscript(self, node, st):
        res = []
        for st2, recv in self.eval(node.value, st):
            for st3, idx in self.eval(node.slice, st2):
                res.extend(self.subscript(recv, idx, st3, node))
        return res

    def expr_Slice(self, node, st):
        h = self.ctx_hook('slice_expr', st, node)
        if h is not None:
            return h
        def const(n):
            if n is None:
                return None
            if isinstance(n, ast.Constant) and isinstance(n.value, int):
                return n.value
            if isinstance(n, ast.UnaryOp) and isinstance(n.op, ast.USub) and isinstance(n.operand, ast.Constant) \
                    and isinstance(n.operand.value, int):
                return -n.operand.value
            raise Unsupported('non-constant slice bound')
        return [(st, PySliceV(const(node.lower), const(node.upper), const(node.step)))]

    def seq_index(self, st, length, i, getter):
        res = []
        for s2, side in self.branch(st, z3.And(i >= -length, i < length)):
            if side:
                res.append((s2, getter(z3.If(i < 0, i + length, i))))
            else:
                self.raise_(s2, self.new_exc(s2, 'IndexError'))
        return res

    def subscript(self, recv, idx, st, node):
        h = self.ctx_hook('subscript_hook', st, recv, idx, node)
        if h is not None:
            return h
        if isinstance(recv, (DSRefV,)) or (isinstance(recv, InstV) and recv.oid == self.self_oid
                                           and '__getitem__' not in self.ctx.inline):
            view = self.view_of(recv, st)
            return self.ds_getitem(view, idx, st)
        if isinstance(recv, InstV):
            return self.call_method(recv, '__getitem__', [idx], {}, st, node)
        if isinstance(recv, IntDictV) and isinstance(idx, IntV):
            cell = st.heap[recv.oid]
            res = []
            for s2, side in self.branch(st, cell['dom'](idx.t)):
                if side:
                    res.append((s2, ObjV(cell['sto'](idx.t))))
                else:
                    self.raise_(s2, self.new_exc(s2, 'KeyError'))
            return res
        if isinstance(recv, SymDictV) and isinstance(idx, KeyV):
            p = recv.kpos(idx.t)
            res = []
            for s2, side in self.branch(st, p >= 0):
                if side:
                    res.append((s2, ObjV(recv.valof(idx.t))))
                else:
                    self.raise_(s2, self.new_exc(s2, 'KeyError'))
            return res
        if isinstance(recv, SymSeqV) and isinstance(idx, IntV):
            return self.seq_index(st, recv.length, idx.t, recv.at)
        if isinstance(recv, SymSeqV) and isinstance(idx, PySliceV) and idx.step in (None, 1) and not hasattr(recv, 'keyview'):
            # seq[a:b] with constant bounds: python clamps the (possibly negative) bounds into [0, len]
            L = recv.length

            def bound(c, default):
                if c is None:
                    return default
                x = I(c) if c >= 0 else L + c
                return z3.If(x < 0, I(0), z3.If(x > L, L, x))
            lo, hi = bound(idx.lo, I(0)), bound(idx.hi, L)
            n2 = z3.If(hi - lo > 0, hi - lo, I(0))
            return [(st, SymSeqV(z3.simplify(n2), (lambda e, recv=recv, lo=lo: recv.at(lo + e)), recv.pytype))]
        if isinstance(recv, DSTupleV) and isinstance(idx, IntV):
            return self.seq_index(st, recv.m, idx.t, recv.at)
        if isinstance(recv, ListV) and isinstance(idx, IntV):
            return self.seq_index(st, z3.Length(recv.seq), idx.t, lambda p: ObjV(recv.seq[p]))
        if isinstance(recv, (OpaqueStrV, StrV)) and isinstance(idx, PySliceV):
            return [(st, OpaqueStrV())]
        if isinstance(recv, TupleV) and isinstance(idx, PySliceV):
            return [(st, TupleV(recv.items[slice(idx.lo, idx.hi, idx.step)], recv.is_list))]
        if isinstance(recv, TupleV) and isinstance(idx, IntV) and z3.is_int_value(z3.simplify(idx.t)):
            i = z3.simplify(idx.t).as_long()
            if -len(recv.items) <= i < len(recv.items):
                return [(st, recv.items[i])]
            self.raise_(st, self.new_exc(st, 'IndexError'))
            return []
        if isinstance(recv, CellListV) and isinstance(idx, IntV) and z3.is_int_value(z3.simplify(idx.t)):
            return [(st, st.heap[recv.oid]['items'][z3.simplify(idx.t).as_long()])]
        raise Unsupported('subscript %r[%r]' % (recv, idx))

    def expr_Tuple(self, node, st):
        res = []
        for s, vs in self.eval_list(node.elts, st):
            if any(isinstance(v, tuple) for v in vs):
                raise Unsupported('starred tuple display')
            res.append((s, TupleV(vs)))
        return res

    def expr_List(self, node, st):
        if not node.elts:
            return [(st, ListV(z3.Empty(smt.ObjSeq)))]
        res = []
        for s, vs in self.eval_list(node.elts, st):
            if any(isinstance(v, tuple) for v in vs):
                raise Unsupported('starred list display')
            if vs and all(isinstance(v, ObjV) for v in vs):
                seq = z3.Concat(*[z3.Unit(v.t) for v in vs]) if len(vs) > 1 else z3.Unit(vs[0].t)
                res.append((s, ListV(seq)))
            else:
                res.append((s, TupleV(vs, True)))
        return res

    def expr_Dict(self, node, st):
        h = self.ctx_hook('dict_display', st, node)
        if h is not None:
            return h
        if not node.keys:
            return [(st, EmptyDictV())]
        import ast as _ast
        if all(isinstance(k, _ast.Constant) and isinstance(k.value, str) for k in node.keys):
            # {'a': x, 'b': y}: a new dict with literal keys (heap cell: key -> value, insertion order)
            cur = [(st, {})]
            for k, vnode in zip(node.keys, node.values):
                nxt = []
                for s, acc in cur:
                    for s2, v in self.eval(vnode, s):
                        nxt.append((s2, dict(acc, **{k.value: v})))
                cur = nxt
            res = []
            for s, acc in cur:
                oid = self.new_oid()
                s.heap[oid] = acc
                res.append((s, DictV(oid)))
            return res
        raise Unsupported('dict display')

    def expr_Set(self, node, st):
        h = self.ctx_hook('builtin_hook', st, 'set', [], {}, node)
        if h is not None:
            return h
        raise Unsupported('set display')

    def expr_DictComp(self, node, st):
        h = self.ctx_hook('dict_comp', st, node)
        if h is not None:
            return h
        raise Unsupported('dict comprehension')

    def expr_Lambda(self, node, st):
        c = ClosureV(node, None)
        c.def_env = dict(st.env)
        return [(st, c)]

    def expr_ListComp(self, node, st):
        return self.comprehension(node, st, 'list')

    def expr_GeneratorExp(self, node, st):
        return self.comprehension(node, st, 'gen')

    def _nested_comprehension(self, node, st, pytype):
        """[elt for x in A for y in range(n(x))] without conditions, A of symbolic length m, elt and n(x) evaluated
        without exceptions: encoded by its defining bijection between flat indices and (outer index, inner offset)
        pairs (encoding assumption A-NESTED: the python result lists the pairs in lexicographic order; only the
        bijection and the length are exported)."""
        g0, g1 = node.generators
        if g0.ifs or g1.ifs:
            raise Unsupported('nested comprehension with conditions')
        res = []
        for st2, it in self.eval(g0.iter, st):
            m, elem = self.iter_descr(it, st2)
            if m is None:
                raise Unsupported('nested comprehension over an unbounded stream')
            d = smt.fresh('nd', smt.Int)
            e = smt.fresh('ne', smt.Int)
            outs = elem(d)
            if len(outs) != 1 or outs[0].exc is not None:
                raise Unsupported('nested comprehension: outer element may raise')
            base = st2.fork(d >= 0, d < m, *outs[0].facts)
            n_before = len(base.pc)
            self.sinks.append([])
            try:
                got = []
                for s1 in self.assign(g0.target, outs[0].value, base):
                    for s2, inner in self.eval(g1.iter, s1):
                        if not isinstance(inner, RangeV):
                            raise Unsupported('nested comprehension: inner iterable is not a range')
                        s3 = s2.fork(e >= 0, e < inner.n)
                        for s4 in self.assign(g1.target, IntV(inner.start + e), s3):
                            for s5, v in self.eval(node.elt, s4):
                                got.append((s5, inner, v))
            finally:
                raised = self.sinks.pop()
            if raised and any(self.feasible(o.st) for o in raised):
                raise Unsupported('nested comprehension: element may raise')
            if len(got) != 1:
                raise Unsupported('nested comprehension with %d outcomes per element' % len(got))
            s5, inner, v = got[0]
            extra = [c for c in s5.pc[n_before:] if not (c.eq(e >= 0) or c.eq(e < inner.n))]
            if extra:
                # conditions collected while evaluating the element (e.g. a non-zero divisor) must hold for every pair
                chk = base.fork(e >= 0, e < inner.n)
                if self.feasible(chk, z3.Not(z3.And(*extra))):
                    raise Unsupported('nested comprehension: element evaluation forks')
            c = next(smt._counter)
            nd = lambda dd: z3.substitute(inner.n, (d, dd))      # noqa
            # range(n) is empty for n < 0: the summand is max(n, 0); plain n when n >= 0 holds for every outer element
            # the summand is max(n, 0); written plainly when one side of a top-level if-then-else is always taken
            nterm = inner.n
            while z3.is_app(nterm) and nterm.decl().kind() == z3.Z3_OP_ITE:
                c_, a_, b_ = nterm.arg(0), nterm.arg(1), nterm.arg(2)
                r1, _ = smt.check_sat(self.axioms() + base.pc + [c_], timeout_ms=3000)
                if r1 == 'unsat':
                    nterm = b_
                    continue
                r2, _ = smt.check_sat(self.axioms() + base.pc + [z3.Not(c_)], timeout_ms=3000)
                if r2 == 'unsat':
                    nterm = a_
                    continue
                break
            r_nn, _ = smt.check_sat(self.axioms() + base.pc + [nterm < 0], timeout_ms=3000)
            nonneg = (r_nn == 'unsat')
            tot = smt.FOLDS.sum(d, nterm if nonneg else z3.If(nterm >= 0, nterm, I(0)))
            L = tot(m)
            smt.FOLDS.note_index(m)
            DP = z3.Function('NEST_D!%d' % c, smt.Int, smt.Int)
            EP = z3.Function('NEST_E!%d' % c, smt.Int, smt.Int)
            FLAT = z3.Function('NEST_FLAT!%d' % c, smt.Int, smt.Int, smt.Int)
            x = z3.Int('_nx')
            dd, ee = z3.Int('_ndd'), z3.Int('_nee')
            s_ok = st2.fork(
                z3.ForAll([x], z3.Implies(z3.And(x >= 0, x < L),
                                          z3.And(DP(x) >= 0, DP(x) < m, EP(x) >= 0, EP(x) < nd(DP(x)), FLAT(DP(x), EP(x)) == x)),
                          patterns=[DP(x)]),
                z3.ForAll([dd, ee], z3.Implies(z3.And(dd >= 0, dd < m, ee >= 0, ee < nd(dd)),
                                               z3.And(FLAT(dd, ee) >= 0, FLAT(dd, ee) < L, DP(FLAT(dd, ee)) == dd,
                                                      EP(FLAT(dd, ee)) == ee)), patterns=[FLAT(dd, ee)]))

            def pair_elem(a, b, v=v):
                return v.subst(d, a).subst(e, b)
            r = NestedSeqV(L, lambda xx: pair_elem(DP(xx), EP(xx)), 'list' if pytype == 'list' else 'tuple')
            r.m, r.n_of, r.DP, r.EP, r.FLAT, r.pair_elem = m, nd, DP, EP, FLAT, pair_elem
            res.append((s_ok, r))
        return res

    def comprehension(self, node, st, pytype):
        """[body for x in <symbolic sequence>] (single generator): the body is evaluated once
        at a generic index j.  Supported when the body has, per j, one normal outcome
        value(j) under n(j) and raising outcomes e_r(j) under r(j) that partition: result
          * all normal:   assume forall j<m. n(j)        value = SymSeq(m, j, value(j))
          * first raise:  fresh j0<m, r(j0), forall j<j0. n(j)   raises e(j0)."""
        h = self.ctx_hook('comprehension_hook', st, node)
        if h is not None:
            return h
        if len(node.generators) == 2:
            return self._nested_comprehension(node, st, pytype)
        if len(node.generators) != 1:
            raise Unsupported('nested comprehension')
        g = node.generators[0]
        res = []
        for st2, it in self.eval(g.iter, st):
            if isinstance(it, TupleV):
                # concrete arity: unroll
                cur = [(st2, [])]
                for x in it.items:
                    nxt = []
                    for s, acc in cur:
                        for s2 in self.assign(g.target, x, s.fork()):
                            ok = [(s2, True)]
                            for cnode in g.ifs:
                                ok2 = []
                                for s3, flag in ok:
                                    if not flag:
                                        ok2.append((s3, False))
                                        continue
                                    for s4, cv in self.eval(cnode, s3):
                                        for s5, side in self.branch(s4, self.truth(cv)):
                                            ok2.append((s5, side))
                                ok = ok2
                            for s3, flag in ok:
                                if not flag:
                                    nxt.append((s3, acc))
                                else:
                                    for s4, v in self.eval(node.elt, s3):
                                        nxt.append((s4, acc + [v]))
                    cur = nxt
                for s, acc in cur:
                    res.append((s, TupleV(acc, pytype == 'list')))
                continue
            length, elem = self.iter_descr(it, st2)
            if length is None:
                raise Unsupported('comprehension over an unbounded stream')
            res.extend(self._generic_comprehension(node, g, st2, length, elem, pytype))
        return res


class NestedSeqV(SymSeqV):
    """[elt for a in A for b in range(n(a))]: the flat list of length sum_{d<m} n(d) that holds the element of every
    pair (d, e), 0 <= d < m, 0 <= e < n(d), exactly once.  DP/EP give the pair at a flat index, FLAT the index of a pair
    (mutually inverse); `pair_elem(d, e)` is the element of a pair."""
    kind = 'nestedseq'


class RangeV(Val):
    kind = 'range'

    def __init__(self, start, n):
        self.start = start
        self.n = n


class ItemGetterV(Val):
    kind = 'itemgetter'

    def __init__(self, idx, single=None):
        self.idx = idx
        self.single = single


class GenStreamV(Val):
    """A stream whose element k is given by arbitrary interface outcomes elem(k) -> [Out]."""
    kind = 'genstream'

    def __init__(self, length, elem, desc=''):
        self.length = length
        self.elem = elem
        self.desc = desc


class IntDictV(Val):
    """A python dict int -> object in the heap: dom (Array Int Bool), sto (Array Int Obj)."""
    kind = 'intdict'

    def __init__(self, oid):
        self.oid = oid


NUMV = z3.Function('NUMV', smt.Fn, smt.Obj, smt.Real)   # value of a number-valued user callable


class NumFnV(Val):
    """A user callable returning a number (len_key): total, deterministic (A-PURE)."""
    kind = 'numfn'

    def __init__(self, t):
        self.t = t


class PySliceV(Val):
    kind = 'pyslice'

    def __init__(self, lo, hi, step):
        self.lo, self.hi, self.step = lo, hi, step


class NdArrV(Val):
    """a 1-d numpy integer array object in the heap: {'n': length, 'f': index -> value, 'inv': inverse or None}"""
    kind = 'ndarray'

    def __init__(self, oid):
        self.oid = oid


class RngV(Val):
    """a random generator object (np.random.RandomState instance or the np.random module)"""
    kind = 'rng'

    def __init__(self, t, is_global=False):
        self.t = t
        self.is_global = is_global


class EmptyDictV(Val):
    kind = 'emptydict'


class KwArgsV(Val):
    """the `**kwargs` dict of a call: statically known extra keywords plus (optionally) an opaque rest that is
    only ever passed on as `**kwargs` again"""
    kind = 'kwargs'

    def __init__(self, items=None, rest=None):
        self.items = dict(items or {})
        self.rest = rest


class QueueV(Val):
    """queue.Queue: FIFO in the heap as (arr: Int->Obj, head, tail, maxsize)."""
    kind = 'queue'

    def __init__(self, oid):
        self.oid = oid


class SuperV(Val):
    kind = 'super'

    def __init__(self, inst, base):
        self.inst = inst
        self.base = base


class CellListV(Val):
    """A fixed-length mutable list shared by identity (heap cell)."""
    kind = 'celllist'

    def __init__(self, oid):
        self.oid = oid


class SliceSpecV(Val):
    """An opaque indexing argument (slice / tuple / list / ndarray / bytes / other)."""
    kind = 'slicespec'

    def __init__(self, t, classes, ndim1=True):
        self.t = t
        self.classes = set(classes)
        self.ndim1 = ndim1

    def __repr__(self):
        return 'SliceSpecV(%s,%s)' % (self.t, sorted(self.classes))


class DictV(Val):
    kind = 'dict'

    def __init__(self, oid):
        self.oid = oid


class SetV(Val):
    kind = 'set'

    def __init__(self, card, member=None):
        self.card = card
        self.member = member


def _to_load(t):
    t2 = _copy.deepcopy(t)
    for n in ast.walk(t2):
        if hasattr(n, 'ctx'):
            n.ctx = ast.Load()
    return t2


class SymDictV(Val):
    """An insertion-ordered python dict str -> object with symbolic content:
    n entries, keyat(j) the j-th key, pos(k) the position of k (-1 absent), valof(k)."""
    kind = 'symdict'

    def __init__(self, tag='dict'):
        self.n = smt.fresh(tag + '_n', smt.Int)
        self.keyat = z3.Function('%s_keyat!%d' % (tag, next(smt._counter)), smt.Int, smt.Key)
        self.pos = z3.Function('%s_pos!%d' % (tag, next(smt._counter)), smt.Key, smt.Int)
        self.valof = z3.Function('%s_valof!%d' % (tag, next(smt._counter)), smt.Key, smt.Obj)
        AX.add(self.n >= 0)

    # keyview protocol
    def key(self, j):
        k = self.keyat(j)
        AX.add(z3.Implies(z3.And(j >= 0, j < self.n), self.pos(k) == j))
        return k

    def kpos(self, k):
        p = self.pos(k)
        AX.add(z3.And(p >= -1, p < self.n))
        AX.add(z3.Implies(p >= 0, self.keyat(p) == k))
        return p

    def keys_seq(self, pytype='tuple'):
        s = SymSeqV(self.n, lambda e: KeyV(self.key(e)), pytype)
        s.keyview = self
        return s
