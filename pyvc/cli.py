"""Developer entry point: run contracts and print a table.
usage: python3-vt -m pyvc.cli [--only <substr>] [--verbose] <contract module> ...
"""
import argparse
import importlib
import sys
import time

from .extract import Source
from .verify import make_hier, run_variant


def main():
    ap = argparse.ArgumentParser()
    ap.add_argument('modules', nargs='*', default=[])
    ap.add_argument('--only', default=None)
    ap.add_argument('--verbose', '-v', action='store_true')
    ap.add_argument('--repo', default=None)
    a = ap.parse_args()
    sys.path.insert(0, '/verif')
    src = Source(a.repo)
    hier = make_hier(src)
    t0 = time.time()
    tot = dis = 0
    for mname in a.modules:
        mod = importlib.import_module(mname)
        for c in mod.CONTRACTS:
            for meth, variants in c.methods.items():
                for v in variants:
                    label = '%s.%s[%s]' % (c.cls or '', meth, v.name)
                    if a.only and a.only not in label:
                        continue
                    r = run_variant(src, hier, c, meth, v, repo_qual=getattr(v, 'qual', None))
                    nd = sum(1 for o in r.obligations if o['status'] == 'unsat')
                    tot += len(r.obligations)
                    dis += nd
                    flag = 'OK ' if (r.status == 'ok' and nd == len(r.obligations)) else r.status.upper()
                    if r.status == 'ok' and nd != len(r.obligations):
                        flag = 'FAIL'
                    print('%-5s %-55s %3d/%3d obl  paths=%d covers=%d/%d  %.2fs %s'
                          % (flag, label, nd, len(r.obligations), r.paths, r.cover_sat, r.covers, r.seconds,
                             r.reason.splitlines()[0] if r.reason else ''))
                    if r.status == 'fault' and a.verbose:
                        print(r.reason)
                    for o in r.obligations:
                        if o['status'] != 'unsat' or a.verbose:
                            print('       %-7s %s (%s, %.3fs)' % (o['status'], o['name'], o['backend'], o['seconds']))
                            if o['status'] == 'sat' and a.verbose:
                                for k, val in list(o.get('model', {}).items())[:25]:
                                    print('           %s = %s' % (k, val))
    print('total %d obligations, %d discharged, %.1fs' % (tot, dis, time.time() - t0))


if __name__ == '__main__':
    main()
